"""Least-squares fits as uninterpreted functions at the library boundary.

`np.polyfit`, `scipy.optimize.curve_fit` and the numpy helpers around them (`np.extract` with a boolean mask over a
vector of unknown length, `np.polyval`, `np.mean` of a residual, `np.where(min == list)`, `np.allclose`) are given
abstract models here, so that the package's own fitting pipeline - whatever private helpers it is split into - can be
interpreted from the public `from_data` down to the library call and back:

* a fit returns fresh symbols (``FIT#k.p<j>`` = coefficient of x**j, ``FIT#k.f<i>`` = i-th parameter of the model
  function handed to curve_fit) and records what was fitted (x, y, the model function);
* data are vectors of unknown length with a generic element; a sub-vector selected by a mask is again a generic
  vector (tagged with the mask), its length is "many" (larger than any small constant the code compares it with);
* the data instance (generic / all zero / constant non-zero / NaN) is chosen by the rule and decides the tests the
  code makes on the data (np.isclose(x, 0), np.isnan(x), np.allclose(data, data[0])).
"""
import ast
from fractions import Fraction as Fr

from .nf import Rat, C
from .source import Unsupported
from .xlate import ListV, Elem, FuncRef, Raised, _RaisedExc, _arg, SumV, Obj, MaskV


class FitCall:
    def __init__(self, kind, k, node, x, y, deg=None, func=None, params=None):
        self.kind = kind            # 'polyfit' | 'curve_fit'
        self.k = k
        self.node = node
        self.x = x
        self.y = y
        self.deg = deg
        self.func = func
        self.params = params or []  # the fresh symbols, in the order the library returns them


class DataVec(Elem):
    """a data vector of unknown length: ``kind`` in generic / zero / const / nan; ``mask`` for sub-vectors"""

    def __init__(self, r, kind='generic', mask=None):
        Elem.__init__(self, r)
        self.kind = kind
        self.mask = mask


def mask_key(mask):
    return '&'.join(sorted('%r%s%r' % (a, o, b) for o, a, b in mask.terms))


def install(I):
    I.fit_calls = []
    I.masks = {}

    def elem_kind(v):
        if isinstance(v, Elem) and isinstance(v.r, Rat):
            if v.r.iszero():
                return 'zero'
            ks = {I.data_kind.get(a) for a in v.r.atoms()}
            if 'nan' in ks:
                return 'nan'
            if ks == {'const'}:
                return 'const'
            return 'generic'
        return None

    def polyfit(I_, fr, args, kwargs, n):
        x = _arg(args, kwargs, 0, 'x')
        y = _arg(args, kwargs, 1, 'y')
        deg = _arg(args, kwargs, 2, 'deg')
        if not (isinstance(deg, Rat) and deg.is_const()):
            raise Unsupported('np.polyfit with a symbolic degree', n)
        d = int(deg.const_value())
        k = len(I_.fit_calls) + 1
        ps = [I_.D.sym('FIT#%d.p%d' % (k, j)) for j in range(d, -1, -1)]      # highest power first
        I_.fit_calls.append(FitCall('polyfit', k, n, x, y, deg=d, params=list(ps)))
        out = ListV(ps)
        out.is_array = True
        out.dtype = 'float'
        return out

    def polyval(I_, fr, args, kwargs, n):
        p = _arg(args, kwargs, 0, 'p')
        x = _arg(args, kwargs, 1, 'x')
        if not isinstance(p, ListV):
            raise Unsupported('np.polyval coefficients', n)

        def at(xv):
            tot = C(0)
            for c_ in p.items:
                tot = tot * xv + c_
            return tot
        if isinstance(x, Elem):
            return Elem(at(x.r))
        if isinstance(x, ListV):
            r = ListV([at(t) for t in x.items])
            r.is_array = True
            return r
        return at(x)

    def curve_fit(I_, fr, args, kwargs, n):
        f = _arg(args, kwargs, 0, 'f')
        x = _arg(args, kwargs, 1, 'xdata')
        y = _arg(args, kwargs, 2, 'ydata')
        # the parameters curve_fit fits: those of the model function after the first (inspect.signature semantics: a
        # functools.partial hides the arguments it binds)
        base, bound_pos, bound_kw = f, 0, set()
        while hasattr(base, 'partial'):
            base, pa_, pk_ = base.partial
            bound_pos += len(pa_)
            bound_kw |= set(pk_)
        if not isinstance(base, FuncRef):
            raise Unsupported('curve_fit model function is not resolvable', n)
        a_ = base.fn.args
        names = [q.arg for q in a_.posonlyargs + a_.args]
        if base.self_obj is not None and names and names[0] in ('self', 'cls'):
            names = names[1:]
        names = [q for q in names[bound_pos:] if q not in bound_kw]
        if a_.vararg is not None:
            p0 = kwargs.get('p0')
            if not isinstance(p0, ListV):
                raise Unsupported('curve_fit with *params and no p0', n)
            npar = len(p0)
        else:
            npar = len(names) - 1
        k = len(I_.fit_calls) + 1
        ps = [I_.D.sym('FIT#%d.f%d' % (k, i)) for i in range(npar)]
        I_.fit_calls.append(FitCall('curve_fit', k, n, x, y, func=f, params=list(ps)))
        popt = ListV(ps)
        popt.is_array = True
        popt.dtype = 'float'
        return ListV([popt, I_.D.sym('FIT#%d.pcov' % k)])

    def extract(I_, fr, args, kwargs, n):
        cond = _arg(args, kwargs, 0, 'condition')
        arr = _arg(args, kwargs, 1, 'arr')
        if isinstance(arr, Elem) and isinstance(arr.r, Rat) and isinstance(cond, MaskV):
            # the selected sub-vector: its generic element is tagged with the mask, so that vectors selected by
            # different masks are different data (misaligned x/y pairs stay visible)
            tag = mask_key(cond)
            I_.masks[tag] = cond
            if arr.r.iszero():
                return DataVec(arr.r, 'zero', mask=cond)
            ats = sorted(arr.r.atoms())
            if len(ats) != 1 or not arr.r.eq(Rat.atom(ats[0])) or ats[0] not in I_.data_kind:
                raise Unsupported('np.extract of a derived vector %r' % (arr.r,), n)
            base = ats[0].split('|')[0]
            nm = '%s|%s' % (base, tag if '|' not in ats[0] else ats[0].split('|', 1)[1] + '&' + tag)
            I_.data_kind[nm] = I_.data_kind[ats[0]]
            return DataVec(I_.D.sym(nm), getattr(arr, 'kind', 'generic'), mask=cond)
        raise Unsupported('np.extract on %r with %r' % (arr, cond), n)

    def allclose(I_, fr, args, kwargs, n):
        a, b = args[0], args[1]
        if isinstance(a, Elem) and isinstance(b, Rat):
            ka = elem_kind(a)
            if ka in ('zero', 'const'):
                return (a.r - b).iszero()
            if ka == 'nan':
                return False
            return False            # generic data are not all equal to one value
        if isinstance(a, Rat) and isinstance(b, Rat):
            return I_.native['numpy.isclose'](I_, fr, args, kwargs, n)
        raise Unsupported('np.allclose operands', n)

    def isnan(I_, fr, args, kwargs, n):
        v = args[0]
        if isinstance(v, Rat):
            return any(I_.data_kind.get(a) == 'nan' for a in v.atoms())
        if isinstance(v, Elem) and isinstance(v.r, Rat):
            return Elem(any(I_.data_kind.get(a) == 'nan' for a in v.r.atoms()))
        raise Unsupported('np.isnan operand', n)

    base_isclose = I.native['numpy.isclose']

    def isclose(I_, fr, args, kwargs, n):
        a, b = args[0], args[1]
        if isinstance(a, Elem) and isinstance(a.r, Rat) and isinstance(b, Rat):
            return Elem(isclose(I_, fr, [a.r, b] + list(args[2:]), kwargs, n))      # element by element
        if isinstance(a, Rat) and isinstance(b, Rat) and not a.eq(b) and (b.is_const() or b.iszero()):
            ks = {I_.data_kind.get(x) for x in a.atoms()}
            if ks and ks <= {'generic', 'const', 'nan'} and a.is_monomial():
                return False        # a generic (or constant non-zero) datum is not within tolerance of a fixed number
        if isinstance(a, Rat) and isinstance(b, Rat) and not a.eq(b):
            ka = {I_.data_kind.get(x) for x in a.atoms()} | {I_.data_kind.get(x) for x in b.atoms()}
            if ka and ka <= {'generic', 'nan'} and a.is_monomial() and b.is_monomial():
                return False        # two different entries of generic data are not within tolerance of each other
        return base_isclose(I_, fr, args, kwargs, n)

    base_mean = I.native['numpy.mean']

    def mean(I_, fr, args, kwargs, n):
        v = _arg(args, kwargs, 0, 'a')
        if isinstance(v, Elem) and isinstance(v.r, Rat):
            if v.r.iszero():
                return C(0)
            return I_.D.sym('MEAN{%r}' % (v.r,))
        return base_mean(I_, fr, args, kwargs, n)

    I.native['numpy.mean'] = mean
    I.native['numpy.isclose'] = isclose
    I.native['numpy.polyfit'] = polyfit
    I.native['numpy.polyval'] = polyval
    I.native['scipy.optimize.curve_fit'] = curve_fit
    I.native['numpy.extract'] = extract
    I.native['numpy.allclose'] = allclose
    I.native['numpy.isnan'] = isnan
    I.elem_kind = elem_kind
    return I


def data_vector(I, name, kind='generic'):
    """a data vector of unknown length whose generic element is the atom ``name``"""
    if kind == 'zero':
        return DataVec(C(0), 'zero')
    s = I.D.sym(name)
    I.data_kind[name] = kind
    return DataVec(s, kind)
