"""Models of standard-library and NumPy helpers that code reaches for when it is modernised.

Each is the function's documented meaning on the abstract values of the interpreter (exact rationals, lists, vectors of
unknown length, abstract strings); none looks at the analysed package.  Registered into xlate.NATIVE on import.
"""
import ast
import itertools as _it
from fractions import Fraction as Fr

from .nf import Rat, C
from .source import Unsupported
from . import xlate as X
from .xlate import ListV, Elem, DictV, Obj, Raised, _RaisedExc, _arg, _as_int, SumV, MaskV, take, is_iter


class CallableV:
    """a callable value made by a library function (functools.partial, operator.itemgetter, ...)"""

    def __init__(self, fn, label='callable'):
        self.fn = fn
        self.label = label

    def pmv_call(self, I, fr, args, kwargs, n):
        return self.fn(I, fr, args, kwargs, n)

    def __repr__(self):
        return '<%s>' % self.label


class SuppressV:
    def __init__(self, names):
        self.pmv_suppress = names


def _exc_name(v):
    if isinstance(v, X.Builtin):
        return v.name
    if isinstance(v, Raised):
        return v.exc
    if isinstance(v, str):
        return v
    raise Unsupported('exception class %r' % (v,))


# ---- functools / operator -------------------------------------------------------------------------------------------
def _partial(I, fr, args, kwargs, n):
    f, pa, pk = args[0], list(args[1:]), dict(kwargs)
    cv = CallableV(lambda I_, fr_, a, k, n_: fr_.apply(f, pa + list(a), dict(pk, **k), n_), 'partial')
    cv.partial = (f, pa, pk)
    return cv


def _itemgetter(I, fr, args, kwargs, n):
    idxs = list(args)

    def call(I_, fr_, a, k, n_):
        got = [fr_.getitem(a[0], i, n_) for i in idxs]
        return got[0] if len(got) == 1 else ListV(got)
    return CallableV(call, 'itemgetter')


def _attrgetter(I, fr, args, kwargs, n):
    names = list(args)

    def one(fr_, o, name, n_):
        for part in name.split('.'):
            o = X.builtin_call(fr_.I, fr_, 'getattr', [o, part], {}, n_)
        return o

    def call(I_, fr_, a, k, n_):
        got = [one(fr_, a[0], nm, n_) for nm in names]
        return got[0] if len(got) == 1 else ListV(got)
    return CallableV(call, 'attrgetter')


def _op2(op):
    return lambda I, fr, args, kwargs, n: I.binop(op, args[0], args[1])


def _cmp2(op):
    return lambda I, fr, args, kwargs, n: I.compare(op, args[0], args[1], n)


def _xor(I, fr, args, kwargs, n):
    a, b = args
    if isinstance(a, bool) and isinstance(b, bool):
        return a != b
    raise Unsupported('operator.xor on %r, %r' % (a, b), n)


def _reduce_ufunc(op):
    def h(I, fr, args, kwargs, n):
        seq = fr.iter_items(args[0], n)
        if not seq:
            raise _RaisedExc(Raised('ValueError', n))
        tot = seq[0]
        for x in seq[1:]:
            tot = op(I, fr, tot, x, n)
        return tot
    return h


def _elementwise2(I, fr, a, b, n, f):
    """a binary ufunc: element by element with a scalar operand broadcast"""
    if isinstance(a, ListV) or isinstance(b, ListV):
        la = a.items if isinstance(a, ListV) else None
        lb = b.items if isinstance(b, ListV) else None
        if la is not None and lb is not None and len(la) != len(lb):
            if len(la) == 1:
                la = la * len(lb)
            elif len(lb) == 1:
                lb = lb * len(la)
            else:
                raise _RaisedExc(Raised('ValueError', n))
        m_ = len(la if la is not None else lb)
        return _array(_elementwise2(I, fr, la[i] if la is not None else a, lb[i] if lb is not None else b, n, f)
                      for i in range(m_))
    if isinstance(a, Elem) or isinstance(b, Elem):
        return Elem(f(a.r if isinstance(a, Elem) else a, b.r if isinstance(b, Elem) else b))
    return f(a, b)


def _maximum2(I, fr, a, b, n):
    return _elementwise2(I, fr, a, b, n, lambda x, y: I.native['numpy.max'](I, fr, [ListV([x, y])], {}, n))


def _minimum2(I, fr, a, b, n):
    return _elementwise2(I, fr, a, b, n, lambda x, y: I.native['numpy.min'](I, fr, [ListV([x, y])], {}, n))


def _compare_ufunc(op):
    def h(I, fr, args, kwargs, n):
        if len(args) != 2 or kwargs:
            raise Unsupported('comparison ufunc with extra arguments', n)
        return _elementwise2(I, fr, args[0], args[1], n, lambda x, y: I.compare(op, x, y, n))
    return h


def _logical2(which):
    def h(I, fr, args, kwargs, n):
        if len(args) != 2 or kwargs:
            raise Unsupported('logical ufunc with extra arguments', n)

        def f(x, y):
            if isinstance(x, bool) and isinstance(y, bool):
                return (x and y) if which == 'and' else (x or y)
            raise Unsupported('np.logical_%s of values that are not booleans' % which, n)
        return _elementwise2(I, fr, args[0], args[1], n, f)
    return h


def _finfo(I, fr, args, kwargs, n):
    """np.finfo(float): machine parameters as positive constants of their own (nothing is known about them but that)"""
    o = Obj('finfo', closed=True)
    for a_ in ('eps', 'tiny', 'max', 'resolution', 'smallest_normal'):
        o.attrs[a_] = I.D.sym('FINFO<%s>' % a_)
    o.attrs['min'] = I.neg(I.D.sym('FINFO<max>'))
    return o


# ---- itertools ------------------------------------------------------------------------------------------------------
def _iterator(items):
    r = ListV(list(items))
    r.is_iterator = True
    return r


def _pairwise(I, fr, args, kwargs, n):
    seq = fr.iter_items(args[0], n)
    return _iterator(ListV([a, b]) for a, b in zip(seq, seq[1:]))


def _accumulate(I, fr, args, kwargs, n):
    seq = fr.iter_items(args[0], n)
    func = args[1] if len(args) > 1 else kwargs.get('func')
    out = []
    if kwargs.get('initial') is not None:
        tot = kwargs['initial']
        out.append(tot)
    elif seq:
        tot = seq[0]
        out.append(tot)
        seq = seq[1:]
    for x in seq:
        tot = fr.apply(func, [tot, x], {}, n) if func is not None else I.binop('+', tot, x)
        out.append(tot)
    return _iterator(out)


class CountV:
    """itertools.count(start, step): an unbounded iterator"""

    def __init__(self, start, step):
        self.cur = start
        self.step = step

    def take(self, I):
        v = self.cur
        self.cur = I.binop('+', self.cur, self.step)
        return v


def _count(I, fr, args, kwargs, n):
    return CountV(_arg(args, kwargs, 0, 'start', C(0)), _arg(args, kwargs, 1, 'step', C(1)))


def _compress(I, fr, args, kwargs, n):
    if isinstance(args[0], Elem) and isinstance(args[1], Elem) and isinstance(args[1].r, bool):
        if args[1].r:
            return args[0]              # every element is kept
        return ListV([])
    data, sel = fr.iter_items(args[0], n), fr.iter_items(args[1], n)
    return _iterator(d for d, s_ in zip(data, sel) if I.truth(s_, n))


def _islice(I, fr, args, kwargs, n):
    bounds = [None if b is None else _as_int(b, n) for b in args[1:]]
    src = args[0]
    if isinstance(src, CountV):
        stop = bounds[0] if len(bounds) == 1 else bounds[1]
        if stop is None:
            raise Unsupported('islice of an unbounded iterator without stop', n)
        items = [src.take(I) for _ in range(stop)]
        return _iterator(items[slice(*bounds)] if len(bounds) > 1 else items)
    if is_iter(src):
        sl = slice(*bounds)
        stop = sl.stop if sl.stop is not None else len(src.items)
        got = take(src, stop)
        return _iterator(got[sl])
    return _iterator(fr.iter_items(src, n)[slice(*bounds)])


def _zip_longest(I, fr, args, kwargs, n):
    seqs = [fr.iter_items(a, n) for a in args]
    fill = kwargs.get('fillvalue')
    return _iterator(ListV(list(t)) for t in _it.zip_longest(*seqs, fillvalue=fill))


def _starmap(I, fr, args, kwargs, n):
    return _iterator(fr.apply(args[0], fr.iter_items(t, n), {}, n) for t in fr.iter_items(args[1], n))


def _chain_from_iterable(I, fr, args, kwargs, n):
    out = []
    for part in fr.iter_items(args[0], n):
        out.extend(fr.iter_items(part, n))
    return _iterator(out)


def _groupby(I, fr, args, kwargs, n):
    seq = fr.iter_items(args[0], n)
    key = args[1] if len(args) > 1 else kwargs.get('key')
    out = []
    for x in seq:
        k = fr.apply(key, [x], {}, n) if key is not None else x
        if out and I.struct_eq(out[-1][0], k):
            out[-1][1].append(x)
        else:
            out.append((k, [x]))
    return _iterator(ListV([k, _iterator(g)]) for k, g in out)


# ---- math -----------------------------------------------------------------------------------------------------------
def _prod(I, fr, args, kwargs, n):
    tot = kwargs.get('start', C(1))
    for x in fr.iter_items(args[0], n):
        tot = I.binop('*', tot, x)
    return tot


def _fsum(I, fr, args, kwargs, n):
    tot = C(0)
    for x in fr.iter_items(args[0], n):
        tot = I.binop('+', tot, x)
    return tot


# ---- contextlib -----------------------------------------------------------------------------------------------------
def _suppress(I, fr, args, kwargs, n):
    return SuppressV([_exc_name(a) for a in args])


# ---- numpy ----------------------------------------------------------------------------------------------------------
def _array(items, dtype=None):
    r = ListV(list(items))
    r.is_array = True
    if dtype:
        r.dtype = dtype
    return r


def _fromiter(I, fr, args, kwargs, n):
    items = fr.iter_items(_arg(args, kwargs, 0, 'iter'), n)
    cnt = kwargs.get('count', args[2] if len(args) > 2 else None)
    if cnt is not None and isinstance(cnt, Rat) and (cnt.is_const() or cnt.iszero()):
        c_ = 0 if cnt.iszero() else int(cnt.const_value())
        if c_ >= 0:
            if len(items) < c_:
                raise _RaisedExc(Raised('ValueError', n))
            items = items[:c_]
    r = _array(items, X._dtype_tag(_arg(args, kwargs, 1, 'dtype', None)))
    if getattr(r, 'dtype', None) in ('int', 'narrow', 'caller'):
        fr.int_store(r, list(items), n)         # every item is converted to the element type
    return r


class RClass:
    """np.r_[a, b, ...]: concatenation along the first axis of arrays and scalars"""

    def pmv_getitem(self, I, fr, idx, n):
        parts = idx.items if isinstance(idx, ListV) and not getattr(idx, 'is_array', False) else [idx]
        out = []
        for p in parts:
            if isinstance(p, X.SliceV) or isinstance(p, str):
                raise Unsupported('np.r_ with a slice / directive', n)
            if isinstance(p, ListV):
                out.extend(p.items)
            elif isinstance(p, Elem):
                raise Unsupported('np.r_ over a vector of unknown length', n)
            else:
                out.append(p)
        return _array(out, 'float')


def _np_where3(base):
    def h(I, fr, args, kwargs, n):
        if len(args) == 3:
            cond, a, b = args
            if isinstance(cond, bool):
                return a if cond else b
            if isinstance(cond, ListV) and all(isinstance(c_, bool) for c_ in cond.items):
                pick = lambda v, i: v.items[i] if isinstance(v, ListV) else v
                return _array(pick(a, i) if c_ else pick(b, i) for i, c_ in enumerate(cond.items))
            raise Unsupported('np.where(cond, a, b) with an undecided condition', n)
        return base(I, fr, args, kwargs, n)
    return h


def _cumsum(I, fr, args, kwargs, n):
    tot = C(0)
    out = []
    for x in fr.iter_items(args[0], n):
        tot = I.binop('+', tot, x)
        out.append(tot)
    return _array(out)


def _diff(I, fr, args, kwargs, n):
    v = args[0]
    if isinstance(v, ListV):
        return _array(I.binop('-', b, a) for a, b in zip(v.items, v.items[1:]))
    raise Unsupported('np.diff operand', n)


def _stack(I, fr, args, kwargs, n):
    return _array(fr.iter_items(args[0], n))


def _isclose_vec(base):
    def h(I, fr, args, kwargs, n):
        a, b = args[0], args[1]
        if isinstance(a, Elem) and isinstance(b, Rat):
            r = base(I, fr, [a.r, b] + list(args[2:]), kwargs, n)
            out = Elem(r)
            out.mask_of = a
            return out
        if isinstance(a, ListV) and isinstance(b, (Rat, ListV)):
            bs = b.items if isinstance(b, ListV) else [b] * len(a.items)
            return _array(base(I, fr, [x, y] + list(args[2:]), kwargs, n) for x, y in zip(a.items, bs))
        if isinstance(b, ListV) and isinstance(a, Rat):
            return _array(base(I, fr, [a, y] + list(args[2:]), kwargs, n) for y in b.items)
        return base(I, fr, args, kwargs, n)
    return h


def _logical_not(I, fr, args, kwargs, n):
    v = args[0]
    if isinstance(v, bool):
        return not v
    if isinstance(v, ListV) and all(isinstance(x, bool) for x in v.items):
        return _array(not x for x in v.items)
    if isinstance(v, Elem) and isinstance(v.r, bool):
        return Elem(not v.r)
    raise Unsupported('logical not of %r' % (v,), n)


# ---- methods of arrays / vectors / numbers (consulted by xlate.bound_native before it gives up) ----------------------
def array_method(I, fr, b, name, args, kwargs, n):
    """returns (True, value) when the method is modelled here"""
    if isinstance(b, Elem) and isinstance(b.r, bool) and name in ('all', 'any') and not args and not kwargs:
        return True, b.r
    if isinstance(b, bool) and name in ('all', 'any'):
        return True, b
    if isinstance(b, ListV) and name in ('all', 'any') and not args and all(isinstance(x, bool) for x in b.items):
        return True, (all(b.items) if name == 'all' else any(b.items))
    if isinstance(b, (Elem, Rat)) and name in ('max', 'min') and not args and not kwargs:
        return True, I.native['numpy.' + name](I, fr, [b], {}, n)
    if isinstance(b, ListV) and getattr(b, 'is_array', False):
        if name in ('max', 'min') and not args and not kwargs:
            return True, X.builtin_call(I, fr, name, [ListV(list(b.items))], {}, n)
        if name == 'sum' and not args and not kwargs:
            return True, I.np_sum(b)
        if name in ('argmax', 'argmin') and not args and not kwargs and 'numpy.' + name in I.native:
            return True, I.native['numpy.' + name](I, fr, [b], {}, n)
        if name == 'reshape':
            if set(kwargs) - {'order'} or kwargs.get('order', 'C') not in ('C', 'F'):
                raise Unsupported('reshape(%s)' % ', '.join(sorted(kwargs)), n)
            fortran = kwargs.get('order', 'C') == 'F'
            shape = args[0].items if len(args) == 1 and isinstance(args[0], ListV) else list(args)
            dims = [_as_int(x, n) for x in shape]
            if fortran:
                # column-major: the first index runs fastest. Only the common case is modelled - a flat array laid
                # out into two dimensions
                if any(isinstance(x, ListV) for x in b.items) or len(dims) != 2:
                    if len(dims) == 1 and not any(isinstance(x, ListV) for x in b.items):
                        pass                                    # 1-D to 1-D: the order does not matter
                    else:
                        raise Unsupported("reshape(order='F') other than 1-D to 2-D", n)
                else:
                    r_, c_ = dims
                    tot = len(b.items)
                    if r_ == -1 and c_ > 0:
                        r_ = tot // c_
                    if c_ == -1 and r_ > 0:
                        c_ = tot // r_
                    if r_ * c_ != tot:
                        raise _RaisedExc(Raised('ValueError', n))
                    dt_ = getattr(b, 'dtype', None)
                    rf = _array((_array([b.items[j * r_ + i] for j in range(c_)], dt_) for i in range(r_)), dt_)
                    rf.frozen_view = True       # a strided view in numpy: a store through it is not modelled
                    for row_ in rf.items:
                        row_.frozen_view = True
                    return True, rf
            flat = []

            def fl(v):
                for x in v.items:
                    if isinstance(x, ListV):
                        fl(x)
                    else:
                        flat.append(x)
            fl(b)
            if len(dims) == 1 and dims[0] in (-1, len(flat)):
                r1 = _array(flat, getattr(b, 'dtype', None))
                r1.reshape_of = b               # a view: stores go through to b (xlate.sync_reshape)
                return True, r1
            if len(dims) == 2:
                r_, c_ = dims
                if r_ == -1 and c_ > 0:
                    r_ = len(flat) // c_
                if c_ == -1 and r_ > 0:
                    c_ = len(flat) // r_
                if r_ * c_ != len(flat):
                    raise _RaisedExc(Raised('ValueError', n))
                r2 = _array((_array(flat[i * c_:(i + 1) * c_], getattr(b, 'dtype', None)) for i in range(r_)),
                            getattr(b, 'dtype', None))
                r2.reshape_of = b               # a view: stores go through to b (xlate.sync_reshape)
                for row in r2.items:
                    row.reshape_root = r2
                return True, r2
            raise Unsupported('reshape to %s' % dims, n)
        if name == 'astype' and args:
            if set(kwargs) - {'copy'} or len(args) > 1:
                raise Unsupported('astype(%s)' % ', '.join(sorted(kwargs)), n)
            tag = X._dtype_tag(args[0])
            if kwargs.get('copy', True) is False and (
                    tag == getattr(b, 'dtype', None) or (tag == 'float' and getattr(b, 'dtype', None) in (None, 'float'))):
                return True, b              # nothing to convert: the very array (stores go through)
            if kwargs.get('copy', True) is False and tag == 'float' and getattr(b, 'dtype', None) == 'caller':
                r = X.ListV([])
                r.items = b.items           # the very array when the caller's is float64 already, a copy otherwise
                r.is_array = True
                r.dtype = 'float'
                return True, r
            if tag in ('int', 'narrow', 'caller'):
                # conversion to an integer type, a narrower float or the element type of a caller's container changes
                # every value that is not an integer constant: the same hazard as a store into such a buffer
                def leaves(v):
                    for x in v.items:
                        if isinstance(x, ListV):
                            yield from leaves(x)
                        else:
                            yield x
                fr.int_store(_array([], tag), list(leaves(b)), n)
            r = _array(b.items, tag)
            return True, r
        if name == 'ravel' and not args and not kwargs and not any(isinstance(x, ListV) for x in b.items):
            return True, b                  # a view of a contiguous 1-D array: stores go through
        if name in ('ravel', 'flatten') and not args:
            if name == 'ravel' and kwargs:
                raise Unsupported('ravel(%s)' % ', '.join(sorted(kwargs)), n)
            flat = []

            def fl2(v):
                for x in v.items:
                    fl2(x) if isinstance(x, ListV) else flat.append(x)
            fl2(b)
            return True, _array(flat, getattr(b, 'dtype', None))
    if (isinstance(b, Elem) or (isinstance(b, ListV) and getattr(b, 'is_array', False))) and \
            name in ARRAY_REDUCTIONS and 'numpy.' + name in I.native:
        # a.mean() / a.prod() / a.sum(axis=0) ...: the method is the function of that name applied to the array
        return True, I.call_native('numpy.' + name, fr, [b] + list(args), kwargs, n)
    return False, None


ARRAY_REDUCTIONS = frozenset(('mean', 'prod', 'sum', 'std', 'var', 'cumsum', 'cumprod', 'argsort', 'dot', 'clip', 'any',
                              'all', 'max', 'min', 'argmax', 'argmin', 'ptp', 'round', 'trace'))


def install():
    N = X.NATIVE
    N.update({
        'functools.partial': _partial,
        'operator.itemgetter': _itemgetter, 'operator.attrgetter': _attrgetter,
        'operator.iadd': _op2('+'), 'operator.isub': _op2('-'), 'operator.imul': _op2('*'),
        'operator.itruediv': _op2('/'), 'operator.ipow': _op2('**'), 'operator.mod': _op2('%'),
        'operator.eq': _cmp2('=='), 'operator.ne': _cmp2('!='), 'operator.lt': _cmp2('<'), 'operator.le': _cmp2('<='),
        'operator.gt': _cmp2('>'), 'operator.ge': _cmp2('>='), 'operator.xor': _xor,
        'operator.not_': lambda I, fr, a, k, n: not I.truth(a[0], n),
        'operator.truth': lambda I, fr, a, k, n: I.truth(a[0], n),
        'operator.getitem': lambda I, fr, a, k, n: fr.getitem(a[0], a[1], n),
        'operator.matmul': lambda I, fr, a, k, n: I.native['numpy.dot'](I, fr, list(a), {}, n),
        'operator.contains': lambda I, fr, a, k, n: I.compare('in', a[1], a[0], n),
        'itertools.pairwise': _pairwise, 'itertools.accumulate': _accumulate, 'itertools.count': _count,
        'itertools.compress': _compress, 'itertools.islice': _islice, 'itertools.zip_longest': _zip_longest,
        'itertools.starmap': _starmap, 'itertools.chain.from_iterable': _chain_from_iterable,
        'itertools.groupby': _groupby,
        'more_itertools.pairwise': _pairwise,
        'math.prod': _prod, 'math.fsum': _fsum,
        'math.sqrt': N['numpy.sqrt'], 'math.exp': N['numpy.exp'], 'math.log': N['numpy.log'],
        'math.isclose': N['numpy.isclose'],
        'contextlib.suppress': _suppress,
        'numpy.fromiter': _fromiter,
        'numpy.maximum': lambda I, fr, a, k, n: _maximum2(I, fr, a[0], a[1], n),
        'numpy.minimum': lambda I, fr, a, k, n: _minimum2(I, fr, a[0], a[1], n),
        # the largest / smallest of a list: the same value as np.max / np.min of it (one model for both spellings)
        'numpy.maximum.reduce': lambda I, fr, a, k, n: I.native['numpy.max'](I, fr, [ListV(fr.iter_items(a[0], n))], {}, n),
        'numpy.minimum.reduce': lambda I, fr, a, k, n: I.native['numpy.min'](I, fr, [ListV(fr.iter_items(a[0], n))], {}, n),
        'numpy.add.reduce': _reduce_ufunc(lambda I, fr, a, b, n: I.binop('+', a, b)),
        'numpy.multiply.reduce': _reduce_ufunc(lambda I, fr, a, b, n: I.binop('*', a, b)),
        'numpy.amax': N['numpy.max'], 'numpy.amin': N['numpy.min'],
        'numpy.cumsum': _cumsum, 'numpy.diff': _diff, 'numpy.stack': _stack, 'numpy.vstack': _stack,
        'numpy.hstack': X._np_hstack, 'numpy.column_stack': X._np_hstack,
        'numpy.logical_not': _logical_not, 'numpy.invert': _logical_not,
        'numpy.logical_and': _logical2('and'), 'numpy.logical_or': _logical2('or'),
        'numpy.less': _compare_ufunc('<'), 'numpy.less_equal': _compare_ufunc('<='),
        'numpy.greater': _compare_ufunc('>'), 'numpy.greater_equal': _compare_ufunc('>='),
        'numpy.equal': _compare_ufunc('=='), 'numpy.not_equal': _compare_ufunc('!='),
        'numpy.finfo': _finfo,
        'numpy.matmul': N['numpy.dot'],
    })
    N['numpy.where'] = _np_where3(N['numpy.where'])
    N['numpy.isclose'] = _isclose_vec(N['numpy.isclose'])
    X.GLOBAL_ATTRS['numpy.r_'] = lambda I: RClass()
    X.GLOBAL_ATTRS['math.pi'] = X.GLOBAL_ATTRS['numpy.pi']
    X.GLOBAL_ATTRS['math.inf'] = X.GLOBAL_ATTRS['numpy.inf']
    X.ARRAY_METHOD_HOOK = array_method


install()
