"""Run bookkeeping: obligations, findings, known findings, evidence, exit code."""
import json
import os
import time

from .source import AnchorError, Unsupported, norm

HERE = os.path.dirname(os.path.dirname(os.path.abspath(__file__)))
KNOWN_FILE = os.path.join(HERE, 'known_findings.json')
# PMV_EVIDENCE_DIR redirects evidence when the checks are tried on a deliberately broken tree (tools/seedtry.py)
EVID_DIR = os.environ.get('PMV_EVIDENCE_DIR') or os.path.join(HERE, 'evidence')


class AnalysisError(Exception):
    pass


class FloorError(AnalysisError):
    """a rule matched fewer instances than were confirmed for this code base"""


class Finding:
    def __init__(self, prop, rule, construct, key, why, relpath, line, sig=None):
        self.prop = prop
        self.rule = rule
        self.construct = construct
        self.key = key
        self.why = why
        self.relpath = relpath
        self.line = line
        # what exactly is wrong, in a form that does not depend on positions (a deviation class, "x became y"): a
        # known finding that names a signature only covers findings with that signature, so that another defect at the
        # same instance is not hidden behind it
        self.sig = sig

    def ident(self):
        return (self.prop, self.rule, self.construct, self.key)

    def as_dict(self):
        d = {'property': self.prop, 'rule': self.rule,
             'construct': self.construct, 'key': self.key,
             'why': self.why, 'file': self.relpath, 'line': self.line}
        if self.sig is not None:
            d['sig'] = self.sig
        return d


def _visited():
    from .xlate import VISITED
    return set(VISITED)


class Run:
    def __init__(self, prop, tier='quick', seed=0, repo=None):
        self.prop = prop
        self.tier = tier
        self.seed = seed
        self.repo = repo
        self.t0 = time.time()
        self.obligations = 0
        self.discharged = 0
        self.by_rule = {}
        self.findings = []
        self.notes = []
        self.samples = []
        self.undecided = []
        self.floors = {}
        self.canaries = {}
        self.functions = set()
        self.tables = set()
        self.call_sites = 0
        self.explanation = ''
        self.assumptions = []
        self.extra = {}

    # ---- recording ---------------------------------------------------
    def _loc(self, module, node):
        rel = module.relpath if module is not None else '?'
        line = getattr(node, 'lineno', 0) if node is not None else 0
        return rel, line

    def _count(self, rule, ok):
        self.obligations += 1
        r = self.by_rule.setdefault(rule, [0, 0])
        r[0] += 1
        if ok:
            self.discharged += 1
            r[1] += 1

    def ok(self, rule, construct=None, sample=None):
        self._count(rule, True)
        if sample is not None and len(self.samples) < 400:
            self.samples.append({'rule': rule, 'construct': construct,
                                 'obligation': sample, 'holds': True})

    def fail(self, rule, construct, key, why, module=None, node=None, sig=None):
        self._count(rule, False)
        rel, line = self._loc(module, node)
        if not isinstance(key, str):
            key = norm(key)
        f = Finding(self.prop, rule, construct, key, why, rel, line, sig)
        # one finding per identity and signature
        if (f.ident(), f.sig) not in [(g.ident(), g.sig) for g in self.findings]:
            self.findings.append(f)
        return f

    def check(self, cond, rule, construct, key, why, module=None, node=None,
              sample=None, sig=None):
        if cond:
            self.ok(rule, construct, sample)
        else:
            self.fail(rule, construct, key, why, module, node, sig=sig() if callable(sig) else sig)
        return bool(cond)

    def note(self, text, module=None, node=None):
        rel, line = self._loc(module, node)
        self.notes.append('%s:%s %s' % (rel, line, text))

    def sample(self, obj):
        if len(self.samples) < 400:
            self.samples.append(obj)

    def fn(self, *quals):
        self.functions.update(quals)

    def table(self, *names):
        self.tables.update(names)

    def floor(self, name, count, minimum):
        self.floors[name] = {'count': count, 'floor': minimum}
        if count < minimum:
            raise FloorError('floor %s: matched %d instances, fewer than the %d '
                                'confirmed for this code base - rule would pass '
                                'vacuously' % (name, count, minimum))

    def canary(self, name, fired):
        self.canaries[name] = bool(fired)
        if not fired:
            raise AnalysisError('canary %s did not fire: the rule no longer '
                                'detects its own positive example' % name)

    # ---- finishing ---------------------------------------------------
    def load_known(self):
        if not os.path.exists(KNOWN_FILE):
            return []
        with open(KNOWN_FILE) as fh:
            data = json.load(fh)
        return [e for e in data.get('findings', []) if e.get('property') == self.prop]

    def split_known(self):
        """(violations, known findings) of what was found so far"""
        known = [e for e in self.load_known() if e.get('status') == 'known']
        kset = {}
        for e in known:
            kset.setdefault((e['property'], e['rule'], e['construct'], e['key']), []).append(e)
        viol, kn = [], []
        for f in self.findings:
            es = kset.get(f.ident(), [])
            if any('sig' not in e or e['sig'] == f.sig for e in es):
                kn.append(f)
            else:
                viol.append(f)
        return viol, kn

    def finish(self, replay=None, quiet=False):
        viol, kn = self.split_known()
        if replay is not None:
            want = (replay['property'], replay['rule'], replay['construct'], replay['key'])
            viol = [f for f in viol if f.ident() == want and replay.get('sig', f.sig) == f.sig]
            kn = []
        out = []
        os.makedirs(EVID_DIR, exist_ok=True)
        vdir = os.path.join(EVID_DIR, '%s.violations' % self.prop)
        if replay is None:
            if os.path.isdir(vdir):
                for fn in os.listdir(vdir):
                    os.unlink(os.path.join(vdir, fn))
        for f in kn:
            out.append('KNOWN-FINDING: property=%s %s %s [%s] %s (%s:%s)' % (
                self.prop, f.rule, f.construct, f.key, f.why, f.relpath, f.line))
        for i, f in enumerate(viol):
            path = os.path.join(vdir, '%d.json' % i)
            if replay is None:
                os.makedirs(vdir, exist_ok=True)
                d = f.as_dict()
                d['digests'] = self.repo.digests() if self.repo else {}
                with open(path, 'w') as fh:
                    json.dump(d, fh, indent=1, sort_keys=True)
            else:
                path = replay.get('_path', path)
            out.append('%s:%s rule=%s instance=%s [%s] : %s' % (
                f.relpath, f.line, f.rule, f.construct, f.key, f.why))
            out.append('VIOLATION property=%s replay=%s' % (self.prop, path))
        for n in self.notes:
            out.append('NOTE: property=%s %s' % (self.prop, n))
        wall = time.time() - self.t0
        if replay is None:
            self.write_evidence(viol, kn, wall)
        summary = ('%s %s: obligations=%d discharged=%d known=%d violations=%d '
                   'functions=%d wall=%.2fs' % (
                       self.prop, self.tier, self.obligations, self.discharged,
                       len(kn), len(viol), len(self.functions), wall))
        out.append(summary)
        if not quiet:
            print('\n'.join(out).replace('\x00', '~'))
        return 1 if viol else 0

    def write_evidence(self, viol, kn, wall):
        rules = {r: {'instances': v[0], 'hold': v[1]} for r, v in sorted(self.by_rule.items())}
        # a few samples, selection rotated by the seed
        samples = self.samples
        if len(samples) > 12:
            step = max(1, len(samples) // 12)
            off = self.seed % step if step > 1 else 0
            samples = samples[off::step][:12]
        cov = {
            'explanation': self.explanation,
            'obligations': self.obligations,
            'discharged': self.discharged,
            'rule_instances': rules,
            'known_findings': [f.as_dict() for f in kn],
            'violations': [f.as_dict() for f in viol],
            'undecided': self.undecided,
            'functions_analysed': sorted(self.functions),
            # what the abstract interpreter actually entered in this run, and what a rule names without interpreting it
            # (tables folded, syntax inspected): the second list is where a claim could go stale
            'functions_interpreted': sorted(_visited()),
            'functions_named_not_interpreted': sorted(q for q in self.functions
                                                      if q.split('.')[-1] not in {v.split('.')[-1] for v in _visited()}),
            'call_sites': self.call_sites,
            'tables': sorted(self.tables),
            'floors': self.floors,
            'canaries_fired': self.canaries,
            'notes': self.notes,
            'samples': samples or [{'note': 'no samples recorded'}],
            'digests': self.repo.digests() if self.repo else {},
            'evaluations': self.obligations,
            'distinct_nontrivial': len({(r) for r in self.by_rule}) and self.obligations,
            'rule': 'one evaluation = one rule instance (rule, construct) enumerated '
                    'from the current source tree and decided statically; all are '
                    'distinct by construction (keyed by rule+construct+key)',
            'exhaustive': True,
        }
        cov.update(self.extra)
        ev = {
            'property_id': self.prop,
            'tier': self.tier,
            'seed': int(self.seed),
            'level': 'other',
            'coverage': cov,
            'assumptions': self.assumptions,
            'wall_s': round(wall, 3),
            'violations': len(viol),
        }
        path = os.path.join(EVID_DIR, '%s.json' % self.prop)
        tmp = path + '.tmp'
        with open(tmp, 'w') as fh:
            json.dump(ev, fh, indent=1, sort_keys=True, default=str)
        os.replace(tmp, path)
