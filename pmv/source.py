"""Source index of the repository under analysis.

Parses every non-test module of ``pmutt/``; builds the module table, the
import-alias table, the class table with C3 linearisation, and resolves
methods through the MRO.  ``AnchorError`` is raised when something a rule is
anchored on cannot be found - the driver turns that into exit 2
(ANALYSIS-ERROR), never into a pass or a violation.
"""
import ast
import hashlib
import os
import warnings


class AnchorError(Exception):
    """An anchor (module/class/function/table) a rule relies on is missing."""


class Unsupported(Exception):
    """A construct left the fragment a rule accepts (exit 2, not a verdict)."""

    def __init__(self, msg, node=None, path=None):
        self.node = node
        self.path = path
        loc = ''
        if node is not None and hasattr(node, 'lineno'):
            loc = ' at %s:%s' % (path or '?', node.lineno)
        Exception.__init__(self, msg + loc)


class Module:
    def __init__(self, name, path, relpath, text):
        self.name = name
        self.path = path
        self.relpath = relpath
        self.text = text
        with warnings.catch_warnings():
            warnings.simplefilter('ignore')
            self.tree = ast.parse(text, filename=path)
        self.digest = hashlib.sha256(text.encode()).hexdigest()
        self._lines = None
        self.is_pkg = os.path.basename(path) == '__init__.py'
        self.aliases = {}     # local name -> ('module', modname) | ('object', modname, objname)
        self.star_imports = []   # modules named in 'from X import *'
        self.functions = {}   # name -> FunctionDef (module level, last def wins)
        self.classes = {}     # name -> ClassInfo
        self.assigns = {}     # module-level name -> list of value nodes (in order)
        self.updates = {}     # module-level name -> dict literals merged by NAME.update({...})
        for n in ast.walk(self.tree):
            for ch in ast.iter_child_nodes(n):
                ch._parent = n


def _segment(self, node):
    """source text of a single-line node (fast replacement for
    ast.get_source_segment, which re-splits the file on every call)"""
    if self._lines is None:
        self._lines = self.text.splitlines()
    try:
        if node.lineno != node.end_lineno:
            return ast.get_source_segment(self.text, node)
        line = self._lines[node.lineno - 1]
        if line.isascii():
            return line[node.col_offset:node.end_col_offset]
        return line.encode()[node.col_offset:node.end_col_offset].decode()
    except (AttributeError, IndexError):
        return None


Module.segment = _segment


class ClassInfo:
    def __init__(self, module, node):
        self.module = module
        self.node = node
        self.name = node.name
        self.qual = module.name + '.' + node.name
        self.methods = {}
        self.rebound = set()      # names bound in the class body to a value that is not a plain def
        self.class_attrs = {}
        self.ann_fields = []      # [(name, default node or None)] in source order (dataclass fields)
        self.decorators = [ast.unparse(d) for d in node.decorator_list]
        for st in node.body:
            if isinstance(st, (ast.FunctionDef, ast.AsyncFunctionDef)):
                # property setters share the name: keep getter under name,
                # setter under name + '.setter'
                deco = [ast.unparse(d) for d in st.decorator_list]
                if any(d.endswith('.setter') for d in deco):
                    self.methods[st.name + '.setter'] = st
                else:
                    self.methods[st.name] = st
                    self.rebound.discard(st.name)
            elif isinstance(st, ast.Assign):
                for t in st.targets:
                    if isinstance(t, ast.Name):
                        if isinstance(st.value, ast.Name) and st.value.id in self.methods:
                            # `get_CpoR = get_CvoR` in a class body: the same function under another name
                            self.methods[t.id] = self.methods[st.value.id]
                            self.class_attrs.pop(t.id, None)
                            self.rebound.discard(t.id)
                            continue
                        if t.id in self.methods:
                            # a method name bound to something else (a wrapped function, a lambda): what a call of
                            # it does is not the def above
                            self.rebound.add(t.id)
                            self.methods.pop(t.id, None)
                        self.class_attrs[t.id] = st.value
            elif isinstance(st, ast.AnnAssign) and isinstance(st.target, ast.Name):
                self.ann_fields.append((st.target.id, st.value))
                if st.value is not None:
                    self.class_attrs[st.target.id] = st.value
        self.bases = []       # resolved ClassInfo (unresolvable/external bases skipped)
        self.base_exprs = [ast.unparse(b) for b in node.bases]
        self.mro = None

    def __repr__(self):
        return '<Class %s>' % self.qual


class Repo:
    def __init__(self, root, package='pmutt', overrides=None):
        self.root = os.path.abspath(root)
        self.package = package
        self.overrides = overrides or {}
        self.modules = {}
        self.consulted = set()
        pkgdir = os.path.join(self.root, package)
        if not os.path.isdir(pkgdir):
            raise AnchorError('package directory %s not found' % pkgdir)
        for dirpath, dirnames, filenames in os.walk(pkgdir):
            dirnames[:] = sorted(d for d in dirnames
                                 if d not in ('tests', '__pycache__'))
            for fn in sorted(filenames):
                if not fn.endswith('.py'):
                    continue
                path = os.path.join(dirpath, fn)
                rel = os.path.relpath(path, self.root)
                parts = rel[:-3].split(os.sep)
                if parts[-1] == '__init__':
                    parts = parts[:-1]
                name = '.'.join(parts)
                if rel in self.overrides:
                    text = self.overrides[rel]
                else:
                    with open(path, encoding='utf-8') as fh:
                        text = fh.read()
                try:
                    self.modules[name] = Module(name, path, rel, text)
                except SyntaxError as e:
                    raise AnchorError('syntax error in %s: %s' % (rel, e))
        # files that exist only in the overrides (a change under analysis that adds a module)
        for rel, text in sorted(self.overrides.items()):
            if not rel.endswith('.py') or not rel.startswith(package + '/'):
                continue
            parts = rel[:-3].split('/')
            if 'tests' in parts:
                continue
            if parts[-1] == '__init__':
                parts = parts[:-1]
            name = '.'.join(parts)
            if name not in self.modules:
                try:
                    self.modules[name] = Module(name, os.path.join(self.root, rel), rel, text)
                except SyntaxError as e:
                    raise AnchorError('syntax error in %s: %s' % (rel, e))
        self._index()

    # ------------------------------------------------------------------
    def _index(self):
        self.patched = set()        # (class qualified name, attribute) assigned at module level: Class.method = ...
        for m in self.modules.values():
            m.rebound = set()       # module-level names bound more than once to different kinds of things
            def walk(body):
                for st in body:
                    self._index_stmt(m, st)
                    # names bound inside module-level if / try / with blocks are module-level names too
                    for attr in ('body', 'orelse', 'finalbody'):
                        if isinstance(st, (ast.If, ast.Try, ast.With)) and getattr(st, attr, None):
                            walk(getattr(st, attr))
                    if isinstance(st, ast.Try):
                        for h in st.handlers:
                            walk(h.body)
            walk(m.tree.body)
            # imports anywhere at module level incl. inside try/if
            for st in ast.walk(m.tree):
                if isinstance(st, (ast.Import, ast.ImportFrom)):
                    # only module-level (not inside functions)
                    p = getattr(st, '_parent', None)
                    infn = False
                    while p is not None:
                        if isinstance(p, (ast.FunctionDef, ast.ClassDef)):
                            infn = True
                            break
                        p = getattr(p, '_parent', None)
                    if not infn:
                        self._index_import(m, st)
        for m in self.modules.values():
            for ci in m.classes.values():
                for b in ci.node.bases:
                    r = self.resolve_expr(m, b)
                    if isinstance(r, ClassInfo):
                        ci.bases.append(r)
        for m in self.modules.values():
            for ci in m.classes.values():
                self._mro(ci)

    def _index_stmt(self, m, st):
        if isinstance(st, (ast.FunctionDef, ast.AsyncFunctionDef)):
            if st.name in m.classes or st.name in m.assigns or st.name in m.functions:
                m.rebound.add(st.name)
            m.functions[st.name] = st
        elif isinstance(st, ast.ClassDef):
            if st.name in m.functions or st.name in m.assigns or st.name in m.classes:
                m.rebound.add(st.name)
            m.classes[st.name] = ClassInfo(m, st)
        elif isinstance(st, ast.Assign):
            for t in st.targets:
                if isinstance(t, ast.Name):
                    if t.id in m.functions or t.id in m.classes:
                        m.rebound.add(t.id)         # a def or class replaced by a value (a wrapper, a subclass)
                    m.assigns.setdefault(t.id, []).append(st.value)
                elif isinstance(t, ast.Attribute) and isinstance(t.value, ast.Name) and t.value.id in m.classes:
                    self.patched.add((m.classes[t.value.id].qual, t.attr))
                elif isinstance(t, (ast.Tuple, ast.List)):
                    # a, b = x, y at module level: every name gets its own entry; from anything other than a display
                    # of the same length the names are bound to the positions of the value
                    names = [e for e in t.elts]
                    if all(isinstance(e, ast.Name) for e in names):
                        flat = isinstance(st.value, (ast.Tuple, ast.List)) and len(st.value.elts) == len(names) and \
                            not any(isinstance(e, ast.Starred) for e in st.value.elts)
                        for k_, e in enumerate(names):
                            if e.id in m.functions or e.id in m.classes:
                                m.rebound.add(e.id)
                            if flat:
                                node = st.value.elts[k_]
                            else:
                                node = ast.Subscript(value=st.value, slice=ast.Constant(value=k_), ctx=ast.Load())
                                ast.copy_location(node, st.value)
                                ast.copy_location(node.slice, st.value)
                                node.end_lineno, node.end_col_offset = st.value.end_lineno, st.value.end_col_offset
                            m.assigns.setdefault(e.id, []).append(node)
                    else:
                        for e in ast.walk(t):
                            if isinstance(e, ast.Name):
                                m.rebound.add(e.id)         # starred / nested targets: not followed
        elif isinstance(st, (ast.For, ast.AsyncFor, ast.With, ast.AugAssign, ast.Delete)):
            # names bound (or rebound) at module level by a loop, a with block, an augmented assignment or del: what
            # they hold is not followed - a read of such a name is refused, never answered from an earlier binding
            tg = [st.target] if isinstance(st, (ast.For, ast.AsyncFor, ast.AugAssign)) else \
                [i.optional_vars for i in st.items if i.optional_vars is not None] if isinstance(st, ast.With) else \
                list(st.targets)
            for t in tg:
                for e in ast.walk(t):
                    if isinstance(e, ast.Name) and isinstance(e.ctx, (ast.Store, ast.Del)):
                        m.rebound.add(e.id)
        elif isinstance(st, ast.Expr) and isinstance(st.value, ast.Call) \
                and isinstance(st.value.func, ast.Attribute) and st.value.func.attr == 'update' \
                and isinstance(st.value.func.value, ast.Name) and len(st.value.args) == 1 \
                and isinstance(st.value.args[0], ast.Dict):
            m.updates.setdefault(st.value.func.value.id, []).append(st.value.args[0])
        elif isinstance(st, ast.AnnAssign) and isinstance(st.target, ast.Name) \
                and st.value is not None:
            m.assigns.setdefault(st.target.id, []).append(st.value)

    def _index_import(self, m, st):
        if isinstance(st, ast.Import):
            for a in st.names:
                if a.asname:
                    m.aliases[a.asname] = ('module', a.name)
                else:
                    top = a.name.split('.')[0]
                    m.aliases[top] = ('module', top)
        else:
            base = st.module or ''
            if st.level:
                pkg = m.name.split('.')
                if not m.is_pkg:
                    pkg = pkg[:-1]
                if st.level > 1:
                    pkg = pkg[:-(st.level - 1)]
                base = '.'.join(pkg + ([st.module] if st.module else []))
            for a in st.names:
                if a.name == '*':
                    m.star_imports.append(base)      # resolved lazily in lookup()
                    continue
                local = a.asname or a.name
                full = base + '.' + a.name
                if full in self.modules:
                    m.aliases[local] = ('module', full)
                else:
                    m.aliases[local] = ('object', base, a.name)

    def _mro(self, ci, _stack=()):
        if ci.mro is not None:
            return ci.mro
        if ci in _stack:
            raise AnchorError('inheritance cycle at %s' % ci.qual)
        seqs = [list(self._mro(b, _stack + (ci,))) for b in ci.bases]
        seqs.append(list(ci.bases))
        res = [ci]
        while True:
            seqs = [s for s in seqs if s]
            if not seqs:
                break
            for s in seqs:
                cand = s[0]
                if not any(cand in t[1:] for t in seqs):
                    break
            else:
                raise AnchorError('no consistent MRO for %s' % ci.qual)
            res.append(cand)
            for s in seqs:
                if s and s[0] is cand:
                    del s[0]
        ci.mro = res
        return res

    # ------------------------------------------------------------------
    def module(self, name):
        try:
            m = self.modules[name]
        except KeyError:
            raise AnchorError('module %s not found' % name)
        self.consulted.add(m)
        return m

    def cls(self, qual):
        modname, _, cname = qual.rpartition('.')
        m = self.module(modname)
        try:
            return m.classes[cname]
        except KeyError:
            # re-exported?
            r = self.lookup(m, cname)
            if isinstance(r, ClassInfo):
                return r
            raise AnchorError('class %s not found' % qual)

    def func(self, qual):
        """module-level function 'pmutt.empirical.nasa.get_nasa_CpoR' or method
        'pmutt.statmech.vib.HarmonicVib.get_UoRT' (own definition only)."""
        modname, _, fname = qual.rpartition('.')
        if modname in self.modules:
            m = self.module(modname)
            if fname in m.functions:
                return m.functions[fname]
            raise AnchorError('function %s not found' % qual)
        ci = self.cls(modname)
        if fname in ci.methods:
            return ci.methods[fname]
        raise AnchorError('method %s not found' % qual)

    def lookup(self, m, name, _depth=0):
        """resolve a bare name in module m -> Module | ClassInfo |
        ('function', Module, FunctionDef) | ('value', Module, node) | None"""
        if _depth > 8:
            return None
        if name in getattr(m, 'rebound', ()):
            raise Unsupported('module-level name %s.%s is bound more than once (a def or class replaced by another '
                              'value)' % (m.name, name))
        if name in m.classes:
            self.consulted.add(m)
            return m.classes[name]
        if name in m.functions:
            self.consulted.add(m)
            return ('function', m, m.functions[name])
        if name in m.aliases:
            a = m.aliases[name]
            if a[0] == 'module':
                return self.modules.get(a[1])
            base = self.modules.get(a[1])
            if base is None:
                return None
            return self.lookup(base, a[2], _depth + 1)
        if name in m.assigns:
            self.consulted.add(m)
            return ('value', m, m.assigns[name][-1])
        for base in getattr(m, 'star_imports', ()):
            src = self.modules.get(base)
            if src is None or name.startswith('_'):
                continue
            # from base import *: public names, or those of __all__ when the module defines it
            allv = src.assigns.get('__all__')
            if allv:
                try:
                    import ast as _ast
                    if name not in _ast.literal_eval(allv[-1]):
                        continue
                except (ValueError, SyntaxError):
                    pass
            r = self.lookup(src, name, _depth + 1)
            if r is not None:
                return r
        return None

    def resolve_expr(self, m, node):
        """resolve Name / dotted Attribute to a repo entity (or None)."""
        if isinstance(node, ast.Name):
            return self.lookup(m, node.id)
        if isinstance(node, ast.Attribute):
            base = self.resolve_expr(m, node.value)
            if isinstance(base, Module):
                r = self.lookup(base, node.attr)
                if r is None and (base.name + '.' + node.attr) in self.modules:
                    return self.modules[base.name + '.' + node.attr]
                return r
            if isinstance(base, ClassInfo):
                got = self.find_method(base, node.attr, missing_ok=True)
                if got:
                    return ('method', got[0], got[1])
            return None
        return None

    def reached_tables(self, m, fn):
        """dict literals a function can consult, found by following the code rather than by name: literals
        assigned to a name inside the function or inside functions of the package it (transitively) calls, and
        module-level literals (of any module, also imported ones) whose name is read there.
        -> [(module, variable name, ast.Dict)] in discovery order"""
        out = []
        seen_fn = set()
        seen_node = set()

        def visit(mod, f):
            if id(f) in seen_fn:
                return
            seen_fn.add(id(f))
            for n in ast.walk(f):
                if isinstance(n, ast.Assign) and isinstance(n.value, ast.Dict) and len(n.targets) == 1 \
                        and isinstance(n.targets[0], ast.Name) and id(n.value) not in seen_node:
                    seen_node.add(id(n.value))
                    out.append((mod, n.targets[0].id, n.value))
                elif isinstance(n, ast.AnnAssign) and isinstance(n.value, ast.Dict) \
                        and isinstance(n.target, ast.Name) and id(n.value) not in seen_node:
                    seen_node.add(id(n.value))            # `table: Dict[str, float] = {...}`
                    out.append((mod, n.target.id, n.value))
            for n in ast.walk(f):
                if isinstance(n, (ast.Name, ast.Attribute)) and isinstance(getattr(n, 'ctx', None), ast.Load):
                    r = self.resolve_expr(mod, n)
                    if isinstance(r, tuple) and r[0] == 'function':
                        visit(r[1], r[2])
                    elif isinstance(r, tuple) and r[0] == 'value' and isinstance(r[2], ast.Dict) \
                            and id(r[2]) not in seen_node:
                        seen_node.add(id(r[2]))
                        nm = [k for k, v in r[1].assigns.items() if v and v[-1] is r[2]]
                        out.append((r[1], nm[0] if nm else ast.unparse(n), r[2]))
        visit(m, fn)
        return out

    def find_method(self, ci, name, missing_ok=False, after=None):
        """(owner ClassInfo, FunctionDef) of ``name`` through the MRO of ci.
        ``after``: start searching after this class in the MRO (super())."""
        mro = ci.mro
        if after is not None:
            mro = mro[mro.index(after) + 1:]
        for k in mro:
            if name in k.rebound or (k.qual, name) in self.patched:
                raise Unsupported('%s.%s is bound to something other than a def (class body or module level)'
                                  % (k.qual, name))
            if name in k.methods:
                self.consulted.add(k.module)
                return k, k.methods[name]
            if name in k.class_attrs:
                # the class body binds the name to a value: `get_x = _shared_get_x` (a function of the module, which
                # becomes a method like any def), a closure made by a factory, a constant. It hides a def of that
                # name further up the MRO.
                v = k.class_attrs[name]
                r_ = self.resolve_expr(k.module, v) if isinstance(v, (ast.Name, ast.Attribute)) else None
                if isinstance(r_, tuple) and r_[0] == 'function':
                    self.consulted.add(k.module)
                    self.consulted.add(r_[1])
                    r_[2]._home_module = r_[1]      # its globals are those of the module that defines it
                    return k, r_[2]
                later = mro[mro.index(k) + 1:]
                if any(name in k2.methods for k2 in later) and not isinstance(v, ast.Constant):
                    raise Unsupported('%s.%s is bound in the class body to %s, which hides the method of a base class'
                                      % (k.qual, name, ast.unparse(v)[:60]))
                break
        if missing_ok:
            return None
        raise AnchorError('method %s not found in MRO of %s' % (name, ci.qual))

    def all_classes(self):
        for m in self.modules.values():
            for ci in m.classes.values():
                yield ci

    def subclasses(self, ci, strict=False):
        return [k for k in self.all_classes()
                if ci in k.mro and not (strict and k is ci)]

    def digests(self, modules=None):
        mods = modules if modules is not None else self.consulted
        return {m.relpath: m.digest for m in sorted(mods, key=lambda x: x.relpath)}


# ----------------------------------------------------------------------
# small AST helpers shared by the rules

def params(fn):
    """ordered positional/keyword parameter names (without self/cls),
    defaults map (name -> node), vararg name, kwarg name"""
    a = fn.args
    names = [x.arg for x in a.posonlyargs + a.args]
    defaults = {}
    pos = a.posonlyargs + a.args
    for x, d in zip(pos[len(pos) - len(a.defaults):], a.defaults):
        defaults[x.arg] = d
    for x, d in zip(a.kwonlyargs, a.kw_defaults):
        names.append(x.arg)
        if d is not None:
            defaults[x.arg] = d
    if names and names[0] in ('self', 'cls'):
        names = names[1:]
    return names, defaults, (a.vararg.arg if a.vararg else None), \
        (a.kwarg.arg if a.kwarg else None)


def body_wo_doc(fn):
    body = list(fn.body)
    if body and isinstance(body[0], ast.Expr) and isinstance(body[0].value, ast.Constant) \
            and isinstance(body[0].value.value, str):
        body = body[1:]
    return body


def docstring(node):
    try:
        return ast.get_docstring(node) or ''
    except TypeError:
        return ''


def calls_in(node):
    return [n for n in ast.walk(node) if isinstance(n, ast.Call)]


def norm(node):
    """normalised statement/expression text (position independent key)."""
    if isinstance(node, str):
        return ' '.join(node.split())
    return ' '.join(ast.unparse(node).split())


def const_str(node):
    if isinstance(node, ast.Constant) and isinstance(node.value, str):
        return node.value
    return None


def walk_no_nested(node):
    """walk statements/expressions of a function without entering nested
    function/class definitions (lambdas are entered)."""
    todo = list(ast.iter_child_nodes(node))
    while todo:
        n = todo.pop(0)
        yield n
        if isinstance(n, (ast.FunctionDef, ast.AsyncFunctionDef, ast.ClassDef)):
            continue
        todo[0:0] = list(ast.iter_child_nodes(n))
