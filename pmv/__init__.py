"""pmv - static (ast-only) verification machinery for pMuTT.

Nothing in this package imports or executes pmutt. Every rule reads the
working tree of the repository under analysis with ``ast`` and decides rule
instances from the syntax tree, class table, and literal tables.
"""
