"""C20 - equations of state invert consistently."""
import re
from fractions import Fraction as Fr

from ..nf import Rat, C
from ..source import Unsupported, AnchorError
from ..xlate import Interp, Obj, ListV, Elem, Raised
from .common import same, show, proportional

EOS = 'pmutt.eos'


def check(run, repo):
    run.explanation = (
        'The four ideal-gas getters and the van der Waals getters of pmutt/eos are interpreted into exact rational '
        'normal forms over T, P, V, n, a, b and the unit atoms. Decided as identities for all states: the ideal-gas '
        'getters are the four solutions of PV=nRT (all 12 solve-and-substitute round trips); for van der Waals '
        'get_T(get_P(T))=T and get_P(get_T(P))=P, the cubic handed to np.roots equals Vm^2[(P+a/Vm^2)(Vm-b)-RT] '
        'coefficient for coefficient, so any root satisfies get_P; gas/liquid root is the max/min real root; '
        'V = n*Vm and n = V/Vm with Vm free of n; from_critical followed by get_Tc/get_Pc returns the inputs, '
        'Vc=3nb; with a=b=0 the van der Waals forms reduce to the ideal-gas ones.')
    run.assumptions = ['np.roots returns the roots of the polynomial whose coefficients it is given (NumPy contract)',
                       'unit model of pmutt.constants as verified by C12']
    run.undecided = ['root-finding numerics (conditioning of the cubic)', 'the low-density limit as a limit '
                     '(only the a=b=0 reduction is decided)']
    body(run, repo, False)
    # the same obligations with the state given as Python ints (T=500, n=2): dispatch on the type of an argument must
    # not change the result
    body(_Suffixed(run, ' [integer arguments]'), repo, True)


class _Suffixed:
    """the run, with a suffix on every instance key (a second pass over the same obligations)"""

    def __init__(self, run, suffix):
        self._run, self._suffix = run, suffix

    def __getattr__(self, name):
        return getattr(self._run, name)

    def check(self, cond, rule, construct, key, why, *a, **k):
        return self._run.check(cond, rule, construct, key + self._suffix, why, *a, **k)

    def fail(self, rule, construct, key, why, *a, **k):
        return self._run.fail(rule, construct, key + self._suffix, why, *a, **k)


def body(run, repo, ints):
    I = Interp(repo)
    I.track_print_precision = True      # a number that is printed and parsed again is a rounded number
    if ints:
        I.int_syms.update('TPVn')
    D = I.D
    T, P, V, n = (D.sym(k) for k in 'TPVn')
    ig = Obj('ig', repo.cls(EOS + '.IdealGasEOS'))
    ci = ig.ci
    for q in ('get_V', 'get_P', 'get_T', 'get_n'):
        run.fn('%s.IdealGasEOS.%s' % (EOS, q))
    state = {'T': T, 'P': P, 'V': V, 'n': n}
    argn = {'get_V': ('T', 'P', 'n'), 'get_P': ('T', 'V', 'n'), 'get_T': ('V', 'P', 'n'), 'get_n': ('V', 'P', 'T')}
    out_of = {'get_V': 'V', 'get_P': 'P', 'get_T': 'T', 'get_n': 'n'}

    def call(obj, m, st):
        return I.call_method(obj, m, [], {k: st[k] for k in argn[m]})

    cnt = 0
    for solve in argn:
        x = out_of[solve]
        val = call(ig, solve, state)
        st2 = dict(state)
        st2[x] = val
        for back in argn:
            if back == solve:
                continue
            y = out_of[back]
            got = call(ig, back, st2)
            owner, fn = repo.find_method(ci, back)
            run.check(same(got, state[y]), 'ALG.roundtrip', 'IdealGasEOS.' + back, '%s after %s' % (back, solve),
                      'substituting %s from %s into %s gives %s, not %s' % (x, solve, back, show(got), y),
                      owner.module, fn, sample='%s(%s=%s(...)) == %s' % (back, x, solve, y))
            cnt += 1
    # PV = nRT with R in m3 bar/mol/K
    Vv = call(ig, 'get_V', state)
    Rmb = D.sym('kb') * D.sym('Na') * D.sym('U<bar>')
    owner, fn = repo.find_method(ci, 'get_V')
    run.check(same(Vv, n * Rmb * T / P), 'REF.idealgas', 'IdealGasEOS.get_V', 'PV=nRT',
              'V is not nRT/P with R in m3 bar/mol/K: %s' % show(Vv), owner.module, fn)
    run.floor('ideal gas round trips', cnt, 12)

    # ---- van der Waals ---------------------------------------------------
    vci = repo.cls(EOS + '.vanDerWaalsEOS')
    vw = Obj('vdw', vci)
    a, b = D.sym('vdw.a'), D.sym('vdw.b')
    vw.attrs['a'], vw.attrs['b'] = a, b
    for q in ('get_Vm', 'get_V', 'get_P', 'get_T', 'get_n', 'get_Pc', 'get_Tc', 'get_Vc', 'from_critical'):
        run.fn('%s.vanDerWaalsEOS.%s' % (EOS, q))
    # closed-form inverses
    Pv = I.call_method(vw, 'get_P', [], {'T': T, 'V': V, 'n': n})
    Tv = I.call_method(vw, 'get_T', [], {'V': V, 'P': P, 'n': n})
    owner, fn = repo.find_method(vci, 'get_T')
    got = I.call_method(vw, 'get_T', [], {'V': V, 'P': Pv, 'n': n})
    run.check(same(got, T), 'ALG.roundtrip', 'vanDerWaalsEOS.get_T', 'get_T after get_P',
              'get_T(P=get_P(T)) = %s, not T' % show(got), owner.module, fn,
              sample='vdW: get_T(V, get_P(T,V,n), n) == T')
    owner, fn = repo.find_method(vci, 'get_P')
    got = I.call_method(vw, 'get_P', [], {'T': Tv, 'V': V, 'n': n})
    run.check(same(got, P), 'ALG.roundtrip', 'vanDerWaalsEOS.get_P', 'get_P after get_T',
              'get_P(T=get_T(P)) = %s, not P' % show(got), owner.module, fn)
    # textbook: (P + a/Vm^2)(Vm - b) = RT, P in bar <-> Pa
    RJ = D.sym('kb') * D.sym('Na')
    toPa = C(1) / D.sym('U<bar>')
    Vm_ = V / n
    want_P = (RJ * T / (Vm_ - b) - a / (Vm_ * Vm_)) / toPa
    run.check(same(Pv, want_P), 'REF.vdw', 'vanDerWaalsEOS.get_P', 'textbook',
              'P is not RT/(Vm-b) - a/Vm^2 (in bar): %s' % show(Pv), owner.module, fn)
    # cubic
    owner, fn = repo.find_method(vci, 'get_Vm')
    for gas in (True, False):
        r = I.call_method(vw, 'get_Vm', [], {'T': T, 'P': P, 'gas_phase': gas})
        want_kind = 'MAX' if gas else 'MIN'
        ok = isinstance(r, Rat) and len(r.atoms()) == 1 and re.fullmatch(want_kind + r'\{REAL\{ROOT#\d+\}\}', list(r.atoms())[0]) is not None \
            and r.eq(Rat.atom(list(r.atoms())[0]))
        run.check(ok, 'ORDER.root', 'vanDerWaalsEOS.get_Vm', 'gas_phase=%s' % gas,
                  'the %s phase must use the %s real root of the cubic, got %s'
                  % ('gas' if gas else 'liquid', 'largest' if gas else 'smallest', show(r)), owner.module, fn)
        if not ok:
            continue
        atom = list(r.atoms())[0]
        co = I.roots[atom]
        run.check(len(co) == 4, 'REF.cubic', 'vanDerWaalsEOS.get_Vm', 'degree gas=%s' % gas,
                  'polynomial handed to np.roots has %d coefficients, a cubic has 4' % len(co), owner.module, fn)
        if len(co) != 4:
            continue
        Vm = D.sym('Vm')
        poly = co[0] * Vm * Vm * Vm + co[1] * Vm * Vm + co[2] * Vm + co[3]
        P_SI = P * toPa
        want = Vm * Vm * ((P_SI + a / (Vm * Vm)) * (Vm - b) - RJ * T)
        # equal up to a non-zero constant factor (np.roots is scale invariant)
        kprop = proportional(poly, want)
        okc = kprop is not None
        run.check(okc, 'REF.cubic', 'vanDerWaalsEOS.get_Vm', 'coefficients gas=%s' % gas,
                  'cubic is %s but Vm^2[(P+a/Vm^2)(Vm-b)-RT] = %s' % (show(poly), show(want)), owner.module, fn,
                  sample={'cubic_from_source': show(poly, 300), 'reference': show(want, 300)})
        # a root satisfies get_P: (get_P(T, Vm*n, n) - P) * Vm^2 (Vm-b) * toPa == -cubic
        Pr = I.call_method(vw, 'get_P', [], {'T': T, 'V': Vm * n, 'n': n})
        resid = (Pr - P) * toPa * Vm * Vm * (Vm - b) + want
        run.check(same(resid, C(0)), 'ALG.root-satisfies-P', 'vanDerWaalsEOS.get_Vm', 'get_P at root gas=%s' % gas,
                  'get_P evaluated at a root of the cubic does not return P (residual %s)' % show(resid),
                  owner.module, fn)
        # V = n*Vm ; n = V/Vm ; Vm free of n
        Vg = I.call_method(vw, 'get_V', [], {'T': T, 'P': P, 'n': n, 'gas_phase': gas})
        at2 = [x for x in Vg.atoms() if re.fullmatch(want_kind + r'\{REAL\{ROOT#\d+\}\}', x)] if isinstance(Vg, Rat) else []
        o2, f2 = repo.find_method(vci, 'get_V')
        ok2 = len(at2) == 1 and Vg.eq(Rat.atom(at2[0]) * n) and \
            all('n' not in c_.atoms() for c_ in I.roots[at2[0]]) and \
            all(x.eq(y) for x, y in zip(I.roots[at2[0]], co))
        run.check(ok2, 'REF.V=n*Vm', 'vanDerWaalsEOS.get_V', 'gas=%s' % gas,
                  'V is not n times the molar volume root (which must not depend on n): %s' % show(Vg), o2.module, f2)
        ng = I.call_method(vw, 'get_n', [], {'V': V, 'P': P, 'T': T, 'gas_phase': gas})
        at3 = [x for x in ng.atoms() if re.fullmatch(want_kind + r'\{REAL\{ROOT#\d+\}\}', x)] if isinstance(ng, Rat) else []
        o3, f3 = repo.find_method(vci, 'get_n')
        ok3 = len(at3) == 1 and ng.eq(V / Rat.atom(at3[0])) and all(x.eq(y) for x, y in zip(I.roots[at3[0]], co))
        run.check(ok3, 'REF.n=V/Vm', 'vanDerWaalsEOS.get_n', 'gas=%s' % gas,
                  'n is not V divided by the molar volume root: %s' % show(ng), o3.module, f3)
    # critical constants
    Tc, Pc = D.sym('Tc'), D.sym('Pc')
    owner, fn = repo.find_method(vci, 'from_critical')
    o = I.call_method(vw, 'from_critical', [], {'Tc': Tc, 'Pc': Pc})
    if not isinstance(o, Obj):
        run.fail('REF.critical', 'vanDerWaalsEOS.from_critical', 'constructs', 'from_critical does not build an '
                 'equation of state (%s)' % show(o), owner.module, fn)
    else:
        gTc = I.call_method(o, 'get_Tc', [], {})
        gPc = I.call_method(o, 'get_Pc', [], {})
        run.check(same(gTc, Tc), 'ALG.roundtrip', 'vanDerWaalsEOS.get_Tc', 'Tc after from_critical',
                  'from_critical(Tc, Pc).get_Tc() = %s, not Tc' % show(gTc), owner.module, fn,
                  sample='from_critical(Tc,Pc).get_Tc() == Tc')
        run.check(same(gPc, Pc), 'ALG.roundtrip', 'vanDerWaalsEOS.get_Pc', 'Pc after from_critical',
                  'from_critical(Tc, Pc).get_Pc() = %s, not Pc' % show(gPc), owner.module, fn)
    Vc = I.call_method(vw, 'get_Vc', [], {'n': n})
    o4, f4 = repo.find_method(vci, 'get_Vc')
    run.check(same(Vc, 3 * n * b), 'REF.critical', 'vanDerWaalsEOS.get_Vc', 'Vc=3nb', 'Vc is %s, not 3nb' % show(Vc),
              o4.module, f4)
    # textbook critical constants
    run.check(same(I.call_method(vw, 'get_Tc', [], {}), 8 * a / (27 * b * RJ)), 'REF.critical',
              'vanDerWaalsEOS.get_Tc', 'Tc=8a/27bR', 'Tc is not 8a/(27 b R)', *repo_loc(repo, vci, 'get_Tc'))
    run.check(same(I.call_method(vw, 'get_Pc', [], {}), a / (27 * b * b) / toPa), 'REF.critical',
              'vanDerWaalsEOS.get_Pc', 'Pc=a/27b^2', 'Pc is not a/(27 b^2) in bar', *repo_loc(repo, vci, 'get_Pc'))
    # a = b = 0 reduces to the ideal gas
    z = Obj('vdw0', vci, attrs={'a': C(0), 'b': C(0)})
    for m in ('get_P', 'get_T'):
        st = {'T': T, 'P': P, 'V': V, 'n': n}
        got = I.call_method(z, m, [], {k: st[k] for k in argn[m]})
        want = call(ig, m, st)
        o5, f5 = repo.find_method(vci, m)
        run.check(same(got, want), 'REF.ideal-limit', 'vanDerWaalsEOS.' + m, 'a=b=0',
                  'with a=b=0 %s gives %s but the ideal gas gives %s' % (m, show(got), show(want)), o5.module, f5)


def repo_loc(repo, ci, m):
    owner, fn = repo.find_method(ci, m)
    return owner.module, fn


E = 'pmutt/eos/__init__.py'
MUTANTS = [
    {'name': 'vdW cubic: wrong sign on a*b', 'expect': ('', 'get_Vm'),
     'edits': [(E, '-self.a * self.b', 'self.a * self.b')]},
    {'name': 'liquid root uses max', 'expect': ('ORDER.root', 'get_Vm'),
     'edits': [(E, 'return np.min(real_Vm)', 'return np.max(real_Vm)')]},
    {'name': 'ideal get_T drops n', 'expect': ('ALG.roundtrip', 'IdealGasEOS'),
     'edits': [(E, "return P * V / c.R('m3 bar/mol/K') / n", "return P * V / c.R('m3 bar/mol/K')")]},
    {'name': 'from_critical b uses /4', 'expect': ('', 'vanDerWaalsEOS'),
     'edits': [(E, "b = c.R('J/mol/K') * Tc / 8. / Pc_SI", "b = c.R('J/mol/K') * Tc / 4. / Pc_SI")]},
    {'name': 'vdW get_T forgets unit conversion', 'expect': ('', 'vanDerWaalsEOS.get_'),
     'edits': [(E, "return (P * c.convert_unit(initial='bar', final='Pa') + self.a / Vm**2)", "return (P + self.a / Vm**2)")]},
    {'name': 'Vc = 3b (n dropped)', 'expect': ('REF.critical', 'get_Vc'),
     'edits': [(E, 'return 3. * n * self.b', 'return 3. * self.b')]},
]
EQUIV = [
    {'name': 'ideal get_P rearranged', 'edits': [(E, "return n * c.R('m3 bar/mol/K') * T / V", "return T / V * c.R('m3 bar/mol/K') * n")]},
]
