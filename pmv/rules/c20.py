"""C20 - equations of state invert consistently."""
import ast
import re
from fractions import Fraction as Fr

from ..nf import Rat, Poly, C
from ..source import Unsupported
from ..xlate import Interp, Frame, Obj, Raised, _RaisedExc
from .common import same as same_form, show
from .rxnfix import get_public

EOS = 'pmutt.eos'

# ---------------------------------------------------------------------------------------------------------------------
# The quantifier of the property (properties.jsonl), written down once: the box of states and of van der Waals
# parameters.  Two oracles for comparisons in the analysed code are derived from it:
#   _Box    decides a comparison only when it has the same outcome for EVERY point of the (closed) box (interval
#           arithmetic over strictly positive quantities) - used by the symbolic passes, anything else stays exit 2;
#   _Point  decides every comparison at ONE point of the box (a corner, or a CO2-like interior point): a guard that
#           cuts into the box (assert b < 1e-4, "no liquid volume when the cubic has one real root") raises there.
# The numbers below place witnesses; they are not compared with anything the code computes.
KB, NA, UBAR = Fr('1.380649e-23'), Fr('6.02214076e23'), Fr(1, 100000)       # J/K, 1/mol, bar per Pa
RGAS = KB * NA
RANGE = {'T': (Fr(50), Fr(3000)), 'P': (Fr(1, 1000), Fr(1000)), 'n': (Fr(1, 1000), Fr(1000)),
         'a': (Fr(3, 1000), Fr(3)), 'b': (Fr(1, 100000), Fr(2, 10000)), 'Tc': (Fr(5), Fr(1000)),
         'Pc': (Fr(1), Fr(300))}
# volumes of the states of the box: n*b < V <= n*(b + R*T/P) (a >= 0), i.e. between 1e-8 and 2.5e5 m3
V_RANGE = (Fr(1, 10 ** 9), Fr(10 ** 6))
LEN_REAL = re.compile(r'len<REAL\{ROOT#\d+\}>')      # number of real roots of a cubic: 1 or 3
LEN_ROOT = re.compile(r'len<ROOT#\d+>')             # number of roots of a cubic


# Spellings.  The unit model keeps a unit factor as an atom (U<bar>) and the gas constant as kb*Na, so `P * 1.e5`,
# `c.R('kJ/mol/K') * 1000.` or the literal 8.3144598 have another normal form than what the package writes today although
# the tables of pmutt.constants give them the very same value.  Two results are therefore the same when their normal
# forms agree OR when they agree after the atoms of the unit model are given the values written in the tables (exact
# Fractions of the digits; kb stands for R/Na, the unit model's reading of c.R).  Nothing is loosened: both are exact
# identities in the state variables.
_TABLE = {}         # atom of the unit model -> value from the literal tables, for the run in progress


def _use_tables(values):
    _TABLE.clear()
    _TABLE.update({k: v for k, v in values.items() if k.startswith('U<')})
    if values.get('Na') and values.get('R[J/mol/K]'):
        _TABLE['Na'] = values['Na']
        _TABLE['kb'] = values['R[J/mol/K]'] / values['Na']


def in_numbers(r):
    """the normal form r with the atoms of the unit model replaced by their table values (None: not possible)"""
    def poly(p):
        tot = C(0)
        for k, c in p.t.items():
            term = C(c)
            for a_, e in k:
                if a_ in _TABLE:
                    if Fr(e).denominator != 1:
                        return None
                    term = term * C(_TABLE[a_] ** int(e))
                else:
                    term = term * Rat.atom(a_, e)
            tot = tot + term
        return tot
    out = poly(r.n)
    for p_, e in r.f.values():
        d = poly(p_)
        if out is None or d is None or d.iszero():
            return None
        for _ in range(e):
            out = out / d
    return out


def same(a, b):
    if same_form(a, b):
        return True
    if _TABLE and isinstance(a, Rat) and isinstance(b, Rat):
        na, nb = in_numbers(a), in_numbers(b)
        return na is not None and nb is not None and na.eq(nb)
    return False


def is_zero(r):
    if r.iszero():
        return True
    nr = in_numbers(r) if _TABLE else None
    return nr is not None and nr.iszero()


def _names(k):
    """atom names of the k-th state / object ('' for the first, '2' for the second)"""
    return {'T': 'T' + k, 'P': 'P' + k, 'V': 'V' + k, 'n': 'n' + k, 'a': 'vdw%s.a' % k, 'b': 'vdw%s.b' % k}


class _Box:
    """ordering oracle: true/false when the comparison comes out the same for all points of the box, else None"""

    def __init__(self, ints=False):
        # critical points: the rectangle Tc 5-1000 K x Pc 1-300 bar of the quantifier, which has ranges of its own:
        # a gas built from a critical point has a = 27 (R Tc)^2 / 64 Pc in [2.4e-5, 292] and b = R Tc / 8 Pc in
        # [1.7e-7, 1.04e-2], far outside the (a, b) box of the states
        self.iv = {'kb': (KB, KB), 'Na': (NA, NA), 'U<bar>': (UBAR, UBAR)}
        for k in ('', '2'):
            self.iv['Tc' + k], self.iv['Pc' + k] = RANGE['Tc'], RANGE['Pc']
        for k in ('', '2'):
            nm = _names(k)
            for q in ('T', 'P', 'n', 'a', 'b'):
                lo, hi = RANGE[q]
                if ints and q in 'TPn':
                    lo = max(lo, Fr(1))         # whole numbers of the range
                self.iv[nm[q]] = (lo, hi)
            self.iv[nm['V']] = (max(V_RANGE[0], Fr(1)), V_RANGE[1]) if ints else V_RANGE
        self.iv['Vm'] = (RANGE['b'][0], Fr(1000))       # "a root of the cubic": a molar volume, b < Vm <= b + RT/P
        self.iv['rho'] = (Fr(1, 10 ** 12), 1 / RANGE['b'][0])    # a density n/V on its way to zero
        self.facts = []

    def fact(self, r, lo, hi):
        """a value the property itself places in a range: the pressure / temperature of a state of the box that a
        getter returned and that is substituted back"""
        if isinstance(r, Rat):
            self.facts.append((r, lo, hi))

    def interval(self, r):
        for f, lo, hi in self.facts:
            if r.eq(f):
                return lo, hi
        return None if r.f else self.poly(r.n)

    def atom(self, a):
        got = self.iv.get(a)
        if got is None and LEN_REAL.fullmatch(a):
            return Fr(1), Fr(3)
        if got is None and LEN_ROOT.fullmatch(a):
            return Fr(3), Fr(3)
        return got

    def poly(self, p):
        lo = hi = Fr(0)
        for k, c in p.t.items():
            mlo = mhi = Fr(1)
            for a, e in k:
                iv = self.atom(a)
                if iv is None or Fr(e).denominator != 1:
                    return None
                e = int(e)
                l_, h_ = (iv[0] ** e, iv[1] ** e) if e >= 0 else (iv[1] ** e, iv[0] ** e)
                mlo, mhi = mlo * l_, mhi * h_
            if c >= 0:
                lo, hi = lo + c * mlo, hi + c * mhi
            else:
                lo, hi = lo + c * mhi, hi + c * mlo
        return lo, hi

    @staticmethod
    def _sgn(iv):
        if iv is None:
            return None
        if iv[0] > 0:
            return 1
        if iv[1] < 0:
            return -1
        if iv[0] == 0 and iv[1] == 0:
            return 0
        return None

    def sign(self, r):
        """+1 / -1 / 0 when r has that sign on the whole box, else None"""
        s = self._sgn(self.poly(r.n))
        if s is None:
            return None
        for p, e in r.f.values():
            ps = self._sgn(self.poly(p))
            if ps is None or ps == 0:
                return None
            if e % 2:
                s *= ps
        return s

    def differences(self, a, b):
        """enclosures (lo, hi, strict) of a - b on the (closed) box, the sharpest first; an end is None when it is not
        known, strict says that a known end 0 is not attained"""
        d = a - b
        if not d.f:
            iv = self.poly(d.n)             # one polynomial: cancellations between a and b are seen
            if iv is not None:
                yield iv[0], iv[1], False
        s = self.sign(d)
        if s is not None:
            yield (Fr(0), Fr(0), False) if s == 0 else ((Fr(0), None, True) if s > 0 else (None, Fr(0), True))
        ia, ib = self.interval(a), self.interval(b)
        if ia is not None and ib is not None:
            yield ia[0] - ib[1], ia[1] - ib[0], False

    def __call__(self, a, op, b):
        """the comparison when it comes out the same at every point of the box - the box is closed, so `len >= 1` for
        a length in [1, 3] and `T >= 50` are decided; `T > 50` is not (it fails at the end point)"""
        def decide(true, false):
            return True if true else (False if false else None)
        for lo, hi, strict in self.differences(a, b):
            pos = lo is not None and (lo > 0 or strict)
            neg = hi is not None and (hi < 0 or strict)
            nonneg = lo is not None and lo >= 0
            nonpos = hi is not None and hi <= 0
            zero = nonneg and nonpos and not strict
            got = {'<': decide(neg, nonneg), '<=': decide(nonpos, pos), '>': decide(pos, nonpos),
                   '>=': decide(nonneg, neg), '==': decide(zero, pos or neg), '!=': decide(pos or neg, zero)}[op]
            if got is not None:
                return got
        return None


class _Point:
    """ordering oracle: the comparison evaluated at one point of the box (exact arithmetic)"""

    def __init__(self, T, P, n, a, b, Tc, Pc, label=None):
        T, P, n, a, b, Tc, Pc = (Fr(str(x)) for x in (T, P, n, a, b, Tc, Pc))
        P_SI = P / UBAR
        V = n * (b + RGAS * T / P_SI)             # a volume the gas can have: above n*b, pressure positive
        self.val = {'kb': KB, 'Na': NA, 'U<bar>': UBAR, 'Tc': Tc, 'Pc': Pc}
        nm = _names('')
        self.val.update({nm['T']: T, nm['P']: P, nm['n']: n, nm['V']: V, nm['a']: a, nm['b']: b, 'Vm': V / n,
                         'rho': n / V})
        # number of real roots of the textbook cubic at this point (sign of the discriminant)
        c3, c2, c1, c0 = P_SI, -(P_SI * b + RGAS * T), a, -a * b
        disc = 18 * c3 * c2 * c1 * c0 - 4 * c2 ** 3 * c0 + c2 ** 2 * c1 ** 2 - 4 * c3 * c1 ** 3 - 27 * c3 ** 2 * c0 ** 2
        self.nreal = 3 if disc > 0 else 1
        self.more = None
        self.label = label or 'T=%g P=%g n=%g a=%g b=%g Tc=%g Pc=%g' % tuple(
            float(x) for x in (T, P, n, a, b, Tc, Pc))

    def atom(self, a):
        got = self.val.get(a)
        if got is None and LEN_REAL.fullmatch(a):
            return Fr(self.nreal)
        if got is None and LEN_ROOT.fullmatch(a):
            return Fr(3)
        if got is None and self.more is not None:
            return self.more(a)
        return got

    def with_tables(self, values):
        """this point with the physical constants and unit factors at the values written in the literal tables of
        pmutt.constants (atom name -> Fraction)"""
        import copy
        q = copy.copy(self)
        q.val = {k: v for k, v in self.val.items() if k not in ('kb', 'Na', 'U<bar>')}
        q.more = values.get
        return q

    def poly(self, p):
        tot = Fr(0)
        for k, c in p.t.items():
            term = Fr(c)
            for a, e in k:
                v = self.atom(a)
                if v is None or Fr(e).denominator != 1:
                    return None
                term *= v ** int(e)
            tot += term
        return tot

    def value(self, r):
        v = self.poly(r.n)
        if v is None:
            return None
        for p, e in r.f.values():
            d = self.poly(p)
            if d is None or d == 0:
                return None
            v /= d ** e
        return v

    def __call__(self, a, op, b):
        va, vb = self.value(a), self.value(b)
        if va is None or vb is None:
            return None
        return {'<': va < vb, '<=': va <= vb, '>': va > vb, '>=': va >= vb, '==': va == vb, '!=': va != vb}[op]


def witnesses(tier):
    """points of the box at which the passes with decided comparisons run: every quantity at its lower and at its
    upper end at least once, sub- and supercritical, one and three real roots; thorough: all corners of (T,P,n,a,b)"""
    lo = {k: v[0] for k, v in RANGE.items()}
    hi = {k: v[1] for k, v in RANGE.items()}
    pts = [
        # CO2 inside the van der Waals loop (three real roots), critical point of CO2
        _Point(250, 30, 2, '0.364', '4.27e-5', '304.13', '73.77'),
        # CO2 below Tc as a compressed liquid (one real root, which is the liquid) / critical point of water
        _Point(250, 200, 2, '0.364', '4.27e-5', '647.1', '220.64'),
        # cold, dilute, strongly attracting, small molecules / helium-like critical point
        _Point(lo['T'], lo['P'], lo['n'], hi['a'], lo['b'], lo['Tc'], lo['Pc']),
        # hot, dense, weakly attracting, large molecules / the upper corner of the critical points
        _Point(hi['T'], hi['P'], hi['n'], lo['a'], hi['b'], hi['Tc'], hi['Pc']),
        # cold and dense with the largest co-volume / the corner (1000 K, 1 bar): a = 292, b = 1.04e-2
        _Point(lo['T'], hi['P'], hi['n'], lo['a'], hi['b'], hi['Tc'], lo['Pc']),
        # hot and dilute, a and b at their upper ends / the corner (5 K, 300 bar): a = 2.4e-5, b = 1.7e-7
        _Point(hi['T'], lo['P'], lo['n'], hi['a'], hi['b'], lo['Tc'], hi['Pc']),
        # CO2 far below Tc at the lowest pressure (three real roots; the liquid-root pressure is a small difference of
        # two large terms) / n-hexadecane-like critical point (a = 10.9, b = 5.4e-4)
        _Point(100, lo['P'], 1, '0.364', '4.27e-5', '722', '14'),
        # N2 far below Tc at the lowest pressure / n-hexane-like critical point (b = 1.74e-4)
        _Point(100, lo['P'], 1, '0.137', '3.87e-5', '507.6', '30.25'),
    ]
    if tier == 'thorough':
        seen = {tuple(sorted(p.val.items())) for p in pts}
        crit = [(lo['Tc'], lo['Pc']), (hi['Tc'], hi['Pc']), (hi['Tc'], lo['Pc']), (lo['Tc'], hi['Pc']),
                ('507.6', '30.25'), ('562.05', '48.95'), ('768', '10.7')]
        i = 0
        for T in (lo['T'], hi['T']):
            for P in (lo['P'], hi['P']):
                for n in (lo['n'], hi['n']):
                    for a in (lo['a'], hi['a']):
                        for b in (lo['b'], hi['b']):
                            p = _Point(T, P, n, a, b, *crit[i % len(crit)])
                            i += 1
                            if tuple(sorted(p.val.items())) not in seen:
                                seen.add(tuple(sorted(p.val.items())))
                                pts.append(p)
    return pts


def check(run, repo):
    run.explanation = (
        'The four ideal-gas getters and the van der Waals getters of pmutt/eos are interpreted into exact rational '
        'normal forms over T, P, V, n, a, b and the unit atoms; objects are built by the public constructors. '
        'Decided as identities for all states: the ideal-gas getters are the four solutions of PV=nRT (all 12 '
        'solve-and-substitute round trips); for van der Waals get_T(get_P(T))=T and get_P(get_T(P))=P, the cubic '
        'handed to np.roots is Vm^2[(P+a/Vm^2)(Vm-b)-RT] times a factor that is never zero, so any root satisfies '
        'get_P; gas/liquid root is the max/min real root, for the flag given as True/False and as a true/false value '
        'that is not the singleton; V = n*Vm and n = V/Vm with Vm free of n; from_critical followed by '
        'get_Tc/get_Pc/get_Vc returns the inputs and 3nb, and get_P(Tc, Vc) = Pc, for Tc and Pc with the ranges of '
        'their own (5-1000 K, 1-300 bar); P_vdW/P_ideal and T_vdW/T_ideal tend to 1 as n/V -> 0. '
        'History: every getter is asked in nine rounds between which one thing changes at a time - P, T, n, V, then '
        'the public attributes a and b are re-assigned, then a second object, then the first object at its first '
        'state again; from_critical with another Pc, another Tc and the first point again (nothing is remembered). '
        'Numbers: at every witness point the round trips are also evaluated with the values written in the literal '
        'tables (c.R(u) and c.kb(u) kept as separate entries), the volume being the largest/smallest real root of '
        'the cubic the code sets up, computed to 30 digits by the checker: the state must come back to 1e-6. '
        'Comparisons in the analysed code are decided only where they come out the same on the whole box of the '
        'quantifier (interval arithmetic); in addition every obligation is run at witness points of the box '
        '(corners, a CO2 state with three real roots) where all comparisons are decided, so that a guard which '
        'refuses part of the box is reported.')
    run.assumptions = ['np.roots returns the roots of the polynomial whose coefficients it is given (NumPy contract)',
                       'unit model of pmutt.constants as verified by C12',
                       'with the values of the literal tables a state "comes back" when it agrees to 1e-6 relative '
                       '(the tables carry eight significant digits; exact arithmetic, no rounding of floats)']
    run.undecided = ['root-finding numerics (conditioning of the cubic)',
                     'comparisons inside the code are decided on the whole box or at the witness points listed in '
                     'the evidence, not on every sub-region of the box']
    values = table_numbers(repo)
    _use_tables(values)
    # witness points first (concrete instances before symbolic ones): all comparisons decided at that point
    pts = witnesses(run.tier)
    for p in pts:
        body(_Suffixed(run, ' [at %s]' % p.label), repo, 'float', p, False)
    run.floor('witness points of the box', len(pts), 8)
    run.sample({'witness_points': [p.label + ' (%d real root%s)' % (p.nreal, 's' if p.nreal > 1 else '')
                                   for p in pts]})
    # the same witness points with the numbers the package really uses: the literal tables of pmutt.constants are
    # read (every entry an atom with the value written in the source) and the state that comes back is compared as a
    # number - two spellings of one constant that differ in the ninth digit (R and kB*NA) are one constant for the
    # unit model, but not on the liquid root, where the pressure is a small difference of two large terms
    run.sample({'table_numbers': {k: '%.12g' % float(values[k]) for k in ('R[J/mol/K]', 'kb[J/K]', 'Na', 'U<bar>')
                                  if k in values}})
    for p in pts:
        table_values(_Suffixed(run, ' [table values at %s]' % p.label), repo, p, values)
    # all states at once: comparisons decided only when they hold on the whole box
    body(run, repo, 'float', _Box(), True)
    # the same obligations with the state given as Python ints (T=500, n=2) and as numpy scalars (T from np.arange, a
    # volume that an earlier getter returned: np.int64 is no int, np.float64 is a float but not of type float):
    # dispatch on the type of an argument must not change the result
    body(_Suffixed(run, ' [integer arguments]'), repo, 'int', _Box(ints=True), False)
    body(_Suffixed(run, ' [numpy integer arguments]'), repo, 'np.int64', _Box(ints=True), False)
    body(_Suffixed(run, ' [numpy float64 arguments]'), repo, 'np.float64', _Box(), False)


class _Suffixed:
    """the run, with a suffix on every instance key (a second pass over the same obligations)"""

    def __init__(self, run, suffix):
        self._run, self._suffix = run, suffix

    def __getattr__(self, name):
        return getattr(self._run, name)

    def check(self, cond, rule, construct, key, why, *a, **k):
        return self._run.check(cond, rule, construct, key + self._suffix, why, *a, **k)

    def fail(self, rule, construct, key, why, *a, **k):
        return self._run.fail(rule, construct, key + self._suffix, why, *a, **k)

    def floor(self, name, count, minimum):
        # fails closed in every pass; the evidence keeps one entry (the last pass)
        return self._run.floor(name, count, minimum)


ARGN = {'get_V': ('T', 'P', 'n'), 'get_P': ('T', 'V', 'n'), 'get_T': ('V', 'P', 'n'), 'get_n': ('V', 'P', 'T')}
OUT_OF = {'get_V': 'V', 'get_P': 'P', 'get_T': 'T', 'get_n': 'n'}
ROOT_PAT = r'\{REAL\{ROOT#\d+\}\}'


def _user(I, module, text, **names):
    """value of an expression as a user of the package would write it in a script (a Raised when it raises)"""
    try:
        return Frame(I, module, dict(names), None, None).ev(ast.parse(text, mode='eval').body)
    except _RaisedExc as e:
        return e.raised


def _user_do(I, module, text, **names):
    """a statement as a user of the package would write it in a script (a Raised when it raises, else None)"""
    try:
        Frame(I, module, dict(names), None, None).exec_block(ast.parse(text).body)
    except _RaisedExc as e:
        return e.raised
    return None


def _public(I, obj, attr):
    """obj.attr as a user reads it (a Raised when reading raises)"""
    try:
        return get_public(I, obj, attr)
    except _RaisedExc as e:
        return e.raised


def _never_zero(box, r):
    """r is zero nowhere on the box: a non-zero monomial in strictly positive quantities (state, parameters, physical
    constants, unit factors of any unit), or of one sign by interval arithmetic"""
    if r.is_monomial() and not r.iszero() and all(a_ in box.iv or a_.startswith('U<') for a_ in r.atoms()):
        return True
    return box.sign(r) in (1, -1)


def _at_zero(r, atom):
    """the rational function r at atom = 0 (None when it has a pole there)"""
    def p0(p):
        out = {}
        for k, v in p.t.items():
            e = dict(k).get(atom, 0)
            if e < 0:
                return None
            if e == 0:
                out[k] = v
        return Poly(out)
    num = p0(r.n)
    if num is None:
        return None
    res = Rat(num)
    for p, e in r.f.values():
        d = p0(p)
        if d is None or d.iszero():
            return None
        for _ in range(e):
            res = res / Rat(d)
    return res


def body(run, repo, kind, order, repeat):
    I = Interp(repo, order=order)
    I.track_print_precision = True      # a number that is printed and parsed again is a rounded number
    D = I.D
    ints = kind in ('int', 'np.int64')
    box = order if isinstance(order, _Box) else _Box(ints)
    for q in ('get_V', 'get_P', 'get_T', 'get_n'):
        run.fn('%s.IdealGasEOS.%s' % (EOS, q))
    for q in ('get_Vm', 'get_V', 'get_P', 'get_T', 'get_n', 'get_Pc', 'get_Tc', 'get_Vc', 'from_critical'):
        run.fn('%s.vanDerWaalsEOS.%s' % (EOS, q))
    ci = repo.cls(EOS + '.IdealGasEOS')
    vci = repo.cls(EOS + '.vanDerWaalsEOS')
    RJ = D.sym('kb') * D.sym('Na')
    toPa = C(1) / D.sym('U<bar>')
    Rmb = RJ * D.sym('U<bar>')

    # Two objects of each class, two states.  Between consecutive rounds ONE thing changes - one argument, then one
    # parameter of the object (the documented public attributes a and b are re-assigned), then the object - and at
    # the end the first object is asked its first state again: a getter that remembers anything from an earlier call
    # (a memo whose key lacks the object, the flag, an argument or a parameter; a value cached on the object)
    # answers wrongly in the round in which the forgotten thing is the one that changed
    world = {}
    for k in ('', '2') if repeat else ('',):
        nm = _names(k)
        st = {q: D.sym(nm[q]) for q in 'TPVn'}
        if ints:
            I.int_syms.update(nm[q] for q in 'TPVn')
        if kind.startswith('np.'):
            I.np_syms.update({nm[q]: kind[3:] for q in 'TPVn'})
        a, b = D.sym(nm['a']), D.sym(nm['b'])
        ig = I.construct(ci, [], {}, name='ig' + k)
        vw = I.construct(vci, [], {'a': a, 'b': b}, name='vdw' + k)
        world[k] = (ig, vw, st, a, b)
    ig, vw, st, a, b = world['']
    if not repeat:
        ideal_gas(run, repo, I, ci, ig, st, Rmb)
        van_der_waals(run, repo, I, box, ci, vci, ig, vw, st, a, b, RJ, toPa, first=True, history=False)
        return
    ig2, vw2, st2, a2, b2 = world['2']
    cur = dict(st)
    rounds = [('', None, None)]
    for q, what in (('P', 'pressure'), ('T', 'temperature'), ('n', 'amount'), ('V', 'volume')):
        rounds.append((' [first object, other %s]' % what, ('arg', q), None))
    rounds += [(' [first object, a re-assigned]', ('attr', 'a'), None),
               (' [first object, b re-assigned]', ('attr', 'b'), None),
               (' [second object, second state]', ('object', '2'), None),
               (' [first object, second call]', ('object', ''), None)]
    obj_ig, obj_vw, pa, pb = ig, vw, a, b
    for sfx, (kind_, what), _ in [(r[0], r[1] or ('', ''), r[2]) for r in rounds]:
        r_ = _Suffixed(run, sfx) if sfx else run
        if kind_ == 'arg':
            cur[what] = st2[what]
        elif kind_ == 'attr' and isinstance(obj_vw, Obj):
            new = a2 if what == 'a' else b2
            res = _user_do(I, vci.module, 'eos.%s = x' % what, eos=obj_vw, x=new)
            if isinstance(res, Raised) or not same(_public(I, obj_vw, what), new):
                # the parameters of this class cannot be re-assigned (the statement raises, or the object does not
                # report the new value): the object keeps what it was built from - what it makes of an assignment
                # is not this property's business - and a new object stands for "the same gas with another a / b"
                keep_a, keep_b = (new, pb) if what == 'a' else (pa, new)
                obj_vw = I.construct(vci, [], {'a': keep_a, 'b': keep_b}, name='vdw_' + what)
            if what == 'a':
                pa = new
            else:
                pb = new
        elif kind_ == 'object' and what == '2':
            obj_ig, obj_vw, pa, pb = ig2, vw2, a2, b2
        elif kind_ == 'object':
            # the first object again, with the parameters and the state it had at first
            obj_ig, obj_vw, pa, pb, cur = ig, vw, a, b, dict(st)
            if isinstance(vw, Obj):
                for nm_, val in (('a', a), ('b', b)):
                    _user_do(I, vci.module, 'eos.%s = x' % nm_, eos=vw, x=val)
        ideal_gas(r_, repo, I, ci, obj_ig, cur, Rmb)
        van_der_waals(r_, repo, I, box, ci, vci, obj_ig, obj_vw, cur, pa, pb, RJ, toPa, first=not sfx, history=True)


def ideal_gas(run, repo, I, ci, ig, state, Rmb):
    if isinstance(ig, Raised):
        run.fail('REF.construct', 'IdealGasEOS', 'constructs', 'IdealGasEOS() raises %s' % show(ig),
                 *repo_loc(repo, ci, 'get_V'))
        return
    T, P, V, n = (state[q] for q in 'TPVn')

    def call(m, st):
        return I.call_method(ig, m, [], {k: st[k] for k in ARGN[m]})

    cnt = 0
    for solve in ARGN:
        x = OUT_OF[solve]
        val = call(solve, state)
        st2 = dict(state)
        st2[x] = val
        for back in ARGN:
            if back == solve:
                continue
            y = OUT_OF[back]
            got = call(back, st2)
            owner, fn = repo.find_method(ci, back)
            run.check(same(got, state[y]), 'ALG.roundtrip', 'IdealGasEOS.' + back, '%s after %s' % (back, solve),
                      'substituting %s from %s into %s gives %s, not %s' % (x, solve, back, show(got), y),
                      owner.module, fn, sample='%s(%s=%s(...)) == %s' % (back, x, solve, y))
            cnt += 1
    # PV = nRT with R in m3 bar/mol/K
    Vv = call('get_V', state)
    owner, fn = repo.find_method(ci, 'get_V')
    run.check(same(Vv, n * Rmb * T / P), 'REF.idealgas', 'IdealGasEOS.get_V', 'PV=nRT',
              'V is not nRT/P with R in m3 bar/mol/K: %s' % show(Vv), owner.module, fn)
    run.floor('ideal gas round trips', cnt, 12)


def van_der_waals(run, repo, I, box, ci, vci, ig, vw, state, a, b, RJ, toPa, first, history):
    D = I.D
    T, P, V, n = (state[q] for q in 'TPVn')
    if first:
        critical_point(run, repo, I, vci, n, RJ, toPa, history)
    if isinstance(vw, Raised):
        # the constructor is on every path: a gas of the box that cannot be built fails every clause of the property
        run.fail('REF.construct', 'vanDerWaalsEOS', 'constructs', 'vanDerWaalsEOS(a, b) raises %s for van der Waals '
                 'parameters of a real gas (a 0.003-3 Pa m6/mol2, b 1e-5-2e-4 m3/mol)' % show(vw),
                 *repo_loc(repo, vci, '__init__'))
        return
    for attr, want in (('a', a), ('b', b)):
        got = get_public(I, vw, attr)
        run.check(same(got, want), 'REF.construct', 'vanDerWaalsEOS', 'attribute %s' % attr,
                  'vanDerWaalsEOS(a, b).%s is %s, not the %s it was given' % (attr, show(got), attr),
                  *repo_loc(repo, vci, '__init__'))
    # closed-form inverses
    Pv = I.call_method(vw, 'get_P', [], {'T': T, 'V': V, 'n': n})
    Tv = I.call_method(vw, 'get_T', [], {'V': V, 'P': P, 'n': n})
    # what is substituted back is the pressure / temperature of a state of the box
    box.fact(Pv, *RANGE['P'])
    box.fact(Tv, *RANGE['T'])
    owner, fn = repo.find_method(vci, 'get_T')
    got = I.call_method(vw, 'get_T', [], {'V': V, 'P': Pv, 'n': n})
    run.check(same(got, T), 'ALG.roundtrip', 'vanDerWaalsEOS.get_T', 'get_T after get_P',
              'get_T(P=get_P(T)) = %s, not T' % show(got), owner.module, fn,
              sample='vdW: get_T(V, get_P(T,V,n), n) == T')
    owner, fn = repo.find_method(vci, 'get_P')
    got = I.call_method(vw, 'get_P', [], {'T': Tv, 'V': V, 'n': n})
    run.check(same(got, P), 'ALG.roundtrip', 'vanDerWaalsEOS.get_P', 'get_P after get_T',
              'get_P(T=get_T(P)) = %s, not P' % show(got), owner.module, fn)
    # textbook: (P + a/Vm^2)(Vm - b) = RT, P in bar <-> Pa
    Vm_ = V / n
    want_P = (RJ * T / (Vm_ - b) - a / (Vm_ * Vm_)) / toPa
    run.check(same(Pv, want_P), 'REF.vdw', 'vanDerWaalsEOS.get_P', 'textbook',
              'P is not RT/(Vm-b) - a/Vm^2 (in bar): %s' % show(Pv), owner.module, fn)
    # cubic.  The flag as the two singletons and as a true / a false value that is not the singleton (what
    # `T > T_sat` yields for numpy numbers, or 1 / 0): "if True, return the larger volume"
    owner, fn = repo.find_method(vci, 'get_Vm')
    flags = [(True, 'MAX', 'True'), (False, 'MIN', 'False'),
             (C(1), 'MAX', '1 (true, not the singleton True)'), (C(0), 'MIN', '0 (false, not the singleton False)')]
    for gas, want_kind, gname in flags:
        is_gas = want_kind == 'MAX'
        r = I.call_method(vw, 'get_Vm', [], {'T': T, 'P': P, 'gas_phase': gas})
        ok = isinstance(r, Rat) and len(r.atoms()) == 1 and \
            re.fullmatch(want_kind + ROOT_PAT, list(r.atoms())[0]) is not None and r.eq(Rat.atom(list(r.atoms())[0]))
        run.check(ok, 'ORDER.root', 'vanDerWaalsEOS.get_Vm', 'gas_phase=%s' % gname,
                  'the %s phase must use the %s real root of the cubic, got %s'
                  % ('gas' if is_gas else 'liquid', 'largest' if is_gas else 'smallest', show(r)), owner.module, fn)
        if not ok:
            continue
        atom = list(r.atoms())[0]
        co = I.roots[atom]
        run.check(len(co) == 4, 'REF.cubic', 'vanDerWaalsEOS.get_Vm', 'degree gas=%s' % gname,
                  'polynomial handed to np.roots has %d coefficients, a cubic has 4' % len(co), owner.module, fn)
        if len(co) != 4:
            continue
        Vm = D.sym('Vm')
        poly = co[0] * Vm * Vm * Vm + co[1] * Vm * Vm + co[2] * Vm + co[3]
        P_SI = P * toPa
        want = Vm * Vm * ((P_SI + a / (Vm * Vm)) * (Vm - b) - RJ * T)
        # same roots: the polynomial is the reference times a factor that is zero nowhere on the box - the ratio of
        # the leading coefficients, whatever it is (a number, 1/P for the monic form, a unit factor); np.roots is
        # scale invariant
        lead_ok = _never_zero(box, co[0])
        okc = lead_ok and is_zero(poly * P_SI - want * co[0])
        run.check(okc, 'REF.cubic', 'vanDerWaalsEOS.get_Vm', 'coefficients gas=%s' % gname,
                  'cubic is %s but Vm^2[(P+a/Vm^2)(Vm-b)-RT] = %s%s'
                  % (show(poly), show(want), '' if lead_ok else ' (leading coefficient not of one sign)'),
                  owner.module, fn, sample={'cubic_from_source': show(poly, 300), 'reference': show(want, 300)})
        # a root satisfies get_P: (get_P(T, Vm*n, n) - P) * Vm^2 (Vm-b) * toPa == -cubic
        Pr = I.call_method(vw, 'get_P', [], {'T': T, 'V': Vm * n, 'n': n})
        resid = (Pr - P) * toPa * Vm * Vm * (Vm - b) + want
        run.check(same(resid, C(0)), 'ALG.root-satisfies-P', 'vanDerWaalsEOS.get_Vm', 'get_P at root gas=%s' % gname,
                  'get_P evaluated at a root of the cubic does not return P (residual %s)' % show(resid),
                  owner.module, fn)
        # V = n*Vm ; n = V/Vm ; Vm free of n
        Vg = I.call_method(vw, 'get_V', [], {'T': T, 'P': P, 'n': n, 'gas_phase': gas})
        at2 = [x for x in Vg.atoms() if re.fullmatch(want_kind + ROOT_PAT, x)] if isinstance(Vg, Rat) else []
        o2, f2 = repo.find_method(vci, 'get_V')
        n_atom = next(iter(n.atoms()))
        ok2 = len(at2) == 1 and Vg.eq(Rat.atom(at2[0]) * n) and \
            all(n_atom not in c_.atoms() for c_ in I.roots[at2[0]]) and \
            all(x.eq(y) for x, y in zip(I.roots[at2[0]], co))
        run.check(ok2, 'REF.V=n*Vm', 'vanDerWaalsEOS.get_V', 'gas=%s' % gname,
                  'V is not n times the molar volume root (which must not depend on n): %s' % show(Vg), o2.module, f2)
        ng = I.call_method(vw, 'get_n', [], {'V': V, 'P': P, 'T': T, 'gas_phase': gas})
        at3 = [x for x in ng.atoms() if re.fullmatch(want_kind + ROOT_PAT, x)] if isinstance(ng, Rat) else []
        o3, f3 = repo.find_method(vci, 'get_n')
        ok3 = len(at3) == 1 and ng.eq(V / Rat.atom(at3[0])) and all(x.eq(y) for x, y in zip(I.roots[at3[0]], co))
        run.check(ok3, 'REF.n=V/Vm', 'vanDerWaalsEOS.get_n', 'gas=%s' % gname,
                  'n is not V divided by the molar volume root: %s' % show(ng), o3.module, f3)
    # critical constants
    Vc = I.call_method(vw, 'get_Vc', [], {'n': n})
    o4, f4 = repo.find_method(vci, 'get_Vc')
    run.check(same(Vc, 3 * n * b), 'REF.critical', 'vanDerWaalsEOS.get_Vc', 'Vc=3nb', 'Vc is %s, not 3nb' % show(Vc),
              o4.module, f4)
    # textbook critical constants
    run.check(same(I.call_method(vw, 'get_Tc', [], {}), 8 * a / (27 * b * RJ)), 'REF.critical',
              'vanDerWaalsEOS.get_Tc', 'Tc=8a/27bR', 'Tc is not 8a/(27 b R)', *repo_loc(repo, vci, 'get_Tc'))
    run.check(same(I.call_method(vw, 'get_Pc', [], {}), a / (27 * b * b) / toPa), 'REF.critical',
              'vanDerWaalsEOS.get_Pc', 'Pc=a/27b^2', 'Pc is not a/(27 b^2) in bar', *repo_loc(repo, vci, 'get_Pc'))
    # low density: P_vdW / P_ideal and T_vdW / T_ideal at V = n/rho tend to 1 as rho -> 0
    if not isinstance(ig, Raised):
        rho = D.sym('rho')
        for m, x in (('get_P', 'P'), ('get_T', 'T')):
            st = dict(state)
            st['V'] = n / rho
            got = I.call_method(vw, m, [], {k_: st[k_] for k_ in ARGN[m]})
            ideal = I.call_method(ig, m, [], {k_: st[k_] for k_ in ARGN[m]})
            lim = _at_zero(got / ideal, 'rho') if isinstance(got, Rat) and isinstance(ideal, Rat) and \
                not ideal.iszero() else None
            o5, f5 = repo.find_method(vci, m)
            run.check(lim is not None and same(lim, C(1)), 'REF.ideal-limit', 'vanDerWaalsEOS.' + m, 'n/V -> 0',
                      '%s of the van der Waals gas divided by the ideal-gas %s tends to %s, not 1, as the density '
                      'goes to zero' % (x, x, show(lim) if lim is not None else 'no finite limit'), o5.module, f5)
    if not first:
        return
    # a = b = 0 reduces to the ideal gas (when the constructor accepts the limit - it is outside the box)
    z = I.construct(vci, [], {'a': C(0), 'b': C(0)}, name='vdw0')
    if isinstance(z, Obj) and not isinstance(ig, Raised):
        for m in ('get_P', 'get_T'):
            got = I.call_method(z, m, [], {k_: state[k_] for k_ in ARGN[m]})
            want = I.call_method(ig, m, [], {k_: state[k_] for k_ in ARGN[m]})
            o5, f5 = repo.find_method(vci, m)
            run.check(same(got, want), 'REF.ideal-limit', 'vanDerWaalsEOS.' + m, 'a=b=0',
                      'with a=b=0 %s gives %s but the ideal gas gives %s' % (m, show(got), show(want)), o5.module, f5)


def critical_point(run, repo, I, vci, n, RJ, toPa, history):
    D = I.D
    # construction from the critical point, then the getters.  Tc and Pc are symbols with the ranges the quantifier
    # gives them (5-1000 K, 1-300 bar): what the constructor asks about a and b is decided for the a and b of THESE
    # gases.  With history: one argument changes at a time, and the first critical point is asked again
    owner, fn = repo.find_method(vci, 'from_critical')
    seq = [('', '', '')]
    if history:
        seq += [('', '2', ' [other Pc]'), ('2', '2', ' [other Tc]'), ('', '', ' [first critical point again]')]
        D.sym('Tc2'), D.sym('Pc2')
    for kT, kP, sfx in seq:
        Tc, Pc = D.sym('Tc' + kT), D.sym('Pc' + kP)
        r_ = _Suffixed(run, sfx) if sfx else run
        # as a user writes it: called on the class
        o = _user(I, vci.module, 'vanDerWaalsEOS.from_critical(Tc=Tc_, Pc=Pc_)', Tc_=Tc, Pc_=Pc)
        if not isinstance(o, Obj):
            r_.fail('REF.critical', 'vanDerWaalsEOS.from_critical', 'constructs', 'from_critical does not build an '
                    'equation of state for a critical point of the quantifier, Tc 5-1000 K and Pc 1-300 bar (%s)'
                    % show(o), owner.module, fn)
            continue
        gTc = I.call_method(o, 'get_Tc', [], {})
        gPc = I.call_method(o, 'get_Pc', [], {})
        r_.check(same(gTc, Tc), 'ALG.roundtrip', 'vanDerWaalsEOS.get_Tc', 'Tc after from_critical',
                 'from_critical(Tc, Pc).get_Tc() = %s, not Tc = %s' % (show(gTc), show(Tc)), owner.module, fn,
                 sample='from_critical(Tc,Pc).get_Tc() == Tc')
        r_.check(same(gPc, Pc), 'ALG.roundtrip', 'vanDerWaalsEOS.get_Pc', 'Pc after from_critical',
                 'from_critical(Tc, Pc).get_Pc() = %s, not Pc = %s' % (show(gPc), show(Pc)), owner.module, fn)
        gVc = I.call_method(o, 'get_Vc', [], {'n': n})
        r_.check(same(gVc, 3 * n * RJ * Tc / (8 * Pc * toPa)), 'REF.critical', 'vanDerWaalsEOS.get_Vc',
                 'Vc after from_critical', 'from_critical(Tc, Pc).get_Vc(n) = %s, not 3 n b with b = R Tc / 8 Pc'
                 % show(gVc), owner.module, fn)
        # the critical point lies on the critical isotherm of the gas that was built: get_P(Tc, Vc, n) = Pc
        gP = I.call_method(o, 'get_P', [], {'T': gTc, 'V': gVc, 'n': n})
        r_.check(same(gP, Pc), 'ALG.roundtrip', 'vanDerWaalsEOS.get_P', 'P(Tc, Vc) after from_critical',
                 'from_critical(Tc, Pc): get_P(T=get_Tc(), V=get_Vc(n), n) = %s, not Pc' % show(gP), owner.module, fn)


# ---------------------------------------------------------------------------------------------------------------------
# numbers: the round trips with the values of the literal tables
TOL = Fr(1, 10 ** 6)


def _isqrt_fr(q, digits=40):
    """square root of a non-negative Fraction to `digits` decimal places (rounded down)"""
    import math
    s_ = 10 ** digits
    return Fr(math.isqrt(q.numerator * s_ * s_ // q.denominator), s_)


def real_roots(co):
    """the real roots of the cubic with the rational coefficients co (highest power first), each to 1e-30 relative:
    bisection between the stationary points - the checker's own arithmetic, nothing of the package is used"""
    c3, c2, c1, c0 = co
    if c3 == 0:
        return None

    def f(x):
        return ((c3 * x + c2) * x + c1) * x + c0
    bound = 1 + max(abs(c / c3) for c in (c2, c1, c0))
    cuts = [-bound]
    dd = c2 * c2 - 3 * c3 * c1                  # discriminant / 4 of the derivative
    if dd > 0:
        r = _isqrt_fr(dd)
        cuts += sorted([(-c2 - r) / (3 * c3), (-c2 + r) / (3 * c3)])
    cuts.append(bound)
    roots = []
    for lo, hi in zip(cuts, cuts[1:]):
        flo, fhi = f(lo), f(hi)
        if flo == 0:
            roots.append(lo)
            continue
        if flo * fhi > 0 or fhi == 0:
            continue
        for _ in range(400):
            mid = (lo + hi) / 2
            fm = f(mid)
            if fm == 0:
                lo = hi = mid
                break
            if (fm > 0) == (flo > 0):
                lo = mid
            else:
                hi = mid
            if abs(hi - lo) <= abs(mid) / 10 ** 30:
                break
        roots.append(((lo + hi) / 2).limit_denominator(10 ** 80))
    if f(bound) == 0:
        roots.append(bound)
    return roots


def table_numbers(repo):
    """the values the literal tables of pmutt.constants give to the entries behind c.R and c.kb (atoms R[u], kb[u]), to
    the unit factors U<..> and to Na: exact Fractions of the digits written"""
    from ..fold import fold_table, fold_num
    from ..xlate import unit_table
    from .c12 import const_table          # the numeric table a constants function consults, found by role
    m = repo.module('pmutt.constants')
    env = {'Na': fold_num(m, m.assigns['Na'][-1])} if 'Na' in m.assigns else {}
    um, _nm, unode = unit_table(repo)
    values = {k: v.v for k, v in env.items()}
    for key, num, _v in fold_table(um, unode, env or None):
        values['U<%s>' % key] = num.v
    for fname in ('R', 'kb'):
        tm, _nm, node = const_table(repo, m, fname, exclude=(unode,))
        for key, num, _v in fold_table(tm, node, env or None):
            values['%s[%s]' % (fname, key)] = num.v
    return values


def table_interp(repo):
    """the unit model with every entry of the tables behind c.R and c.kb kept apart: c.R(u) is the atom R[u], c.kb(u)
    the atom kb[u], instead of kb*Na*U<..> and kb*U<..>.  What the functions of pmutt.constants do with their tables
    stays the unit model (verified by C12)."""
    I = Interp(repo)
    for fname in ('R', 'kb'):
        def entry(I_, fr, args, kwargs, n, base=I.native['pmutt.constants.' + fname], fname=fname):
            base(I_, fr, list(args), dict(kwargs), n)       # refuses what the function refuses (unknown unit: KeyError)
            u = args[0] if args else kwargs.get('units')
            if not isinstance(u, str):
                raise Unsupported('units argument of c.%s' % fname, n)
            return I_.D.sym('%s[%s]' % (fname, u))
        I.native['pmutt.constants.' + fname] = entry
    return I


def table_values(run, repo, pt, values):
    I = table_interp(repo)
    pt = pt.with_tables(values)
    I.order = pt
    I.track_print_precision = True
    D = I.D
    ci = repo.cls(EOS + '.IdealGasEOS')
    vci = repo.cls(EOS + '.vanDerWaalsEOS')
    nm = _names('')
    st = {q: D.sym(nm[q]) for q in 'TPVn'}
    a, b = D.sym(nm['a']), D.sym(nm['b'])

    def num(r):
        if not isinstance(r, Rat):
            return None         # a Raised, an object: not the number that was expected
        v = pt.value(r)
        if v is None:
            raise Unsupported('no value in the literal tables for an atom of %s' % show(r))
        return v

    def close(got, want):
        g, w = num(got), num(want)
        return g is not None and w is not None and abs(g - w) <= TOL * abs(w)

    def rel(got, want):
        g, w = num(got), num(want)
        if g is None or w is None or w == 0:
            return show(got)
        return '%.6g, relative error %.2e' % (float(g), float(abs(g - w) / abs(w)))

    ig = I.construct(ci, [], {}, name='ig')
    cnt = 0
    if isinstance(ig, Obj):
        for solve in ARGN:
            x = OUT_OF[solve]
            st2 = dict(st)
            st2[x] = I.call_method(ig, solve, [], {k: st[k] for k in ARGN[solve]})
            for back in ARGN:
                if back == solve:
                    continue
                y = OUT_OF[back]
                got = I.call_method(ig, back, [], {k: st2[k] for k in ARGN[back]})
                owner, fn = repo.find_method(ci, back)
                run.check(close(got, st[y]), 'NUM.roundtrip', 'IdealGasEOS.' + back, '%s after %s' % (back, solve),
                          'with the table values, substituting %s from %s into %s gives %s = %s, not the %s of the '
                          'state (%.6g)' % (x, solve, back, y, rel(got, st[y]), y, float(num(st[y]))),
                          owner.module, fn)
                cnt += 1
    vw = I.construct(vci, [], {'a': a, 'b': b}, name='vdw')
    if not isinstance(vw, Obj):
        return          # reported by the other passes (REF.construct)
    T, P, V, n = (st[q] for q in 'TPVn')
    Pv = I.call_method(vw, 'get_P', [], {'T': T, 'V': V, 'n': n})
    Tv = I.call_method(vw, 'get_T', [], {'V': V, 'P': P, 'n': n})
    for m, arg, val, y in (('get_T', 'P', Pv, 'T'), ('get_P', 'T', Tv, 'P')):
        kw = {'V': V, 'n': n, arg: val}
        got = I.call_method(vw, m, [], kw)
        owner, fn = repo.find_method(vci, m)
        run.check(close(got, st[y]), 'NUM.roundtrip', 'vanDerWaalsEOS.' + m, '%s after %s' % (m, 'get_' + arg),
                  'with the table values, %s(%s=get_%s(...)) = %s, not %s = %.6g'
                  % (m, arg, arg, rel(got, st[y]), y, float(num(st[y]))), owner.module, fn)
        cnt += 1
    # the volume root of the cubic the code sets up, to 30 digits, then back through get_P and get_T
    owner, fn = repo.find_method(vci, 'get_Vm')
    Vm = D.sym('Vm')
    for gas, want_kind in ((True, 'MAX'), (False, 'MIN')):
        r = I.call_method(vw, 'get_Vm', [], {'T': T, 'P': P, 'gas_phase': gas})
        atoms_ = list(r.atoms()) if isinstance(r, Rat) else []
        ok = len(atoms_) == 1 and re.fullmatch(want_kind + ROOT_PAT, atoms_[0]) is not None and \
            r.eq(Rat.atom(atoms_[0])) and len(I.roots[atoms_[0]]) == 4
        run.check(ok, 'ORDER.root', 'vanDerWaalsEOS.get_Vm', 'gas_phase=%s' % gas,
                  'the %s phase must use the %s real root of a cubic, got %s'
                  % ('gas' if gas else 'liquid', 'largest' if gas else 'smallest', show(r)), owner.module, fn)
        cnt += 2            # instances looked at, whatever comes of them
        if not ok:
            continue
        co = [num(c_) for c_ in I.roots[atoms_[0]]]
        roots = real_roots(co) if all(c_ is not None for c_ in co) else None
        run.check(bool(roots), 'NUM.roundtrip', 'vanDerWaalsEOS.get_Vm', 'real root gas=%s' % gas,
                  'the cubic handed to np.roots has no real root with the table values (coefficients %s)'
                  % [c_ if c_ is None else float(c_) for c_ in co], owner.module, fn)
        if not roots:
            continue
        pt.val['Vm'] = max(roots) if gas else min(roots)
        for m, y in (('get_P', 'P'), ('get_T', 'T')):
            kw = {k_: st[k_] for k_ in ARGN[m]}
            kw['V'] = Vm * n
            got = I.call_method(vw, m, [], kw)
            o2, f2 = repo.find_method(vci, m)
            run.check(close(got, st[y]), 'NUM.roundtrip', 'vanDerWaalsEOS.' + m,
                      '%s after get_V gas=%s' % (m, gas),
                      'with the table values, the %s root of the cubic is Vm = %.9g m3/mol and %s at that volume '
                      'gives %s = %s, not the %s of the state (%.6g): the cubic and %s are not written over the '
                      'same constants' % ('largest' if gas else 'smallest', float(pt.val['Vm']), m, y,
                                          rel(got, st[y]), y, float(num(st[y])), m), o2.module, f2)
    # critical point
    Tc, Pc = D.sym('Tc'), D.sym('Pc')
    o = _user(I, vci.module, 'vanDerWaalsEOS.from_critical(Tc=Tc_, Pc=Pc_)', Tc_=Tc, Pc_=Pc)
    owner, fn = repo.find_method(vci, 'from_critical')
    cnt += 2
    if not isinstance(o, Obj):
        run.fail('REF.critical', 'vanDerWaalsEOS.from_critical', 'constructs', 'from_critical does not build an '
                 'equation of state for a critical point of the quantifier, Tc 5-1000 K and Pc 1-300 bar (%s)'
                 % show(o), owner.module, fn)
    else:
        for m, want in (('get_Tc', Tc), ('get_Pc', Pc)):
            got = I.call_method(o, m, [], {})
            run.check(close(got, want), 'NUM.roundtrip', 'vanDerWaalsEOS.' + m, '%s after from_critical' % m[4:],
                      'with the table values, from_critical(Tc, Pc).%s() = %s, not %.6g'
                      % (m, rel(got, want), float(num(want))), owner.module, fn)
    run.floor('round trips with table values', cnt, 20)


def repo_loc(repo, ci, m):
    got = repo.find_method(ci, m, missing_ok=True)
    if not got:
        return ci.module, ci.node
    return got[0].module, got[1]


E = 'pmutt/eos/__init__.py'
MUTANTS = [
    {'name': 'vdW cubic: wrong sign on a*b', 'expect': ('', 'get_Vm'),
     'edits': [(E, '-self.a * self.b', 'self.a * self.b')]},
    {'name': 'liquid root uses max', 'expect': ('ORDER.root', 'get_Vm'),
     'edits': [(E, 'return np.min(real_Vm)', 'return np.max(real_Vm)')]},
    {'name': 'ideal get_T drops n', 'expect': ('ALG.roundtrip', 'IdealGasEOS'),
     'edits': [(E, "return P * V / c.R('m3 bar/mol/K') / n", "return P * V / c.R('m3 bar/mol/K')")]},
    {'name': 'from_critical b uses /4', 'expect': ('', 'vanDerWaalsEOS'),
     'edits': [(E, "b = c.R('J/mol/K') * Tc / 8. / Pc_SI", "b = c.R('J/mol/K') * Tc / 4. / Pc_SI")]},
    {'name': 'vdW get_T forgets unit conversion', 'expect': ('', 'vanDerWaalsEOS.get_'),
     'edits': [(E, "return (P * c.convert_unit(initial='bar', final='Pa') + self.a / Vm**2)", "return (P + self.a / Vm**2)")]},
    {'name': 'Vc = 3b (n dropped)', 'expect': ('REF.critical', 'get_Vc'),
     'edits': [(E, 'return 3. * n * self.b', 'return 3. * self.b')]},
    # white-box round 2
    {'name': 'gas root only for the singleton True (A3)', 'expect': ('ORDER.root', 'get_Vm'),
     'edits': [(E, '        if gas_phase:\n            return np.max(real_Vm)',
                '        if gas_phase is True:\n            return np.max(real_Vm)')]},
    {'name': 'liquid root only for the singleton False', 'expect': ('ORDER.root', 'get_Vm'),
     'edits': [(E, '        if gas_phase:\n            return np.max(real_Vm)',
                '        if gas_phase is not False:\n            return np.max(real_Vm)')]},
    {'name': 'constructor asserts b < 1e-4 (A4)', 'expect': ('REF.construct', 'vanDerWaalsEOS'),
     'edits': [(E, '        self.a = a\n', "        assert 0. < b < 1.e-4, 'b should be in m3/mol'\n        self.a = a\n")]},
    {'name': 'constructor refuses a > 1', 'expect': ('REF.construct', 'vanDerWaalsEOS'),
     'edits': [(E, '        self.a = a\n', "        if a > 1.:\n            raise ValueError('a should be in Pa m6/mol2')\n"
                                           "        self.a = a\n")]},
    {'name': 'get_Vm refuses numbers that are not int/float: numpy integers (A5)', 'expect': ('ORDER.root', 'get_Vm'),
     'edits': [(E, "        P_SI = P * c.convert_unit(initial='bar', final='Pa')\n        Vm = np.roots([",
                "        if not isinstance(T, (int, float)) or not isinstance(P, (int, float)):\n"
                "            raise TypeError('T and P should be numbers')\n"
                "        P_SI = P * c.convert_unit(initial='bar', final='Pa')\n        Vm = np.roots([")]},
    {'name': 'positivity check that also sees the flag (A1, inlined)', 'expect': ('ORDER.root', 'get_Vm'),
     'edits': [(E, "        P_SI = P * c.convert_unit(initial='bar', final='Pa')\n        Vm = np.roots([",
                "        for val in (T, P, gas_phase):\n            if val <= 0.:\n"
                "                raise ValueError('T and P must be positive')\n"
                "        P_SI = P * c.convert_unit(initial='bar', final='Pa')\n        Vm = np.roots([")]},
    {'name': 'get_Tc remembered across objects', 'expect': ('REF.critical', 'get_Tc'),
     'edits': [(E, 'class IdealGasEOS(_pmuttBase):', '_TC = {}\n\n\nclass IdealGasEOS(_pmuttBase):'),
               (E, "return 8. * self.a / 27. / self.b / c.R('J/mol/K')",
                "return _TC.setdefault('Tc', 8. * self.a / 27. / self.b / c.R('J/mol/K'))")]},
    {'name': 'from_critical: Vc inconsistent (b stored halved after a)', 'expect': ('', 'vanDerWaalsEOS'),
     'edits': [(E, 'return cls(a=a, b=b)', 'return cls(a=a, b=b / 2.)')]},
    # white-box round 2, armed since the interpreter models what they need
    {'name': 'liquid root refused when the cubic has a complex pair (A2)', 'expect': ('ORDER.root', 'get_Vm'),
     'edits': [(E, '        if gas_phase:\n            return np.max(real_Vm)',
                "        if not gas_phase and len(real_Vm) < len(Vm):\n"
                "            raise ValueError('No liquid phase volume')\n"
                '        if gas_phase:\n            return np.max(real_Vm)')]},
    {'name': 'positivity decorator that also sees the flag (A1)', 'expect': ('ORDER.root', 'get_Vm'),
     'edits': [(E, 'class IdealGasEOS(_pmuttBase):',
                'def _check_state(fn):\n    def wrapper(self, *args, **kwargs):\n'
                '        for val in list(args) + list(kwargs.values()):\n'
                '            if np.any(np.less_equal(val, 0.)):\n'
                "                raise ValueError('T, P, V and n must be positive')\n"
                '        return fn(self, *args, **kwargs)\n    return wrapper\n\n\n'
                'class IdealGasEOS(_pmuttBase):'),
               (E, "    def get_Vm(self, T=c.T0('K'), P=c.P0('bar'), gas_phase=True):",
                "    @_check_state\n    def get_Vm(self, T=c.T0('K'), P=c.P0('bar'), gas_phase=True):")]},
    {'name': 'get_Vm accepts only type float: what get_V returns is np.float64', 'expect': ('ORDER.root', 'get_Vm'),
     'edits': [(E, "        P_SI = P * c.convert_unit(initial='bar', final='Pa')\n        Vm = np.roots([",
                "        if type(T) is not float and type(T) is not int:\n"
                "            raise TypeError('T should be a number')\n"
                "        P_SI = P * c.convert_unit(initial='bar', final='Pa')\n        Vm = np.roots([")]},
    # white-box round 3
    {'name': 'cubic over kB*NA, get_P and get_T over the tabulated R (A2)',
     'expect': ('NUM.roundtrip', 'vanDerWaalsEOS.get_P'),
     'edits': [(E, "P_SI, -(P_SI * self.b + c.R('J/mol/K') * T), self.a,",
                "P_SI, -(P_SI * self.b + c.kb('J/K') * c.Na * T), self.a,")]},
    {'name': 'cubic over the gas constant rounded to 8.314', 'expect': ('REF.cubic', 'get_Vm'),
     'edits': [(E, "P_SI, -(P_SI * self.b + c.R('J/mol/K') * T), self.a,",
                "P_SI, -(P_SI * self.b + 8.314 * T), self.a,")]},
    {'name': 'cubic over R in L atm times 101.325', 'expect': ('NUM.roundtrip', 'vanDerWaalsEOS.get_'),
     'edits': [(E, "P_SI, -(P_SI * self.b + c.R('J/mol/K') * T), self.a,",
                "P_SI, -(P_SI * self.b + c.R('L atm/mol/K') * 101.325 * T), self.a,")]},
    {'name': 'constructor asserts a < 10, b < 5e-4: heavy hydrocarbons from their critical point (A3)',
     'expect': ('REF.critical', 'from_critical'),
     'edits': [(E, '        self.a = a\n', "        assert 0. < a < 10., 'a should be in Pa m6/mol2'\n"
                                           "        assert 0. < b < 5.e-4, 'b should be in m3/mol'\n        self.a = a\n")]},
    {'name': 'constructor asserts a < 100, b < 1e-3: the corner Tc = 1000 K, Pc = 1 bar',
     'expect': ('REF.critical', 'from_critical'),
     'edits': [(E, '        self.a = a\n', "        assert 0. < a < 100., 'a should be in Pa m6/mol2'\n"
                                           "        assert 0. < b < 1.e-3, 'b should be in m3/mol'\n        self.a = a\n")]},
    {'name': 'from_critical refuses Pc above 250 bar', 'expect': ('REF.critical', 'from_critical'),
     'edits': [(E, "        Pc_SI = Pc * c.convert_unit(initial='bar', final='Pa')\n",
                "        if Pc > 250.:\n            raise ValueError('Pc should be in bar')\n"
                "        Pc_SI = Pc * c.convert_unit(initial='bar', final='Pa')\n")]},
] + [
    {'name': 'roots of the cubic remembered under %s (A4)' % key, 'expect': ('REF.cubic', 'get_Vm'),
     'edits': [(E, 'class IdealGasEOS(_pmuttBase):', '_vdw_roots = {}\n\n\nclass IdealGasEOS(_pmuttBase):'),
               (E, "        Vm = np.roots([\n            P_SI, -(P_SI * self.b + c.R('J/mol/K') * T), self.a,\n"
                   "            -self.a * self.b\n        ])\n",
                "        key = %s\n        if key not in _vdw_roots:\n            _vdw_roots[key] = np.roots([\n"
                "                P_SI, -(P_SI * self.b + c.R('J/mol/K') * T), self.a, -self.a * self.b])\n"
                "        Vm = _vdw_roots[key]\n" % key)]}
    for key in ('(self.a, self.b, T)', '(self.a, self.b, P)', '(self.a, T, P)', '(self.b, T, P)',
                '(self.a, self.b, gas_phase)')
] + [
    {'name': 'critical temperature cached on the object, a and b re-assigned (A5)', 'expect': ('REF.critical', 'get_Tc'),
     'edits': [(E, '        self.a = a\n        self.b = b\n', '        self.a = a\n        self.b = b\n        self._Tc = None\n\n'
                "    def to_dict(self):\n        return {'class': str(self.__class__), 'a': self.a, 'b': self.b}\n"),
               (E, "        return 8. * self.a / 27. / self.b / c.R('J/mol/K')",
                "        if self._Tc is None:\n            self._Tc = 8. * self.a / 27. / self.b / c.R('J/mol/K')\n"
                "        return self._Tc")]},
    {'name': 'critical volume remembered per gas (the amount is not in the key)', 'expect': ('REF.critical', 'get_Vc'),
     'edits': [(E, 'class IdealGasEOS(_pmuttBase):', '_VC = {}\n\n\nclass IdealGasEOS(_pmuttBase):'),
               (E, '        return 3. * n * self.b', '        return _VC.setdefault((self.a, self.b), 3. * n * self.b)')]},
    {'name': 'from_critical remembers the object per Tc', 'expect': ('ALG.roundtrip', 'get_Pc'),
     'edits': [(E, 'class IdealGasEOS(_pmuttBase):', '_FC = {}\n\n\nclass IdealGasEOS(_pmuttBase):'),
               (E, '        return cls(a=a, b=b)', '        return _FC.setdefault(Tc, cls(a=a, b=b))')]},
    {'name': 'ideal-gas volume remembered per (T, P)', 'expect': ('', 'IdealGasEOS.get_'),
     'edits': [(E, 'class IdealGasEOS(_pmuttBase):', '_IG = {}\n\n\nclass IdealGasEOS(_pmuttBase):'),
               (E, "        return n * c.R('m3 bar/mol/K') * T / P",
                "        return _IG.setdefault((T, P), n * c.R('m3 bar/mol/K') * T / P)")]},
    {'name': 'van der Waals pressure remembered per (a, b, T, n): the volume is not in the key',
     'expect': ('', 'vanDerWaalsEOS.get_P'),
     'edits': [(E, 'class IdealGasEOS(_pmuttBase):', '_PV = {}\n\n\nclass IdealGasEOS(_pmuttBase):'),
               (E, "        return (c.R('J/mol/K')*T/(Vm - self.b) - self.a*(1./Vm)**2) \\\n"
                   "            * c.convert_unit(initial='Pa', final='bar')",
                "        return _PV.setdefault((self.a, self.b, T, n), (c.R('J/mol/K')*T/(Vm - self.b) - self.a*(1./Vm)**2)"
                "\n            * c.convert_unit(initial='Pa', final='bar'))")]},
]
EQUIV_ROUND2 = [
    {'name': 'real roots collected with an explicit loop (B1)',
     'edits': [(E, '        real_Vm = np.real([Vm_i for Vm_i in Vm if np.isreal(Vm_i)])\n',
                '        real_Vm = []\n        for Vm_i in Vm:\n            if np.isreal(Vm_i):\n'
                '                real_Vm.append(np.real(Vm_i))\n')]},
    {'name': 'flag compared with == True (1 == True, np.True_ == True)',
     'edits': [(E, '        if gas_phase:\n            return np.max(real_Vm)',
                '        if gas_phase == True:\n            return np.max(real_Vm)')]},
]
EQUIV = [
    {'name': 'ideal get_P rearranged', 'edits': [(E, "return n * c.R('m3 bar/mol/K') * T / V", "return T / V * c.R('m3 bar/mol/K') * n")]},
    # white-box round 2
    {'name': 'builtin max/min of the real roots (B2)',
     'edits': [(E, 'return np.max(real_Vm)', 'return max(real_Vm)'), (E, 'return np.min(real_Vm)', 'return min(real_Vm)')]},
    {'name': 'monic cubic, textbook spelling (B3)',
     'edits': [(E, "P_SI, -(P_SI * self.b + c.R('J/mol/K') * T), self.a,",
                "1., -(self.b + c.R('J/mol/K') * T / P_SI), self.a / P_SI,"),
               (E, '            -self.a * self.b\n', '            -self.a * self.b / P_SI\n')]},
    {'name': 'cubic written in bar',
     'edits': [(E, "P_SI, -(P_SI * self.b + c.R('J/mol/K') * T), self.a,",
                "P, -(P * self.b + c.R('m3 bar/mol/K') * T), self.a * c.convert_unit(initial='Pa', final='bar'),"),
               (E, '            -self.a * self.b\n',
                "            -self.a * self.b * c.convert_unit(initial='Pa', final='bar')\n")]},
    # a gas built from a critical point of the quantifier has a up to 292 and b up to 1.04e-2
    {'name': 'constructor asserts generous unit bounds',
     'edits': [(E, '        self.a = a\n', "        assert 0. < a < 1000., 'a should be in Pa m6/mol2'\n"
                                           "        assert 0. < b < 0.1, 'b should be in m3/mol'\n        self.a = a\n")]},
    {'name': 'positivity check of T and P',
     'edits': [(E, "        P_SI = P * c.convert_unit(initial='bar', final='Pa')\n        Vm = np.roots([",
                "        for val in (T, P):\n            if val <= 0.:\n"
                "                raise ValueError('T and P must be positive')\n"
                "        P_SI = P * c.convert_unit(initial='bar', final='Pa')\n        Vm = np.roots([")]},
    {'name': 'flag through bool()',
     'edits': [(E, '        if gas_phase:\n            return np.max(real_Vm)',
                '        if bool(gas_phase):\n            return np.max(real_Vm)')]},
    # white-box round 3
    {'name': 'roots of the cubic remembered under (a, b, T, P)',
     'edits': [(E, 'class IdealGasEOS(_pmuttBase):', '_vdw_roots = {}\n\n\nclass IdealGasEOS(_pmuttBase):'),
               (E, "        Vm = np.roots([\n            P_SI, -(P_SI * self.b + c.R('J/mol/K') * T), self.a,\n"
                   "            -self.a * self.b\n        ])\n",
                "        key = (self.a, self.b, T, P)\n        if key not in _vdw_roots:\n            _vdw_roots[key] = np.roots([\n"
                "                P_SI, -(P_SI * self.b + c.R('J/mol/K') * T), self.a, -self.a * self.b])\n"
                "        Vm = _vdw_roots[key]\n")]},
    {'name': 'critical temperature cached on the object, setters of a and b drop it',
     'edits': [(E, '        self.a = a\n        self.b = b\n',
                '        self._Tc = None\n        self.a = a\n        self.b = b\n\n'
                '    @property\n    def a(self):\n        return self._a\n\n'
                '    @a.setter\n    def a(self, val):\n        self._a = val\n        self._Tc = None\n\n'
                '    @property\n    def b(self):\n        return self._b\n\n'
                '    @b.setter\n    def b(self, val):\n        self._b = val\n        self._Tc = None\n\n'
                "    def to_dict(self):\n        return {'class': str(self.__class__), 'a': self.a, 'b': self.b}\n"),
               (E, "        return 8. * self.a / 27. / self.b / c.R('J/mol/K')",
                "        if self._Tc is None:\n            self._Tc = 8. * self.a / 27. / self.b / c.R('J/mol/K')\n"
                "        return self._Tc")]},
    {'name': 'a and b read-only (nothing can go stale)',
     'edits': [(E, '        self.a = a\n        self.b = b\n', '        self._a = a\n        self._b = b\n\n'
                '    @property\n    def a(self):\n        return self._a\n\n'
                '    @property\n    def b(self):\n        return self._b\n\n'
                "    def to_dict(self):\n        return {'class': str(self.__class__), 'a': self.a, 'b': self.b}\n")]},
    {'name': 'assert that the cubic has a real root (Bx1)',
     'edits': [(E, '        if gas_phase:\n            return np.max(real_Vm)',
                "        assert len(real_Vm) >= 1, 'a cubic has at least one real root'\n"
                '        if gas_phase:\n            return np.max(real_Vm)')]},
    {'name': 'guards at the closed ends of the box',
     'edits': [(E, "        P_SI = P * c.convert_unit(initial='bar', final='Pa')\n        Vm = np.roots([",
                "        if T < 50. or P > 1000.:\n            raise ValueError('outside the fitted range')\n"
                "        P_SI = P * c.convert_unit(initial='bar', final='Pa')\n        Vm = np.roots([")]},
    # spellings that have the same value in the tables of pmutt.constants
    {'name': 'get_T: bar to Pa as the literal 1.e5',
     'edits': [(E, "        return (P*c.convert_unit(initial='bar', final='Pa') + self.a/Vm**2) \\\n",
                "        return (P*1.e5 + self.a/Vm**2) \\\n")]},
    {'name': 'cubic over R in kJ times 1000',
     'edits': [(E, "P_SI, -(P_SI * self.b + c.R('J/mol/K') * T), self.a,",
                "P_SI, -(P_SI * self.b + c.R('kJ/mol/K') * 1000. * T), self.a,")]},
    {'name': 'cubic over the literal 8.3144598',
     'edits': [(E, "P_SI, -(P_SI * self.b + c.R('J/mol/K') * T), self.a,",
                "P_SI, -(P_SI * self.b + 8.3144598 * T), self.a,")]},
    {'name': 'cubic over R in cal times the calorie, everywhere the same',
     'edits': [(E, "c.R('J/mol/K')", "(c.R('cal/mol/K') * c.convert_unit(initial='cal', final='J'))", 0, k)
               for k in (6, 5, 4, 3, 2, 1)]},
] + EQUIV_ROUND2
