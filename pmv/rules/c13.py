"""C13 - pressure and coverage corrections are added exactly once per attached model."""
from fractions import Fraction as Fr

from ..nf import Rat, C
from ..source import Unsupported, AnchorError
from ..xlate import Interp, Frame, Obj, ListV, DictV, Raised, SumV, Elem, RankOrder, _RaisedExc
from .rxnfix import set_public, get_public
from .common import same, show, coeff_vector, attached_models, attached_sum, sel_opaque, sub

NASA = 'pmutt.empirical.nasa'
SHO = 'pmutt.empirical.shomate'
GPA = 'pmutt.empirical.GasPressureAdj'
QS = ('CpoR', 'HoRT', 'SoR', 'GoRT')
# getter with units -> (dimensionless quantity, unit handed over, multiplied by T)
DIM = {'Cp': ('CpoR', 'kJ/mol/K', False), 'H': ('HoRT', 'kJ/mol', True), 'S': ('SoR', 'kJ/mol/K', False),
       'G': ('GoRT', 'kJ/mol', True)}


def species_obj(I, repo, kind, misc):
    D = I.D
    if kind == 'Nasa':
        o = Obj('sp', repo.cls(NASA + '.Nasa'), attrs={'a_low': coeff_vector(I, 'lo', 7),
                                                      'a_high': coeff_vector(I, 'hi', 7)})
    elif kind == 'Nasa9':
        seg = Obj('seg0', repo.cls(NASA + '.SingleNasa9'), attrs={'a': coeff_vector(I, 's', 9)})
        o = Obj('sp', repo.cls(NASA + '.Nasa9'))
        set_public(I, o, 'nasas', ListV([seg]))
    else:
        o = Obj('sp', repo.cls(SHO + '.Shomate'), attrs={'a': coeff_vector(I, 'a', 8)})
        set_public(I, o, 'units', 'J/mol/K')
    o.attrs.update({'name': 'sp', 'misc_models': misc})
    sel_opaque(o)
    return o


def bare(I, repo, kind, o, q, T):
    """polynomial value without attached models"""
    if kind == 'Nasa':
        m = repo.module(NASA)
        f = lambda qq: I.call_function(m, m.functions['get_nasa_' + qq], [], {'a': o.attrs['a_low'], 'T': T})
    elif kind == 'Nasa9':
        m = repo.module(NASA)
        f = lambda qq: I.call_function(m, m.functions['get_nasa9_' + qq], [],
                                       {'a': get_public(I, o, 'nasas').items[0].attrs['a'], 'T': T})
    else:
        m = repo.module(SHO)

        def f(qq):
            arr = ListV([T])
            arr.is_array = True
            r = I.call_function(m, m.functions['get_shomate_' + qq], [], {'a': o.attrs['a'], 'T': arr,
                                                                         'units': 'J/mol/K'})
            return r.items[0]
    if q == 'GoRT':
        return f('HoRT') - f('SoR')
    return f(q)


def ranks(n):
    r = {'sp.T_low': 1, 'sp.T_mid': 50, 'sp.T_high': 90, 'seg0.T_low': 1, 'seg0.T_high': 90, 'T': 10}
    for i in range(n):
        r['T%d' % i] = 10 + i
    return r


def summation(run, repo, max_len):
    """0-3 attached models (uninterpreted getters that record their arguments), through the package's own
    aggregation: value = bare + sum over models, per element"""
    n = 0
    for kind in ('Nasa', 'Nasa9', 'Shomate'):
        for q in QS + tuple(DIM):
          # the getters with units (fixed unit: the conversion itself is C04's subject) with two attached models
          for k in ((2, 0, 1, 3)[:4 if max_len > 3 else 3] if q in QS else (2,)):
            I = Interp(repo, order=RankOrder(ranks(max_len)))
            D = I.D
            P, x = D.sym('P'), D.sym('x')
            misc = attached_models(I, k, params=('T', 'P', 'x'))
            o = species_obj(I, repo, kind, misc)
            owner, fn = repo.find_method(o.ci, 'get_' + q)
            run.fn(owner.qual + '.get_' + q)
            con = '%s.get_%s' % (kind, q)
            tag = '' if k == 2 else ' (%d attached)' % k
            extra = {}
            if q in DIM:
                # documented attribute of every species; no composition: molar units only
                o.attrs['elements'] = None
                extra = {'units': DIM[q][1]}
            dimtxt = 'R%s (units=%r) times ' % ('*T' if DIM[q][2] else '', DIM[q][1]) if q in DIM else ''

            def flat(v):
                if isinstance(v, SumV):
                    return v.scalar + v.elem if v.elem.iszero() else v
                return v

            def want_at(Tv):
                if q in DIM:
                    q0, u, timesT = DIM[q]
                    if q0 == 'GoRT':
                        v = (bare(I, repo, kind, o, 'HoRT', Tv) + attached_sum(I, misc, 'HoRT', T=Tv, P=P, x=x)) - \
                            (bare(I, repo, kind, o, 'SoR', Tv) + attached_sum(I, misc, 'SoR', T=Tv, P=P, x=x))
                    else:
                        v = bare(I, repo, kind, o, q0, Tv) + attached_sum(I, misc, q0, T=Tv, P=P, x=x)
                    # R in the requested molar unit, written out: kb * Na * (J -> unit)
                    v = v * D.sym('kb') * D.sym('Na') * I.unit(u.split('/')[0])
                    return v * Tv if timesT else v
                if q == 'GoRT':
                    return (bare(I, repo, kind, o, 'HoRT', Tv) + attached_sum(I, misc, 'HoRT', T=Tv, P=P, x=x)) - \
                        (bare(I, repo, kind, o, 'SoR', Tv) + attached_sum(I, misc, 'SoR', T=Tv, P=P, x=x))
                return bare(I, repo, kind, o, q, Tv) + attached_sum(I, misc, q, T=Tv, P=P, x=x)
            # scalar
            T = D.sym('T')
            got = flat(I.call_method(o, 'get_' + q, [], dict({'T': T, 'P': P, 'x': x}, **extra)))
            run.check(same(got, want_at(T)), 'BRANCH-TWIN.scalar', con, 'scalar T' + tag,
                      'value at a scalar temperature is %s, expected %sthe bare polynomial plus the sum over every '
                      'attached model at the same T and conditions' % (show(got, 200), dimtxt), owner.module, fn,
                      sample=('%s(T,units,P,x) == R%s * (poly(T) + sum_models model.get_%s(T,P,x))'
                              % (con, '*T' if DIM[q][2] else '', DIM[q][0]) if q in DIM else
                              '%s(T,P,x) == poly(T) + sum_models model.get_%s(T,P,x)' % (con, q)) if k == 2 else None)
            n += 1
            # arrays
            bad = None
            for L in range(1, max_len + 1):
                Ts = [D.sym('T%d' % i) for i in range(L)]
                arr = ListV(list(Ts))
                arr.is_array = True
                got = I.call_method(o, 'get_' + q, [], dict({'T': arr, 'P': P, 'x': x}, **extra))
                if L == 1 and isinstance(got, (Rat, SumV)):
                    got = ListV([got])
                ok = isinstance(got, ListV) and len(got) == L and \
                    all(same(flat(g), want_at(t)) for g, t in zip(got.items, Ts))
                n += 1
                if ok:
                    run.ok('BRANCH-TWIN.array', con)
                elif bad is None:
                    bad = (L, got)
            if bad is not None:
                run.fail('BRANCH-TWIN.array', con, 'array T' + tag,
                         'for an array of %d temperatures the result %s is not, element by element, %sthe bare '
                         'polynomial plus the sum over every attached model evaluated at that element\'s temperature'
                         % (bad[0], show(bad[1], 260), dimtxt), owner.module, fn)
    return n


# forms of the misc_models argument: the pressure adjustment (object, or the dictionary to_dict writes for it) absent,
# alone, behind, ahead of and between other models
FORMS = ('None', '[]', '[cov]', '[adj]', '[cov,adj]', '[entry]', '[cov,entry]', '[adj,cov]', '[entry,cov]',
         '[cov,adj,cov]', '[cov,cov]', '[cov,entry,cov]')


def misc_of(I, repo, fr, form, real_cov=False):
    """the misc_models argument spelled by `form`"""
    if form == 'None':
        return None
    D = I.D
    out = []
    for j, tok in enumerate(t for t in form.strip('[]').split(',') if t):
        if tok == 'cov' and real_cov:
            out.append(fr.apply(repo.cls('pmutt.mixture.cov.PiecewiseCovEffect'), [],
                                {'name_i': 'sp', 'name_j': 'B%d' % j, 'intervals': ListV([C(0), D.sym('b1')]),
                                 'slopes': ListV([D.sym('k0_%d' % j), D.sym('k1_%d' % j)])}, None))
        elif tok == 'cov':
            out.append(Obj('cov%d' % j, repo.cls('pmutt.mixture.cov.PiecewiseCovEffect'), attrs={'name_j': 'B%d' % j}))
        elif tok == 'adj':
            out.append(fr.apply(repo.cls(GPA), [], {}, None))
        elif tok == 'entry':
            out.append(DictV({'class': "<class 'pmutt.empirical.GasPressureAdj'>"}))
        else:
            raise AnchorError('form %s' % form)
    return ListV(out)


def attachment(run, repo):
    """which species carry a GasPressureAdj after construction"""
    n = 0
    gci = repo.cls(GPA)
    eci = repo.cls('pmutt.empirical.EmpiricalBase')
    owner, fn = repo.find_method(eci, '__init__')
    run.fn(owner.qual + '.__init__')
    for phase in ('g', 'gas', 'G', 'Gas', 'GAS', 's', 'S', 'l', None):
        gas = phase is not None and phase.lower() in ('g', 'gas')
        for form in FORMS:
            for add in (True, False):
                if 'entry' in form and (not add or not gas):
                    # the serialised form is only produced by to_dict of a gas species and re-enters through
                    # from_dict (default add_gas_P_adj); other combinations are not library paths
                    continue
                I = Interp(repo)
                fr = Frame(I, repo.module('pmutt'), {}, None, None)
                misc = misc_of(I, repo, fr, form)
                o = Obj('sp', eci, closed=True)
                r = I.call_method(o, '__init__', [], {'name': 'sp', 'phase': phase, 'misc_models': misc,
                                                      'add_gas_P_adj': add})
                key = 'phase=%r misc=%s add_gas_P_adj=%s' % (phase, form, add)
                if isinstance(r, Raised):
                    run.fail('PATH.attach', 'EmpiricalBase.__init__', key, 'constructor raises %s' % r.exc,
                             owner.module, fn)
                    continue
                mm = o.attrs.get('misc_models')
                items = mm.items if isinstance(mm, ListV) else []
                n_adj = len([m_ for m_ in items if isinstance(m_, Obj) and m_.ci is gci])
                n_dict = len([m_ for m_ in items if isinstance(m_, DictV)])
                supplied = form.count('adj') + form.count('entry')
                if gas and add:
                    want = 1
                elif gas and not add:
                    want = supplied          # the user disabled the automatic one
                else:
                    want = form.count('adj')
                n += 1
                # one finding per (gas?, add?) class of outcome
                okey = '%s species, add_gas_P_adj=%s' % ('gas' if gas else 'non-gas', add)
                run.check(n_adj == want and (n_dict == 0 or not gas), 'PATH.attach', 'EmpiricalBase.__init__', okey,
                          '[%s] the species ends up with %d pressure adjustment(s)%s, expected %d: a gas-phase species '
                          'carries exactly one unless the user disables it, other phases none'
                          % (key, n_adj, ' and %d undecoded dictionary entries' % n_dict if n_dict else '', want),
                          owner.module, fn, sample=key + ' -> %d adjustment(s)' % n_adj if form == '[cov]' else None)
                # the other attached models are kept, once, in order
                others = [m_ for m_ in items if isinstance(m_, Obj) and m_.ci is not gci]
                run.check(len(others) == form.count('cov'), 'PATH.attach', 'EmpiricalBase.__init__',
                          okey + ' / other models', '[%s] other attached models are not kept exactly once' % key,
                          owner.module, fn)
    return n


def real_models(run, repo):
    """real GasPressureAdj and PiecewiseCovEffect through the real aggregation over misc_models"""
    n = 0
    for kind in ('Nasa', 'Nasa9', 'Shomate'):
        I = Interp(repo, order=RankOrder(dict(ranks(2), xcov=1, b1=5), const_ranks=True))
        D = I.D
        fr = Frame(I, repo.module('pmutt'), {}, None, None)
        adj = fr.apply(repo.cls(GPA), [], {}, None)
        cov = fr.apply(repo.cls('pmutt.mixture.cov.PiecewiseCovEffect'), [],
                       {'name_i': 'sp', 'name_j': 'B', 'intervals': ListV([C(0), D.sym('b1')]),
                        'slopes': ListV([D.sym('k0'), D.sym('k1')])}, None)
        T, P, x = D.sym('T'), D.sym('P'), D.sym('xcov')
        for order_ in ((adj, cov), (cov, adj)):
            o = species_obj(I, repo, kind, ListV(list(order_)))
            Rk = D.sym('kb') * D.sym('Na') * D.sym('U<kcal>')
            covU = D.sym('k0') * x / (Rk * T)
            exp = {'CpoR': bare(I, repo, kind, o, 'CpoR', T),
                   'HoRT': bare(I, repo, kind, o, 'HoRT', T) + covU,
                   'SoR': bare(I, repo, kind, o, 'SoR', T) - D.ln(P)}
            exp['GoRT'] = exp['HoRT'] - exp['SoR']
            for q in QS:
                owner, fn = repo.find_method(o.ci, 'get_' + q)
                got = I.call_method(o, 'get_' + q, [], {'T': T, 'P': P, 'x': x})
                if isinstance(got, SumV):
                    got = got.scalar + got.elem if got.elem.iszero() else got
                run.check(same(got, exp[q]), 'REF.corrections', '%s.get_%s' % (kind, q),
                          'pressure+coverage',
                          'with a pressure adjustment and a coverage effect attached (order %s) the value is %s, '
                          'expected polynomial %s' % ('adj,cov' if order_[0] is adj else 'cov,adj', show(got, 200),
                                                      {'CpoR': '(unchanged)', 'HoRT': '+ coverage energy/RT',
                                                       'SoR': '- ln(P/bar)', 'GoRT': '+ coverage energy/RT + ln P'}[q]),
                          owner.module, fn,
                          sample='%s.get_%s with [GasPressureAdj, PiecewiseCovEffect]' % (kind, q))
                n += 1
    # several coverage effects, each addressed through its own per-species keyword block, in both orders: every
    # model must see its own species' coverage (conditions of one model must not leak into the next)
    for kind in ('Nasa', 'Nasa9', 'Shomate'):
        I = Interp(repo, order=RankOrder(dict(ranks(2), xB=1, xC=1, xD=1, bB=5, bC=5, bD=5), const_ranks=True))
        D = I.D
        fr = Frame(I, repo.module('pmutt'), {}, None, None)
        T, P = D.sym('T'), D.sym('P')
        covs = {}
        # names of real adsorbates: one is a prefix of another, one is a suffix-free part of both
        NAME = {'B': 'CO', 'C': 'CO2', 'D': 'O'}
        for j in ('B', 'C', 'D'):
            covs[j] = fr.apply(repo.cls('pmutt.mixture.cov.PiecewiseCovEffect'), [],
                               {'name_i': 'sp', 'name_j': NAME[j], 'intervals': ListV([C(0), D.sym('b' + j)]),
                                'slopes': ListV([D.sym('k0' + j), D.sym('k1' + j)])}, None)
        Rk = D.sym('kb') * D.sym('Na') * D.sym('U<kcal>')
        for order_ in (('B', 'C'), ('C', 'B'), ('D', 'B', 'C'), ('C', 'D', 'B')):
            o = species_obj(I, repo, kind, ListV([covs[j] for j in order_]))
            blocks = {'%s_kwargs' % NAME[j]: DictV({'x': D.sym('x' + j)}) for j in order_}
            want = bare(I, repo, kind, o, 'HoRT', T)
            for j in order_:
                want = want + D.sym('k0' + j) * D.sym('x' + j) / (Rk * T)
            owner, fn = repo.find_method(o.ci, 'get_HoRT')
            got = I.call_method(o, 'get_HoRT', [], dict({'T': T, 'P': P}, **blocks))
            if isinstance(got, SumV):
                got = got.scalar + got.elem if got.elem.iszero() else got
            run.check(same(got, want), 'REF.corrections', '%s.get_HoRT' % kind, 'coverage effects of several species',
                      'with coverage effects of species %s attached and each coverage given in its own '
                      '<name>_kwargs block the value is %s, expected polynomial + sum_j slope_j*x_j/RT'
                      % (','.join(NAME[j] for j in order_), show(got, 240)), owner.module, fn)
            run.check(all(sorted(b.d) == ['x'] for b in blocks.values()), 'EFFECT.caller-dict', '%s.get_HoRT' % kind,
                      'per-species blocks', 'a caller-supplied per-species dictionary was modified', owner.module, fn)
            n += 2
    return n


def reload_path(run, repo):
    """direct from_dict(to_dict()) cycles keep attached models as objects"""
    from .c11 import builders, Problem
    n = 0
    order = RankOrder({'w0': 5, 'w1': 7, 'b1': 3}, const_ranks=True)
    for label in ('Nasa[surface+cov]', 'Nasa[gas]', 'Nasa[gas, adjustment disabled]', 'Nasa9', 'Nasa9[gas+cov]', 'Shomate', 'Shomate[surface+cov]',
                  'StatMech[references+misc]'):
        I = Interp(repo, order=order)
        bs = dict(builders(I, repo))
        if label not in bs:
            raise AnchorError('builder %s missing' % label)
        obj = bs[label]()
        ci = obj.ci
        owner, fn = repo.find_method(ci, 'from_dict')
        run.fn(owner.qual + '.from_dict')
        cur = obj
        for cycle in (1, 2):
            d = I.call_method(cur, 'to_dict', [], {})
            if not isinstance(d, DictV):
                run.fail('TABLE.reload', ci.name + '.to_dict', 'cycle', 'to_dict fails in cycle %d (%s)'
                         % (cycle, show(d)), owner.module, fn)
                break
            new = I.call_function(owner.module, fn, [], {'json_obj': d}, self_obj=ci, owner=owner)
            if not isinstance(new, Obj):
                run.fail('TABLE.reload', ci.name + '.from_dict', 'cycle', 'from_dict(to_dict()) fails in cycle %d (%s)'
                         % (cycle, show(new)), owner.module, fn)
                break
            mm0, mm1 = obj.attrs.get('misc_models'), new.attrs.get('misc_models')
            n0 = len(mm0.items) if isinstance(mm0, ListV) else 0
            items = mm1.items if isinstance(mm1, ListV) else []
            ok = len(items) == n0 and all(isinstance(m_, Obj) for m_ in items) and \
                all(a.ci is b.ci for a, b in zip(mm0.items if n0 else [], items))
            if 'disabled' in label:
                key_ = 'disabled adjustment stays disabled'
                why_ = ('a gas species built with add_gas_P_adj=False carries %d attached model(s) after %d '
                        'to_dict/from_dict cycle(s): the option is not serialised, so the reload re-attaches a '
                        'pressure adjustment' % (len(items), cycle))
            else:
                key_ = 'attached models'
                why_ = None
            run.check(ok, 'TABLE.reload', ci.name + '.from_dict', key_, why_ or
                      'after %d direct to_dict/from_dict cycle(s) the attached models are %s instead of the %d model '
                      'object(s) of the original (dictionaries are not models: the corrections are lost or the getters '
                      'raise)' % (cycle, show(mm1, 120), n0), owner.module, fn,
                      sample='%s: from_dict(to_dict()) keeps %d attached model object(s)' % (label, n0))
            n += 1
            cur = new
    return n


def check(run, repo):
    run.explanation = (
        'Nasa, Nasa9 and Shomate getters are interpreted abstractly (a) with 0-3 attached models whose getters are '
        'uninterpreted and record their arguments, through the package\'s own aggregation: for scalar T and arrays of 1-3 (thorough 1-5) temperatures every element is '
        'the bare polynomial plus the sum over all attached models evaluated at that element\'s temperature and the '
        'same conditions; (b) with a real GasPressureAdj and a real PiecewiseCovEffect through the real '
        'aggregation in both orders: S = poly - ln P, H = poly + coverage energy/RT, Cp unchanged, G = H - S. '
        'EmpiricalBase.__init__ is interpreted for 9 phase spellings x 7 forms of misc_models (none, empty, other '
        'models, adjustment present as object or as its serialised dictionary) x add_gas_P_adj on/off and the number '
        'of pressure adjustments in the result is counted. Direct to_dict/from_dict cycles (twice) must keep the '
        'attached models as objects.')
    run.assumptions = ['attached models are arbitrary objects with the getter interface (uninterpreted in (a))']
    run.undecided = ['coverage model numerics (C17)', 'copying via copy.deepcopy']
    thorough = run.tier == 'thorough'
    n = summation(run, repo, 5 if thorough else 3)
    run.floor('summation instances', n, 48)
    n = real_models(run, repo)
    run.floor('real-model instances', n, 24)
    n = attachment(run, repo)
    run.floor('attachment cases', n, 90)
    n = reload_path(run, repo)
    run.floor('reload instances', n, 6)


E_ = 'pmutt/empirical/__init__.py'
N_ = 'pmutt/empirical/nasa.py'
M_ = 'pmutt/mixture/__init__.py'
MUTANTS = [
    {'name': 'second adjustment appended when one is present', 'expect': ('PATH.attach', ''),
     'edits': [(E_, '                        elif isinstance(model, GasPressureAdj):\n                            break', '                        elif isinstance(model, GasPressureAdj):\n                            pass')]},
    {'name': 'phase test case-sensitive', 'expect': ('PATH.attach', ''),
     'edits': [(E_, "if (self.phase.lower() == 'g' or self.phase.lower() == 'gas'):", "if (self.phase == 'g' or self.phase.lower() == 'gas'):")]},
    {'name': 'Nasa.get_HoRT array branch evaluates models at T not T_i', 'expect': ('BRANCH-TWIN.array', 'Nasa.get_HoRT'),
     'edits': [(N_, "                                               default_value=0.,\n                                               T=T_i,\n                                               **kwargs))\n        else:\n            a = self.get_a(T=T)\n            HoRT",
                "                                               default_value=0.,\n                                               T=T[0],\n                                               **kwargs))\n        else:\n            a = self.get_a(T=T)\n            HoRT")]},
    {'name': 'mix quantity skips the first model', 'expect': ('REF.corrections', ''),
     'edits': [(M_, '    for i, mix_model in enumerate(misc_models):\n        if mix_model is None:', '    for i, mix_model in enumerate(misc_models):\n        if mix_model is None or i == 0:')]},
]
EQUIV = []
