"""C13 - pressure and coverage corrections are added exactly once per attached model."""
from fractions import Fraction as Fr

from ..nf import Rat, C
from ..source import Unsupported, AnchorError
from ..xlate import Interp, Frame, Obj, ListV, DictV, Raised, SumV, Elem, RankOrder, _RaisedExc
from .rxnfix import set_public, get_public
from .common import same, show, coeff_vector, attached_models, attached_sum, sel_opaque, sub, opaque_obj, \
    MIX_QUANTITIES

NASA = 'pmutt.empirical.nasa'
SHO = 'pmutt.empirical.shomate'
GPA = 'pmutt.empirical.GasPressureAdj'
QS = ('CpoR', 'HoRT', 'SoR', 'GoRT')
# getter with units -> (dimensionless quantity, unit handed over, multiplied by T)
DIM = {'Cp': ('CpoR', 'kJ/mol/K', False), 'H': ('HoRT', 'kJ/mol', True), 'S': ('SoR', 'kJ/mol/K', False),
       'G': ('GoRT', 'kJ/mol', True)}


PHASES = (None, 'S', 'G')


def temps(items):
    """an array of temperatures as the caller hands it over (its element type is the caller's)"""
    arr = ListV(list(items))
    arr.is_array = True
    arr.dtype = 'caller'
    return arr


def species_obj(I, repo, kind, misc, phase=None, add=None, tag='', nseg=1, more=None):
    """a species built by its PUBLIC constructor (every attribute has the value the constructor gives it, the defaults
    included); returns the object and the coefficient vectors the rule handed over.  tag: a second species of the same
    interpreter (other name, other coefficients); nseg=2: a NASA-9 species of two segments that meet at sp.T_mid;
    more: further documented constructor arguments (model=, cat_site=, n_sites=)"""
    D = I.D
    fr = Frame(I, repo.module('pmutt'), {}, None, None)
    kw = {'name': 'sp' + tag, 'phase': phase, 'misc_models': misc}
    if add is not None:
        kw['add_gas_P_adj'] = add
    kw.update(more or {})
    if kind == 'Nasa':
        co = {'lo': coeff_vector(I, tag + 'lo', 7), 'hi': coeff_vector(I, tag + 'hi', 7)}
        kw.update({'T_low': D.sym('sp.T_low'), 'T_mid': D.sym('sp.T_mid'), 'T_high': D.sym('sp.T_high'),
                   'a_low': ListV(list(co['lo'].items)), 'a_high': ListV(list(co['hi'].items))})
        qual = NASA + '.Nasa'
    elif kind == 'Nasa9':
        co = {'lo': coeff_vector(I, tag + 's', 9)}
        if nseg == 1:
            bounds = [('seg0.T_low', 'seg0.T_high')]
        else:
            co['hi'] = coeff_vector(I, tag + 's1', 9)
            bounds = [('seg0.T_low', 'sp.T_mid'), ('sp.T_mid', 'seg1.T_high')]
        segs = [fr.apply(repo.cls(NASA + '.SingleNasa9'), [],
                         {'T_low': D.sym(lo_), 'T_high': D.sym(hi_), 'a': ListV(list(co[c_].items))}, None)
                for (lo_, hi_), c_ in zip(bounds, ('lo', 'hi'))]
        kw['nasas'] = ListV(segs)
        qual = NASA + '.Nasa9'
    else:
        co = {'a': coeff_vector(I, tag + 'a', 8)}
        kw.update({'T_low': D.sym('sp.T_low'), 'T_high': D.sym('sp.T_high'), 'a': ListV(list(co['a'].items)),
                   'units': 'J/mol/K'})
        qual = SHO + '.Shomate'
    try:
        o = fr.apply(repo.cls(qual), [], kw, None)
    except _RaisedExc as e:
        raise Unsupported('%s(phase=%r, ...) raises %s for the model species' % (kind, phase, e.raised.exc))
    sel_opaque(o)
    return o, co


def bare(I, repo, kind, co, q, T, hi=False):
    """polynomial value without attached models, from the coefficients the rule handed to the constructor (hi: T is
    above T_mid, a NASA-7 species answers from its high-temperature coefficients)"""
    memo = co.setdefault('memo', {})
    k_ = (q, repr(T), hi)
    if k_ not in memo:
        memo[k_] = _bare(I, repo, kind, co, q, T, hi)
    return memo[k_]


def module_function(repo, modname, fname):
    """the function a user reaches as <modname>.<fname>: defined in that module or imported into it"""
    m = repo.module(modname)
    r = repo.lookup(m, fname)
    if not (isinstance(r, tuple) and r[0] == 'function'):
        raise AnchorError('%s.%s is not a function of the package' % (modname, fname))
    return r[1], r[2]


def _bare(I, repo, kind, co, q, T, hi):
    def call(modname, fname, kw):
        m, fn = module_function(repo, modname, fname)
        try:
            r = I.call_function(m, fn, [], kw)
        except _RaisedExc as e:
            r = e.raised
        if isinstance(r, Raised):
            # the polynomial itself is C02's subject; without its value there is nothing to add the models to
            raise Unsupported('%s.%s raises %s for the model coefficients' % (modname, fname, r.exc))
        return r
    if kind == 'Nasa':
        f = lambda qq: call(NASA, 'get_nasa_' + qq, {'a': co['hi' if hi else 'lo'], 'T': T})
    elif kind == 'Nasa9':
        # a species of one segment answers every temperature from it
        f = lambda qq: call(NASA, 'get_nasa9_' + qq, {'a': co['hi' if hi and 'hi' in co else 'lo'], 'T': T})
    else:
        def f(qq):
            arr = ListV([T])
            arr.is_array = True
            r = call(SHO, 'get_shomate_' + qq, {'a': co['a'], 'T': arr, 'units': 'J/mol/K'})
            return r.items[0]
    if q == 'GoRT':
        return f('HoRT') - f('SoR')
    return f(q)


def ranks(n):
    # Tn / Tx: below and above the fitted range
    r = {'sp.T_low': 1, 'sp.T_mid': 50, 'sp.T_high': 90, 'seg0.T_low': 1, 'seg0.T_high': 90, 'seg1.T_high': 90, 'T': 10,
         'Tu': 60, 'Td': 5, 'Tn': Fr(1, 2), 'Tx': 95}
    for i in range(n):
        r['T%d' % i] = 10 + Fr(i, 2)        # up to 50 values below T_mid
    return r


def fitted_model(I):
    """what from_model leaves in the species' documented `model` attribute: the model the polynomial was fitted to, an
    arbitrary object with the getter interface (uninterpreted; every answer names the getter and its arguments)"""
    m = opaque_obj(I, 'fitted', {g: ('T',) for g in MIX_QUANTITIES})
    m.attrs.update({'name': 'sp', 'elements': None})
    return m


def ask(I, o, name, kw):
    """o.name(**kw): the value, or the exception it raises"""
    try:
        return I.call_method(o, name, [], kw)
    except _RaisedExc as e:
        return e.raised


def summation(run, repo, max_len, thorough=False):
    """0-3 attached models (uninterpreted getters that record their arguments), through the package's own
    aggregation: value = bare + sum over models, per element.  The species is built by its public constructor without
    a phase (the default), as a surface species and as a gas species (which attaches its own pressure adjustment
    behind the models handed over: S gets - ln P on top)."""
    n = 0
    for kind in ('Nasa', 'Nasa9', 'Shomate'):
        for qi, q in enumerate(QS + tuple(DIM)):
          # the getters with units (fixed unit: the conversion itself is C04's subject) with two attached models
          for k in ((2, 0, 1, 3)[:4 if max_len > 3 else 3] if q in QS else (2,)):
           # quick: every phase with two models on the dimensionless getters, one phase (rotating) otherwise
           for phase in (PHASES if thorough or (k == 2 and q in QS) else (PHASES[(qi + k) % 3],)):
            I = Interp(repo, order=RankOrder(ranks(50 if thorough else max_len)))
            D = I.D
            P, x = D.sym('P'), D.sym('x')
            models = attached_models(I, k, params=('T', 'P', 'x'))
            # no models: not given at all (the default) / an empty list
            misc = ListV(list(models.items)) if k or phase == 'S' else None
            # the instance with one attached model: the documented constructor arguments that have nothing to do with
            # the value are given too (the model the species was fitted to, as from_model stores it; a catalyst site;
            # two sites) - every other instance leaves them at their defaults
            more = None
            if k == 1:
                more = {'model': fitted_model(I), 'n_sites': C(2), 'elements': DictV({'H': C(2), 'O': C(1)})}
                if kind == 'Nasa':
                    more['cat_site'] = Obj('site')
            # a NASA-9 species of two segments that meet at sp.T_mid (one segment: real_models, numeric_pressure)
            o, co = species_obj(I, repo, kind, misc, phase, nseg=2, more=more)
            own = phase == 'G'          # the constructor attached a pressure adjustment of its own
            owner, fn = repo.find_method(o.ci, 'get_' + q)
            run.fn(owner.qual + '.get_' + q)
            con = '%s.get_%s' % (kind, q)
            tag = ('' if k == 2 else ' (%d attached)' % k) + \
                ('' if phase is None else ', surface species' if phase == 'S' else ', gas species')
            extra = {}
            if q in DIM:
                # no composition (the default): molar units only
                extra = {'units': DIM[q][1]}
            dimtxt = 'R%s (units=%r) times ' % ('*T' if DIM[q][2] else '', DIM[q][1]) if q in DIM else ''
            owntxt = ' and of the gas species\' own pressure adjustment (S: - ln P)' if own else ''

            def flat(v):
                if isinstance(v, SumV):
                    return v.scalar + v.elem if v.elem.iszero() else v
                return v

            def dimless(q0, Tv, hi=False):
                if q0 == 'GoRT':
                    return dimless('HoRT', Tv, hi) - dimless('SoR', Tv, hi)
                v = bare(I, repo, kind, co, q0, Tv, hi) + attached_sum(I, models, q0, T=Tv, P=P, x=x)
                if own and q0 == 'SoR':
                    v = v - D.ln(P)
                return v

            def want_at(Tv, hi=False):
                if q in DIM:
                    q0, u, timesT = DIM[q]
                    # R in the requested molar unit, written out: kb * Na * (J -> unit)
                    v = dimless(q0, Tv, hi) * D.sym('kb') * D.sym('Na') * I.unit(u.split('/')[0])
                    return v * Tv if timesT else v
                return dimless(q, Tv, hi)
            # scalar
            T = D.sym('T')
            got = flat(ask(I, o, 'get_' + q, dict({'T': T, 'P': P, 'x': x}, **extra)))
            run.check(same(got, want_at(T)), 'BRANCH-TWIN.scalar', con, 'scalar T' + tag,
                      'value at a scalar temperature is %s, expected %sthe bare polynomial plus the sum over every '
                      'attached model at the same T and conditions%s' % (show(got, 200), dimtxt, owntxt),
                      owner.module, fn,
                      sample=('%s(T,units,P,x) == R%s * (poly(T) + sum_models model.get_%s(T,P,x))'
                              % (con, '*T' if DIM[q][2] else '', DIM[q][0]) if q in DIM else
                              '%s(T,P,x) == poly(T) + sum_models model.get_%s(T,P,x)' % (con, q))
                      if k == 2 and phase is None else None)
            n += 1
            # arrays
            bad = None
            # quick: the two extra phases of the two-model instance with an array of two temperatures only
            # thorough: the longest array of the quantifier (50 temperatures) once per species class and getter
            long_ = (50,) if thorough and k == 2 and phase is None and q in QS else ()
            for L in (tuple(range(1, max_len + 1)) + long_ if thorough or phase is None or k != 2 else (2,)):
                Ts = [D.sym('T%d' % i) for i in range(L)]
                arr = temps(Ts)
                got = ask(I, o, 'get_' + q, dict({'T': arr, 'P': P, 'x': x}, **extra))
                if L == 1 and isinstance(got, (Rat, SumV)):
                    got = ListV([got])
                ok = isinstance(got, ListV) and len(got) == L and \
                    all(same(flat(g), want_at(t)) for g, t in zip(got.items, Ts))
                n += 1
                if ok:
                    run.ok('BRANCH-TWIN.array', con)
                elif bad is None:
                    bad = (L, got)
            if k == 2 and (thorough or phase is None):
                # temperatures in no order, one of them twice, on both sides of T_mid (a NASA-7 species answers the
                # upper one from its high-temperature coefficients); the upper one as a scalar as well
                Tu, Td = D.sym('Tu'), D.sym('Td')
                got = flat(ask(I, o, 'get_' + q, dict({'T': Tu, 'P': P, 'x': x}, **extra)))
                run.check(same(got, want_at(Tu, True)), 'BRANCH-TWIN.scalar', con, 'scalar T above T_mid' + tag,
                          'value at a scalar temperature in the upper range is %s, expected %sthe bare polynomial '
                          '(high-temperature coefficients) plus the sum over every attached model at the same T and '
                          'conditions%s' % (show(got, 200), dimtxt, owntxt), owner.module, fn)
                arr = temps([Tu, Td, Tu])
                got = ask(I, o, 'get_' + q, dict({'T': arr, 'P': P, 'x': x}, **extra))
                ok = isinstance(got, ListV) and len(got) == 3 and \
                    all(same(flat(g), want_at(t, h)) for g, t, h in zip(got.items, (Tu, Td, Tu), (True, False, True)))
                run.check(ok, 'BRANCH-TWIN.array', con, 'unordered array T' + tag,
                          'for the temperatures [Tu, Td, Tu] (Td < T_mid < Tu) the result %s is not, element by '
                          'element, %sthe bare polynomial of that element\'s range plus the sum over every attached '
                          'model%s at that element\'s temperature' % (show(got, 260), dimtxt, owntxt), owner.module, fn)
                n += 2
                # a temperature ON the bound two ranges share (T_mid of a NASA-7 species, the common bound of two NASA-9
                # segments), as a scalar and twice in an array between one value of each range: the polynomial of
                # either range is accepted there (the fit is continuous), the attached models count once
                Tb = D.sym('sp.T_mid')

                def at_bound(g):
                    g = flat(g)
                    return same(g, want_at(Tb)) or (kind != 'Shomate' and same(g, want_at(Tb, True)))
                got = ask(I, o, 'get_' + q, dict({'T': Tb, 'P': P, 'x': x}, **extra))
                run.check(at_bound(got), 'BRANCH-TWIN.scalar', con, 'scalar T on the bound of two ranges' + tag,
                          'value at the temperature two ranges share is %s, expected %sthe bare polynomial of one of the '
                          'two ranges plus the sum over every attached model, once, at the same T and conditions%s'
                          % (show(got, 200), dimtxt, owntxt), owner.module, fn)
                arr = temps([Td, Tb, Tu, Tb])
                got = ask(I, o, 'get_' + q, dict({'T': arr, 'P': P, 'x': x}, **extra))
                ok = isinstance(got, ListV) and len(got) == 4 and \
                    same(flat(got.items[0]), want_at(Td)) and same(flat(got.items[2]), want_at(Tu, True)) and \
                    at_bound(got.items[1]) and at_bound(got.items[3])
                run.check(ok, 'BRANCH-TWIN.array', con, 'array T with the bound of two ranges' + tag,
                          'for the temperatures [Td, T_mid, Tu, T_mid] (T_mid: the bound two ranges share) the result %s '
                          'is not, element by element, %sthe bare polynomial of that element\'s range (either range on '
                          'the bound) plus the sum over every attached model%s, once, at that element\'s temperature'
                          % (show(got, 260), dimtxt, owntxt), owner.module, fn)
                n += 2
            if k == 1 or (k == 2 and q in QS and (thorough or phase is None)):
                # temperatures outside the fitted range, above and below, as scalars and as array elements next to
                # one inside: the species extrapolates the polynomial of the nearest range (or refuses: an exception
                # is not a value) - the attached models count there as everywhere else.  k == 1: the species holds
                # the model it was fitted to; k == 2: it holds none (the default)
                held = 'that holds the model it was fitted to' if k == 1 else 'built with the default model=None'
                Tx, Tn, T0 = D.sym('Tx'), D.sym('Tn'), D.sym('T0')
                for Tv, hi_, where in ((Tx, True, 'above T_high'), (Tn, False, 'below T_low')):
                    got = ask(I, o, 'get_' + q, dict({'T': Tv, 'P': P, 'x': x}, **extra))
                    run.check(isinstance(got, Raised) or same(flat(got), want_at(Tv, hi_)), 'BRANCH-TWIN.scalar', con,
                              'scalar T outside the fitted range' + tag,
                              'value at a scalar temperature %s of a species %s is %s, expected %sthe bare polynomial '
                              'plus the sum over every attached model at the same T and conditions%s'
                              % (where, held, show(got, 200), dimtxt, owntxt), owner.module, fn)
                    n += 1
                arr = temps([T0, Tx, Tn])
                got = ask(I, o, 'get_' + q, dict({'T': arr, 'P': P, 'x': x}, **extra))
                ok = isinstance(got, Raised) or (isinstance(got, ListV) and len(got) == 3 and all(
                    same(flat(g), want_at(t, h)) for g, t, h in zip(got.items, (T0, Tx, Tn), (False, True, False))))
                run.check(ok, 'BRANCH-TWIN.array', con, 'array T reaching outside the fitted range' + tag,
                          'for the temperatures [T0, Tx, Tn] (Tn < T_low < T0 < T_high < Tx) of a species %s the result '
                          '%s is not, element by element, %sthe bare polynomial plus the sum over every attached '
                          'model%s at that element\'s temperature' % (held, show(got, 260), dimtxt, owntxt),
                          owner.module, fn)
                n += 1
            if bad is not None:
                run.fail('BRANCH-TWIN.array', con, 'array T' + tag,
                         'for an array of %d temperatures the result %s is not, element by element, %sthe bare '
                         'polynomial plus the sum over every attached model%s evaluated at that element\'s temperature'
                         % (bad[0], show(bad[1], 260), dimtxt, owntxt), owner.module, fn)
    return n


# forms of the misc_models argument: the pressure adjustment (object, or the dictionary to_dict writes for it) absent,
# alone, behind, ahead of and between other models
FORMS = ('None', '[]', '[cov]', '[adj]', '[cov,adj]', '[entry]', '[cov,entry]', '[adj,cov]', '[entry,cov]',
         '[cov,adj,cov]', '[cov,cov]', '[cov,entry,cov]')


def misc_of(I, repo, fr, form):
    """the misc_models argument spelled by `form`"""
    if form == 'None':
        return None
    D = I.D
    out = []
    for j, tok in enumerate(t for t in form.strip('[]').split(',') if t):
        if tok == 'cov':
            out.append(fr.apply(repo.cls('pmutt.mixture.cov.PiecewiseCovEffect'), [],
                                {'name_i': 'sp', 'name_j': 'B%d' % j, 'intervals': ListV([C(0), D.sym('b1')]),
                                 'slopes': ListV([D.sym('k0_%d' % j), D.sym('k1_%d' % j)])}, None))
        elif tok == 'adj':
            out.append(fr.apply(repo.cls(GPA), [], {}, None))
        elif tok == 'entry':
            out.append(DictV({'class': "<class 'pmutt.empirical.GasPressureAdj'>"}))
        else:
            raise AnchorError('form %s' % form)
    return ListV(out)


def attachment(run, repo):
    """which species carry a GasPressureAdj after construction"""
    n = 0
    gci = repo.cls(GPA)
    eci = repo.cls('pmutt.empirical.EmpiricalBase')
    owner, fn = repo.find_method(eci, '__init__')
    run.fn(owner.qual + '.__init__')
    for phase in ('g', 'gas', 'G', 'Gas', 'GAS', 's', 'S', 'l', None):
        gas = phase is not None and phase.lower() in ('g', 'gas')
        for form in FORMS:
            for add in (True, False):
                if 'entry' in form and (not add or not gas):
                    # the serialised form is only produced by to_dict of a gas species and re-enters through
                    # from_dict (default add_gas_P_adj); other combinations are not library paths
                    continue
                I = Interp(repo)
                fr = Frame(I, repo.module('pmutt'), {}, None, None)
                misc = misc_of(I, repo, fr, form)
                key = 'phase=%r misc=%s add_gas_P_adj=%s' % (phase, form, add)
                try:
                    o = fr.apply(eci, [], {'name': 'sp', 'phase': phase, 'misc_models': misc, 'add_gas_P_adj': add},
                                 None)
                except _RaisedExc as e:
                    o = e.raised
                if isinstance(o, Raised):
                    run.fail('PATH.attach', 'EmpiricalBase.__init__', key, 'constructor raises %s' % o.exc,
                             owner.module, fn)
                    continue
                mm = get_public(I, o, 'misc_models')
                items = mm.items if isinstance(mm, ListV) else []
                n_adj = len([m_ for m_ in items if isinstance(m_, Obj) and m_.ci is gci])
                n_dict = len([m_ for m_ in items if isinstance(m_, DictV)])
                supplied = form.count('adj') + form.count('entry')
                if gas and add:
                    want = 1
                elif gas and not add:
                    want = supplied          # the user disabled the automatic one
                else:
                    want = form.count('adj')
                n += 1
                # one finding per (gas?, add?) class of outcome
                okey = '%s species, add_gas_P_adj=%s' % ('gas' if gas else 'non-gas', add)
                run.check(n_adj == want and (n_dict == 0 or not gas), 'PATH.attach', 'EmpiricalBase.__init__', okey,
                          '[%s] the species ends up with %d pressure adjustment(s)%s, expected %d: a gas-phase species '
                          'carries exactly one unless the user disables it, other phases none'
                          % (key, n_adj, ' and %d undecoded dictionary entries' % n_dict if n_dict else '', want),
                          owner.module, fn, sample=key + ' -> %d adjustment(s)' % n_adj if form == '[cov]' else None)
                # the other attached models are kept, once, in order
                others = [m_ for m_ in items if isinstance(m_, Obj) and m_.ci is not gci]
                run.check(len(others) == form.count('cov'), 'PATH.attach', 'EmpiricalBase.__init__',
                          okey + ' / other models', '[%s] other attached models are not kept exactly once' % key,
                          owner.module, fn)
    return n


# Not armed: the unchanged tree fails it (EmpiricalBase.__init__ appends the adjustment to the CALLER's list); see
# /tmp/gaps2/DEFECT2_C13.md.  Set to True once the defect is fixed or recorded as known.
ARM_SHARED_LIST = True


def shared_list(run, repo):
    """histories: two species built on ONE list object, the surface species before or after the gas species.  The gas
    species carries exactly one adjustment, the surface species none - also after the other one was built - and a
    second gas species on the same list exactly one."""
    n = 0
    gci = repo.cls(GPA)

    def n_adj(o):
        mm = get_public(I, o, 'misc_models')
        return len([m_ for m_ in (mm.items if isinstance(mm, ListV) else []) if isinstance(m_, Obj) and m_.ci is gci])
    for kind in ('Nasa', 'Nasa9', 'Shomate'):
        ci = repo.cls((SHO if kind == 'Shomate' else NASA) + '.' + kind)
        owner, fn = repo.find_method(ci, '__init__')
        for form in ('[]', '[cov]'):
            for first in ('S', 'G'):
                I = Interp(repo, order=RankOrder(ranks(2), const_ranks=True))
                fr = Frame(I, repo.module('pmutt'), {}, None, None)
                shared = misc_of(I, repo, fr, form)
                sp = {}
                for phase in (first, 'G' if first == 'S' else 'S'):
                    sp[phase] = species_obj(I, repo, kind, shared, phase)[0]
                sp['G2'] = species_obj(I, repo, kind, shared, 'gas')[0]
                got = (n_adj(sp['S']), n_adj(sp['G']), n_adj(sp['G2']))
                run.check(got == (0, 1, 1), 'PATH.attach', kind + '.__init__',
                          'surface and gas species built with the same list',
                          '[misc=%s, %s species built first] a surface species and two gas species that were handed the '
                          'same list object carry %d, %d and %d pressure adjustment(s), expected 0, 1 and 1: building a '
                          'gas species must not attach an adjustment to another species'
                          % (form, 'surface' if first == 'S' else 'gas', got[0], got[1], got[2]), owner.module, fn)
                n += 1
    return n


# (phase, form of misc_models, add_gas_P_adj or None = not given) -> instances run through every constructor
CTOR_CASES = (('g', 'None', None), ('G', '[cov]', None), ('gas', '[adj,cov]', None), ('g', 'None', True),
              ('g', 'None', False), ('G', '[cov]', False), ('S', '[cov]', None), (None, 'None', None))


def constructors(run, repo, thorough):
    """the same count as `attachment`, on the species returned by every public way of building one: the constructors
    of Nasa, Nasa9 and Shomate and their from_data / from_model (model given as an object and as a class).  The
    least-squares library calls are uninterpreted (pmv/fitmodel.py), the grid of temperatures and the source model's
    answers are data vectors of unknown length."""
    from .. import fitmodel
    n = 0
    gci = repo.cls(GPA)

    def fallback(atom):
        if atom.startswith('AT{'):
            return 5
        if atom.startswith('MEAN{'):
            return 1
        return None

    def source_model(I):
        m = Obj('model')

        def mk(mname):
            def h(I_, obj, args, kwargs):
                T = kwargs.get('T', args[0] if args else None)
                if isinstance(T, Elem):
                    return fitmodel.data_vector(I_, 'cp', 'generic')
                return I_.D.sym('model.%s(%r)' % (mname, T))
            return h
        for q in ('get_CpoR', 'get_HoRT', 'get_SoR'):
            m.opaque_methods[q] = mk(q)
        m.attrs.update({'name': 'sp', 'elements': None})
        m.missing = {'T_low', 'T_high'}
        return m

    for kind, qual in (('Nasa', NASA + '.Nasa'), ('Nasa9', NASA + '.Nasa9'), ('Shomate', SHO + '.Shomate')):
        ci = repo.cls(qual)
        for route in ('__init__', 'from_data', 'from_model', 'from_model[class]'):
            mname = route.split('[')[0]
            owner, fn = repo.find_method(ci, mname)
            run.fn(owner.qual + '.' + mname)
            con = '%s.%s' % (kind, mname)
            # quick: from_data / from_model with four gas cases, a surface species and a species without phase
            for phase, form, add in (CTOR_CASES if thorough or route == '__init__' else CTOR_CASES[1:4] + CTOR_CASES[5:]):
                I = Interp(repo, order=RankOrder({'len<vec>': 1000, 'cp': 1, 'Tm': 3, 'T_ref': 2, 'T_low': 1,
                                                  'T_high': 9}, const_ranks=True, fallback=fallback, witness=True))
                fitmodel.install(I)
                D = I.D
                fr = Frame(I, repo.module('pmutt'), {}, None, None)
                # the grid a constructor lays between T_low and T_high: a data vector like the one handed to from_data
                def grid(I_, fr_, a_, k_, n_):
                    # np.linspace(start, stop, num, endpoint, retstep, dtype, axis): however the bounds and the number
                    # of points are spelled, the grid is a data vector; what changes the kind of result is refused
                    for nm_ in ('start', 'stop', 'num', 'endpoint'):
                        k_.get(nm_)
                    if len(a_) > 4 or k_.get('retstep') not in (None, False) or k_.get('axis') is not None or \
                            k_.get('dtype') is not None:
                        raise Unsupported('np.linspace with retstep / dtype / axis', n_)
                    return fitmodel.data_vector(I_, 'Tdata')
                I.native['numpy.linspace'] = grid
                base_cat = I.native['numpy.concatenate']

                def cat(I_, fr_, a_, k_, n_, base_cat=base_cat):
                    # grids laid end to end are one grid
                    seq = a_[0] if a_ else None
                    if isinstance(seq, ListV) and seq.items and \
                            all(isinstance(v_, fitmodel.DataVec) and same(v_.r, I_.D.sym('Tdata')) for v_ in seq.items):
                        return fitmodel.data_vector(I_, 'Tdata')
                    return base_cat(I_, fr_, a_, k_, n_)
                I.native['numpy.concatenate'] = cat
                opts = {'phase': phase, 'misc_models': misc_of(I, repo, fr, form)}
                if add is not None:
                    opts['add_gas_P_adj'] = add
                empty = ListV([])
                empty.is_array = True
                if route == '__init__':
                    if kind == 'Nasa':
                        kw = {'T_low': D.sym('T_low'), 'T_mid': D.sym('Tm'), 'T_high': D.sym('T_high'),
                              'a_low': coeff_vector(I, 'lo', 7), 'a_high': coeff_vector(I, 'hi', 7)}
                    elif kind == 'Nasa9':
                        seg = fr.apply(repo.cls(NASA + '.SingleNasa9'), [],
                                       {'T_low': D.sym('T_low'), 'T_high': D.sym('T_high'),
                                        'a': coeff_vector(I, 's', 9)}, None)
                        kw = {'nasas': ListV([seg])}
                    else:
                        kw = {'T_low': D.sym('T_low'), 'T_high': D.sym('T_high'), 'a': coeff_vector(I, 'a', 8),
                              'units': 'J/mol/K'}
                elif route == 'from_data':
                    kw = {'T': fitmodel.data_vector(I, 'Tdata'), 'CpoR': fitmodel.data_vector(I, 'cp', 'generic'),
                          'T_ref': D.sym('T_ref'), 'HoRT_ref': D.sym('HoRT_ref'), 'SoR_ref': D.sym('SoR_ref')}
                    if kind == 'Nasa':
                        kw['T_mid'] = D.sym('Tm')
                    elif kind == 'Nasa9':
                        kw['T_mid'] = empty             # one interval
                else:
                    kw = {'T_low': D.sym('T_low'), 'T_high': D.sym('T_high')}
                    if route == 'from_model':
                        kw['model'] = source_model(I)
                    else:
                        # documented: "model : Model object or class", the keywords initialise it
                        mci = repo.cls('pmutt.statmech.StatMech')
                        I.opaque_classes[mci.qual] = lambda I_, fr_, a_, k_: source_model(I_)
                        kw['model'] = mci
                        kw['trans_model'] = Obj('trans')
                    if kind == 'Nasa':
                        kw['T_mid'] = D.sym('Tm')
                    elif kind == 'Nasa9':
                        kw.update({'T_mid': empty, 'fit_T_mid': False})
                kw.update(opts, name='sp')
                key = 'phase=%r misc=%s add_gas_P_adj=%s' % (phase, form, 'not given' if add is None else add)
                try:
                    if route == '__init__':
                        o = fr.apply(ci, [], kw, None)
                    else:
                        o = I.call_function(owner.module, fn, [], kw, self_obj=ci, owner=owner,
                                            name=owner.qual + '.' + mname)
                except _RaisedExc as e:
                    o = e.raised
                n += 1
                gas = phase is not None and phase.lower() in ('g', 'gas')
                okey = '%s species, add_gas_P_adj=%s%s' % ('gas' if gas else 'non-gas', True if add is None else add,
                                                          ', model given as a class' if '[' in route else '')
                if not isinstance(o, Obj):
                    run.fail('PATH.attach', con, okey, '[%s] %s does not build a species: %s' % (key, route, show(o, 120)),
                             owner.module, fn)
                    continue
                mm = get_public(I, o, 'misc_models')
                items = mm.items if isinstance(mm, ListV) else []
                n_adj = len([m_ for m_ in items if isinstance(m_, Obj) and m_.ci is gci])
                others = [m_ for m_ in items if not (isinstance(m_, Obj) and m_.ci is gci)]
                want = (1 if add is not False else form.count('adj')) if gas else form.count('adj')
                run.check(n_adj == want and len(others) == form.count('cov') and
                          all(isinstance(m_, Obj) for m_ in others), 'PATH.attach', con, okey,
                          '[%s] the species returned by %s carries %d pressure adjustment(s) and %d other attached '
                          'model(s), expected %d and %d: a gas-phase species carries exactly one adjustment however it was '
                          'constructed unless the user disables it, other phases none, and the models handed over are kept'
                          % (key, route, n_adj, len(others), want, form.count('cov')), owner.module, fn,
                          sample='%s(%s) -> %d adjustment(s)' % (con, key, n_adj) if form == '[cov]' and add is None
                          and gas else None)
    return n


# pressures of the quantifier (1e-3 - 1e2 bar) as numbers: the ends, the reference pressure itself and its two
# neighbours closer than any usual tolerance (a correction that is switched off "near" 1 bar shows there)
PRESSURES = (Fr(1, 1000), Fr(1), Fr(1000008, 1000000), Fr(999992, 1000000), Fr(10), Fr(100))
# species a coverage effect refers to: real adsorbates - one a prefix of another, one a part of both - and names that
# touch the text of the "<name>_kwargs" key: ending in one of its letters, containing '_', containing the word itself
# and the package's own spelling of adsorbates and sites: characters that are not letters, digits or '_'
NAME = {'B': 'CO', 'C': 'CO2', 'D': 'O', 'E': 'Ag', 'F': 'CO_s', 'H': 'kwargs_A', 'I': 'CO(S)', 'J': 'O*', 'K': 'O-fcc',
        'L': 'H2O(S)'}


def real_models(run, repo, thorough=False):
    """real GasPressureAdj and PiecewiseCovEffect through the real aggregation over misc_models, on species built by
    the public constructors"""
    n = 0
    cci = repo.cls('pmutt.mixture.cov.PiecewiseCovEffect')
    # (phase, models handed to the constructor): an adjustment handed over by the user counts for every phase, a gas
    # species attaches its own when there is none
    CASES = ((None, 'adj,cov'), (None, 'cov,adj'), ('S', 'adj,cov'), ('S', 'cov,adj'), ('G', 'adj,cov'),
             ('G', 'cov,adj'), ('G', 'cov'), ('G', None), ('gas', ''))
    for kind in ('Nasa', 'Nasa9', 'Shomate'):
        for phase, form in CASES:
            I = Interp(repo, order=RankOrder(dict(ranks(2), xcov=1, b1=5), const_ranks=True))
            D = I.D
            fr = Frame(I, repo.module('pmutt'), {}, None, None)
            T, P, x = D.sym('T'), D.sym('P'), D.sym('xcov')
            toks = [t for t in (form or '').split(',') if t]
            handed = []
            for t in toks:
                if t == 'adj':
                    handed.append(fr.apply(repo.cls(GPA), [], {}, None))
                else:
                    handed.append(fr.apply(cci, [], {'name_i': 'sp', 'name_j': 'B',
                                                     'intervals': ListV([C(0), D.sym('b1')]),
                                                     'slopes': ListV([D.sym('k0'), D.sym('k1')])}, None))
            o, co = species_obj(I, repo, kind, None if form is None else ListV(handed), phase)
            Rk = D.sym('kb') * D.sym('Na') * D.sym('U<kcal>')
            covU = D.sym('k0') * x / (Rk * T) if 'cov' in toks else C(0)
            exp = {'CpoR': bare(I, repo, kind, co, 'CpoR', T),
                   'HoRT': bare(I, repo, kind, co, 'HoRT', T) + covU,
                   'SoR': bare(I, repo, kind, co, 'SoR', T) - D.ln(P)}
            exp['GoRT'] = exp['HoRT'] - exp['SoR']
            desc = 'a %s species built with misc_models=%s' % (
                {None: 'phase-less', 'S': 'surface'}.get(phase, 'gas (phase=%r)' % phase),
                'None' if form is None else '[%s]' % ', '.join({'adj': 'GasPressureAdj', 'cov': 'PiecewiseCovEffect'}[t]
                                                             for t in toks))
            key = 'pressure+coverage' if 'cov' in toks else 'pressure'
            key += '' if phase is None else ', surface species' if phase == 'S' else ', gas species'
            for q in QS:
                owner, fn = repo.find_method(o.ci, 'get_' + q)
                got = ask(I, o, 'get_' + q, {'T': T, 'P': P, 'x': x})
                if isinstance(got, SumV):
                    got = got.scalar + got.elem if got.elem.iszero() else got
                run.check(same(got, exp[q]), 'REF.corrections', '%s.get_%s' % (kind, q), key,
                          'for %s the value is %s, expected polynomial %s'
                          % (desc, show(got, 200),
                             {'CpoR': '(unchanged)', 'HoRT': '+ coverage energy/RT' if 'cov' in toks else '(unchanged)',
                              'SoR': '- ln(P/bar)', 'GoRT': ('+ coverage energy/RT ' if 'cov' in toks else '') +
                              '+ ln(P/bar)'}[q]),
                          owner.module, fn,
                          sample='%s.get_%s with [GasPressureAdj, PiecewiseCovEffect]' % (kind, q)
                          if (phase, form) == CASES[0] else None)
                n += 1
    # several coverage effects, each addressed through its own per-species keyword block, in several orders: every
    # model must see its own species' coverage (conditions of one model must not leak into the next, a block must
    # not be lost because of the way its species is called)
    ORDERS = ((None, ('B', 'C')), ('S', ('C', 'B')), ('S', ('D', 'B', 'C')), (None, ('C', 'D', 'B')),
              ('S', ('E',)), ('S', ('F', 'H')), (None, ('H', 'E', 'F')), ('S', ('F', 'B', 'H', 'E')),
              ('S', ('I',)), (None, ('J', 'I', 'B')), ('S', ('L', 'K', 'E', 'J')))
    for kind in ('Nasa', 'Nasa9', 'Shomate'):
        for phase, order_ in ORDERS:
            rk = dict(ranks(2))
            for j in NAME:
                rk.update({'x' + j: 1, 'b' + j: 5})
            I = Interp(repo, order=RankOrder(rk, const_ranks=True))
            D = I.D
            fr = Frame(I, repo.module('pmutt'), {}, None, None)
            T, P = D.sym('T'), D.sym('P')
            covs = [fr.apply(cci, [], {'name_i': 'sp', 'name_j': NAME[j], 'intervals': ListV([C(0), D.sym('b' + j)]),
                                       'slopes': ListV([D.sym('k0' + j), D.sym('k1' + j)])}, None) for j in order_]
            Rk = D.sym('kb') * D.sym('Na') * D.sym('U<kcal>')
            o, co = species_obj(I, repo, kind, ListV(covs), phase)
            blocks = {'%s_kwargs' % NAME[j]: DictV({'x': D.sym('x' + j)}) for j in order_}
            want = bare(I, repo, kind, co, 'HoRT', T)
            for j in order_:
                want = want + D.sym('k0' + j) * D.sym('x' + j) / (Rk * T)
            owner, fn = repo.find_method(o.ci, 'get_HoRT')
            got = ask(I, o, 'get_HoRT', dict({'T': T, 'P': P}, **blocks))
            if isinstance(got, SumV):
                got = got.scalar + got.elem if got.elem.iszero() else got
            run.check(same(got, want), 'REF.corrections', '%s.get_HoRT' % kind,
                      'coverage effects of several species' if all(j in 'BCD' for j in order_) else
                      'coverage block of a species named like an adsorbate' if any(j in 'IJKL' for j in order_) else
                      'coverage block of a species named like the key',
                      'with coverage effects of species %s attached and each coverage given in its own '
                      '<name>_kwargs block the value is %s, expected polynomial + sum_j slope_j*x_j/RT'
                      % (','.join(NAME[j] for j in order_), show(got, 240)), owner.module, fn)
            run.check(all(sorted(b.d) == ['x'] for b in blocks.values()), 'EFFECT.caller-dict', '%s.get_HoRT' % kind,
                      'per-species blocks', 'a caller-supplied per-species dictionary was modified', owner.module, fn)
            n += 2
    return n


def histories(run, repo, thorough=False):
    """one species asked again and again under other conditions (other coverage, other pressure, other per-species
    blocks, an array that contains the temperature asked before), a second species of the same class in the same
    interpreter asked with the very arguments of the call before, and the first question once more: every answer is
    held to the reference of THAT call (real GasPressureAdj / PiecewiseCovEffect)"""
    n = 0
    cci = repo.cls('pmutt.mixture.cov.PiecewiseCovEffect')
    gci = repo.cls(GPA)

    def flat(v):
        if isinstance(v, SumV):
            return v.scalar + v.elem if v.elem.iszero() else v
        return v

    def run_history(kind, phase, I, sp, calls, key, desc, qs):
        """sp: {tag: (object, coefficients, adjusted?, [(name_j, slope symbol)])}; calls: (tag, temperatures (a symbol or
        a list), P, global x or None, {name_j: x} blocks or None, what differs from the calls before)"""
        D = I.D
        Rk = D.sym('kb') * D.sym('Na') * D.sym('U<kcal>')
        cnt = 0

        def want(tag, q, Tv, P, x, blocks):
            o, co, adj, effects = sp[tag]
            if q == 'GoRT':
                return want(tag, 'HoRT', Tv, P, x, blocks) - want(tag, 'SoR', Tv, P, x, blocks)
            v = bare(I, repo, kind, co, q, Tv)
            if q == 'HoRT':
                for name_j, slope in effects:
                    xj = blocks[name_j] if blocks is not None and name_j in blocks else x if x is not None else C(0)
                    v = v + slope * xj / (Rk * Tv)
            if q == 'SoR' and adj:
                v = v - D.ln(P)
            return v
        for q in qs:
            for step, (tag, Ts, P, x, blocks, what) in enumerate(calls):
                o = sp[tag][0]
                owner, fn = repo.find_method(o.ci, 'get_' + q)
                kw = {'T': Ts, 'P': P}
                if isinstance(Ts, list):
                    kw['T'] = temps(Ts)
                if x is not None:
                    kw['x'] = x
                for name_j, xj in (blocks or {}).items():
                    kw['%s_kwargs' % name_j] = DictV({'x': xj})
                got = ask(I, o, 'get_' + q, kw)
                if isinstance(Ts, list):
                    ok = isinstance(got, ListV) and len(got) == len(Ts) and \
                        all(same(flat(g), want(tag, q, t, P, x, blocks)) for g, t in zip(got.items, Ts))
                else:
                    ok = not isinstance(got, Raised) and same(flat(got), want(tag, q, Ts, P, x, blocks))
                run.check(ok, 'REF.corrections', '%s.get_%s' % (kind, q), key,
                          '%s, question %d of a series (%s): the value is %s, expected the polynomial plus the '
                          'contribution of every attached model at the temperature and conditions of this question'
                          % (desc, step + 1, what, show(got, 200)), owner.module, fn)
                cnt += 1
        return cnt

    # (a) conditions given globally
    CASES = (('G', 'cov'), (None, 'adj,cov')) + ((('S', 'cov,adj'), ('gas', 'adj,cov')) if thorough else ())
    for kind in ('Nasa', 'Nasa9', 'Shomate'):
        for ci_, (phase, form) in enumerate(CASES):
            # quick: every getter on the first case, G (which asks H and S in turn) on the others
            qs = ('HoRT', 'SoR', 'GoRT') if thorough or ci_ == 0 else ('GoRT',)
            I = Interp(repo, order=RankOrder(dict(ranks(2), xcov=1, xcov2=2, b1=5, P=3, P2=4), const_ranks=True))
            D = I.D
            fr = Frame(I, repo.module('pmutt'), {}, None, None)
            sp = {}
            for tag in ('', '2'):
                handed = [fr.apply(gci, [], {}, None) if t == 'adj' else
                          fr.apply(cci, [], {'name_i': 'sp' + tag, 'name_j': 'B', 'intervals': ListV([C(0), D.sym('b1')]),
                                             'slopes': ListV([D.sym('k0' + tag), D.sym('k1' + tag)])}, None)
                          for t in form.split(',')]
                o, co = species_obj(I, repo, kind, ListV(handed), phase, tag=tag)
                sp[tag] = (o, co, True, [('B', D.sym('k0' + tag))])
            T, T1, P, P2, x, x2 = (D.sym(s_) for s_ in ('T', 'T1', 'P', 'P2', 'xcov', 'xcov2'))
            calls = (('', T, P, x, None, 'the first'),
                     ('', T, P, x2, None, 'another coverage'),
                     ('', T, P2, x2, None, 'another pressure'),
                     ('2', T, P2, x2, None, 'another species of the same class, same arguments'),
                     ('', [T1, T], P2, x, None, 'an array that ends with the temperature asked before, the first coverage'),
                     ('', T, P, x, None, 'the first again'))
            n += run_history(kind, phase, I, sp, calls, 'one species asked repeatedly under other conditions',
                             'a %s species with a pressure adjustment and a coverage effect (misc_models=[%s])'
                             % ({None: 'phase-less', 'S': 'surface'}.get(phase, 'gas'), form), qs)
    # (b) coverages given through the per-species blocks
    SETS = ((None, ('B', 'I')), ('S', ('L', 'D', 'C'))) + ((('s', ('J', 'F')), (None, ('E',))) if thorough else ())
    for kind in ('Nasa', 'Nasa9', 'Shomate'):
        for si_, (phase, names) in enumerate(SETS):
            qs = ('HoRT', 'SoR', 'GoRT') if thorough else ('HoRT',) if si_ == 0 else ('GoRT',)
            rk = dict(ranks(2), P=3)
            for j in names:
                rk.update({'x' + j: 1, 'y' + j: 2, 'b' + j: 5})
            I = Interp(repo, order=RankOrder(rk, const_ranks=True))
            D = I.D
            fr = Frame(I, repo.module('pmutt'), {}, None, None)
            sp = {}
            for tag in ('', '2'):
                covs = [fr.apply(cci, [], {'name_i': 'sp' + tag, 'name_j': NAME[j],
                                           'intervals': ListV([C(0), D.sym('b' + j)]),
                                           'slopes': ListV([D.sym('k0' + j + tag), D.sym('k1' + j + tag)])}, None)
                        for j in names]
                o, co = species_obj(I, repo, kind, ListV(covs), phase, tag=tag)
                sp[tag] = (o, co, False, [(NAME[j], D.sym('k0' + j + tag)) for j in names])
            T, T1, P = D.sym('T'), D.sym('T1'), D.sym('P')
            bx = {NAME[j]: D.sym('x' + j) for j in names}
            by = {NAME[j]: D.sym('y' + j) for j in names}
            mixed = dict(by, **{NAME[names[0]]: D.sym('x' + names[0])})
            calls = (('', T, P, None, bx, 'the first'),
                     ('', T, P, None, by, 'other coverages in the blocks'),
                     ('2', T, P, None, by, 'another species of the same class, same arguments'),
                     ('', [T1, T], P, None, mixed, 'an array that ends with the temperature asked before, the first '
                      'coverage for one species only'),
                     ('', T, P, None, {}, 'no block at all: coverage 0'),
                     ('', T, P, None, bx, 'the first again'))
            n += run_history(kind, phase, I, sp, calls, 'one species asked repeatedly with other per-species blocks',
                             'a %s species with coverage effects of %s, each coverage given in its own <name>_kwargs '
                             'block' % ({None: 'phase-less'}.get(phase, 'surface'), ', '.join(NAME[j] for j in names)), qs)
    return n


def numeric_pressure(run, repo):
    """the pressure as a number (run first: decided even where a symbolic pressure is not): S(P) = S(1 bar) - ln(P/bar)
    at the ends of the range, at 1 bar and next to it, for the adjustment a gas species attaches itself and for one
    handed over to a species without phase; scalar T and an array of two temperatures"""
    n = 0
    for kind in ('Nasa', 'Nasa9', 'Shomate'):
        for phase, form in (('G', None), (None, 'adj')):
            I = Interp(repo, order=RankOrder(ranks(2), const_ranks=True))
            D = I.D
            fr = Frame(I, repo.module('pmutt'), {}, None, None)
            T = D.sym('T')
            misc = None if form is None else ListV([fr.apply(repo.cls(GPA), [], {}, None)])
            o, co = species_obj(I, repo, kind, misc, phase)
            for q, sgn in (('SoR', -1), ('GoRT', 1)):
                owner, fn = repo.find_method(o.ci, 'get_' + q)
                for p_ in PRESSURES:
                    want = lambda Tv: bare(I, repo, kind, co, q, Tv) + C(sgn) * D.ln(C(p_))
                    got = ask(I, o, 'get_' + q, {'T': T, 'P': C(p_)})
                    if isinstance(got, SumV):
                        got = got.scalar + got.elem if got.elem.iszero() else got
                    ok = same(got, want(T))
                    if ok and p_ in PRESSURES[1:4]:
                        Ts = [D.sym('T0'), D.sym('T1')]
                        arr = temps(Ts)
                        got = ask(I, o, 'get_' + q, {'T': arr, 'P': C(p_)})
                        ok = isinstance(got, ListV) and len(got) == 2 and \
                            all(same(g.scalar + g.elem if isinstance(g, SumV) and g.elem.iszero() else g, want(t))
                                for g, t in zip(got.items, Ts))
                    run.check(ok, 'REF.corrections', '%s.get_%s' % (kind, q), 'pressure given as a number',
                              'a %s at P = %s bar gives %s, expected polynomial %s ln(%s)'
                              % ('gas species' if phase else 'species without phase that was handed a GasPressureAdj',
                                 float(p_), show(got, 200), '-' if sgn < 0 else '+', float(p_)), owner.module, fn,
                              sample='%s.get_%s(T, P=%s) == poly(T) %s ln(%s)' % (kind, q, float(p_), '-' if sgn < 0 else '+', float(p_))
                              if p_ == 10 and phase else None)
                    n += 1
    return n


def reload_path(run, repo):
    """direct from_dict(to_dict()) cycles keep attached models as objects"""
    from .c11 import builders, Problem
    n = 0
    order = RankOrder({'w0': 5, 'w1': 7, 'b1': 3}, const_ranks=True)
    gci = repo.cls(GPA)
    cci = repo.cls('pmutt.mixture.cov.PiecewiseCovEffect')

    def adj_ahead(I, kind):
        """gas species whose pressure adjustment stands AHEAD of a coverage effect (what a user gets who appends a
        coverage effect to the list of a gas species), built by the public constructor"""
        D = I.D
        fr = Frame(I, repo.module('pmutt'), {}, None, None)
        misc = misc_of(I, repo, fr, '[adj,cov]')

        def vec(name, k):
            v = coeff_vector(I, name, k)
            v.is_array = True
            return v
        common_ = {'name': 'sp', 'phase': 'G', 'misc_models': misc, 'elements': DictV({'H': D.sym('nH')})}
        if kind == 'Nasa':
            kw = {'T_low': D.sym('Tl'), 'T_mid': D.sym('Tm'), 'T_high': D.sym('Th'), 'a_low': vec('lo', 7),
                  'a_high': vec('hi', 7)}
        elif kind == 'Nasa9':
            seg = fr.apply(repo.cls(NASA + '.SingleNasa9'), [], {'T_low': D.sym('Tl'), 'T_high': D.sym('Th'),
                                                                  'a': vec('s', 9)}, None)
            kw = {'nasas': ListV([seg])}
        else:
            kw = {'T_low': D.sym('Tl'), 'T_high': D.sym('Th'), 'a': vec('a', 8), 'units': 'J/mol/K'}
        return fr.apply(repo.cls((SHO if kind == 'Shomate' else NASA) + '.' + kind), [], dict(kw, **common_), None)

    for label in ('Nasa[surface+cov]', 'Nasa[gas]', 'Nasa[gas, adjustment disabled]', 'Nasa9', 'Nasa9[gas+cov]', 'Shomate', 'Shomate[surface+cov]',
                  'StatMech[references+misc]', 'Nasa[gas, adjustment ahead of cov]',
                  'Nasa9[gas, adjustment ahead of cov]', 'Shomate[gas, adjustment ahead of cov]'):
        I = Interp(repo, order=order)
        absolute = None
        if 'ahead of cov' in label:
            try:
                obj = adj_ahead(I, label.split('[')[0])
            except _RaisedExc as e:
                raise Unsupported('the constructor of the model species %s raises %s' % (label, e.raised.exc))
            absolute = [gci, cci]        # what the species must carry before and after every cycle
        else:
            try:
                bs = dict(builders(I, repo))
                if label not in bs:
                    raise AnchorError('builder %s missing' % label)
                obj = bs[label]()
            except Problem as e:
                # the fixture borrowed from C11 cannot be built on this tree: nothing to hold the reload against
                raise Unsupported('the model species %s of the reload instance cannot be built (%s)' % (label, e))
        ci = obj.ci
        owner, fn = repo.find_method(ci, 'from_dict')
        run.fn(owner.qual + '.from_dict')
        cur = obj
        for cycle in (1, 2):
            d = ask(I, cur, 'to_dict', {})
            if not isinstance(d, DictV):
                run.fail('TABLE.reload', ci.name + '.to_dict', 'cycle', 'to_dict fails in cycle %d (%s)'
                         % (cycle, show(d)), owner.module, fn)
                break
            try:
                new = I.call_function(owner.module, fn, [], {'json_obj': d}, self_obj=ci, owner=owner)
            except _RaisedExc as e:
                new = e.raised
            if not isinstance(new, Obj):
                run.fail('TABLE.reload', ci.name + '.from_dict', 'cycle', 'from_dict(to_dict()) fails in cycle %d (%s)'
                         % (cycle, show(new)), owner.module, fn)
                break
            mm0, mm1 = get_public(I, obj, 'misc_models'), get_public(I, new, 'misc_models')
            n0 = len(mm0.items) if isinstance(mm0, ListV) else 0
            items = mm1.items if isinstance(mm1, ListV) else []
            ok = len(items) == n0 and all(isinstance(m_, Obj) for m_ in items) and \
                all(a.ci is b.ci for a, b in zip(mm0.items if n0 else [], items))
            if absolute is not None:
                got_ = [m_.ci if isinstance(m_, Obj) else None for m_ in items]
                run.check(sorted(c_.name for c_ in got_ if c_ is not None) == sorted(c_.name for c_ in absolute)
                          and len(got_) == len(absolute), 'TABLE.reload', ci.name + '.from_dict',
                          'one adjustment, ahead of a coverage effect',
                          'a gas species built with misc_models=[GasPressureAdj, PiecewiseCovEffect] carries %s after %d '
                          'to_dict/from_dict cycle(s), expected exactly one pressure adjustment and the coverage effect'
                          % (show(mm1, 120), cycle), owner.module, fn)
                n += 1
            if 'disabled' in label:
                key_ = 'disabled adjustment stays disabled'
                why_ = ('a gas species built with add_gas_P_adj=False carries %d attached model(s) after %d '
                        'to_dict/from_dict cycle(s): the option is not serialised, so the reload re-attaches a '
                        'pressure adjustment' % (len(items), cycle))
            else:
                key_ = 'attached models'
                why_ = None
            run.check(ok, 'TABLE.reload', ci.name + '.from_dict', key_, why_ or
                      'after %d direct to_dict/from_dict cycle(s) the attached models are %s instead of the %d model '
                      'object(s) of the original (dictionaries are not models: the corrections are lost or the getters '
                      'raise)' % (cycle, show(mm1, 120), n0), owner.module, fn,
                      sample='%s: from_dict(to_dict()) keeps %d attached model object(s)' % (label, n0))
            n += 1
            cur = new
    return n


def check(run, repo):
    run.explanation = (
        'Every species is built by its public constructor (Nasa, Nasa9, Shomate), so that each attribute has the value '
        'the constructor gives it: without a phase (the default), as a surface species and as a gas species. '
        '(0) The pressure as a number, first: for the adjustment a gas species attaches itself and for one handed to a '
        'species without phase, S = poly - ln P and G = poly + ln P at 1e-3, 1, 1 +- 8e-6, 10 and 100 bar, scalar T and '
        'an array of two temperatures. '
        '(a) The getters are interpreted abstractly with 0-3 attached models whose getters are '
        'uninterpreted and record their arguments (no models: misc_models not given at all / an empty list), through '
        'the package\'s own aggregation: for scalar T and arrays of 1-3 (thorough 1-5 and 50) temperatures every element is '
        'the bare polynomial plus the sum over all attached models evaluated at that element\'s temperature and the '
        'same conditions (a gas species adds its own - ln P to S); with two models also a scalar above T_mid and the '
        'array [Tu, Td, Tu] (unordered, one value twice, on both sides of T_mid: a NASA-7 species answers Tu from its '
        'high-temperature coefficients), T_mid itself as a scalar and in [Td, T_mid, Tu, T_mid] (the NASA-9 species has '
        'two segments that meet there; the polynomial of either range is accepted on the bound, the models count '
        'once), and temperatures below T_low and above T_high as scalars and in [T0, Tx, Tn] (bare polynomial of the '
        'nearest range plus the models, or an exception); the instance with one model is a species that was also '
        'handed the model it was fitted to (model=, as from_model stores it), a composition, a catalyst site and '
        'n_sites=2; '
        '(b) with a real GasPressureAdj and a real PiecewiseCovEffect through the real '
        'aggregation, for 9 combinations of phase and models handed over (adjustment ahead of / behind the coverage '
        'effect on a phase-less, a surface and a gas species; a gas species handed only the coverage effect, nothing, '
        'an empty list): S = poly - ln P, H = poly + coverage energy/RT, Cp unchanged, G = H - S; coverage effects of '
        '1-4 species each addressed through its own <name>_kwargs block, the species named CO, CO2, O (one a prefix of '
        'another), Ag, CO_s, kwargs_A (names that touch the text of the key) and CO(S), O*, O-fcc, H2O(S) (the '
        'package\'s spelling of adsorbates). '
        '(c) Histories: one species is asked six times in a row - another coverage, another pressure, a second species '
        'of the same class with the very same arguments, an array that ends with the temperature asked before, the '
        'first question again - with the conditions given globally and through the per-species blocks (other '
        'coverages, one block only, no block); every answer is held to the reference of that question. '
        'The getters with units (get_Cp/get_H/get_S/get_G, unit kJ/mol[/K]) are held to R[*T] times the same sum, '
        'scalar and array T, with two attached models. '
        'EmpiricalBase(...) is interpreted for 9 phase spellings x 12 forms of misc_models (none, empty, other '
        'models, adjustment present as object or as its serialised dictionary: alone, behind, ahead of and between '
        'other models) x add_gas_P_adj on/off and the number '
        'of pressure adjustments in the result (read through the public attribute) is counted. The same count is taken '
        'on the species returned by the '
        'constructors of Nasa, Nasa9 and Shomate and by their from_data / from_model (source model given as an object '
        'and as a class; least-squares calls uninterpreted, temperature grids and model answers are data vectors) for '
        'gas / non-gas phases, with and without models handed over, add_gas_P_adj not given / True / False. '
        'Direct to_dict/from_dict cycles (twice) must keep the '
        'attached models as objects; a gas species built with [GasPressureAdj, PiecewiseCovEffect] must carry exactly '
        'these two after every cycle.')
    run.assumptions = ['attached models are arbitrary objects with the getter interface (uninterpreted in (a))']
    run.undecided = ['coverage model numerics (C17): coverages beyond the first interval', 'copying via copy.deepcopy'] + \
        ([] if ARM_SHARED_LIST else ['two species handed one list object (instance written, not armed)'])
    thorough = run.tier == 'thorough'
    n = numeric_pressure(run, repo)
    run.floor('numeric-pressure instances', n, 72)
    n = summation(run, repo, 5 if thorough else 3, thorough)
    run.floor('summation instances', n, 250)
    n = real_models(run, repo, thorough)
    run.floor('real-model instances', n, 150)
    n = histories(run, repo, thorough)
    run.floor('questions put to one species in a row', n, 100)
    n = attachment(run, repo)
    run.floor('attachment cases', n, 150)
    if ARM_SHARED_LIST:
        n = shared_list(run, repo)
        run.floor('species sharing one list', n, 12)
    n = constructors(run, repo, thorough)
    run.floor('species built through the public constructors', n, 69)
    n = reload_path(run, repo)
    run.floor('reload instances', n, 20)


E_ = 'pmutt/empirical/__init__.py'
N_ = 'pmutt/empirical/nasa.py'
M_ = 'pmutt/mixture/__init__.py'
S_ = 'pmutt/empirical/shomate.py'
P_ = 'pmutt/__init__.py'
_NASA_S = ("        if _is_iterable(T):\n            SoR = np.zeros_like(a=T, dtype=np.double)\n"
           "            for i, T_i in enumerate(T):\n                a = self.get_a(T=T_i)")
_NASA9_S = ("        if _is_iterable(T):\n            SoR = np.zeros_like(a=T, dtype=np.double)\n"
            "            for i, T_i in enumerate(T):\n                nasa = self._get_nasa(T=T_i)")
_NO_PHASE_NO_P = "        if self.phase is None:\n            kwargs.pop('P', None)\n"
_SCAN = ("                    for i, model in enumerate(misc_models):\n"
         "                        if model == dict_entry:\n"
         "                            misc_models[i] = GasPressureAdj()\n"
         "                            break\n"
         "                        elif isinstance(model, GasPressureAdj):\n"
         "                            break\n"
         "                    else:\n"
         "                        misc_models.append(GasPressureAdj())")
_SCAN_LAST = ("                    has_P_adj = False\n"
              "                    for i, model in enumerate(misc_models):\n"
              "                        if model == dict_entry:\n"
              "                            misc_models[i] = GasPressureAdj()\n"
              "                        has_P_adj = isinstance(misc_models[i], GasPressureAdj)\n"
              "                    if not has_P_adj:\n"
              "                        misc_models.append(GasPressureAdj())")
_NASA_CP_DEF = ("\n\n" +
                'def get_nasa_CpoR(a, T):\n' +
                '    """Calculates the dimensionless heat capacity using NASA polynomial form\n' +
                '\n' +
                '    Parameters\n' +
                '    ----------\n' +
                '        a : (7,) `numpy.ndarray`_\n' +
                '            Coefficients of NASA polynomial\n' +
                '        T : float\n' +
                '            Temperature in K\n' +
                '    Returns\n' +
                '    -------\n' +
                '        CpoR: float\n' +
                '            Dimensionless heat capacity\n' +
                '\n' +
                '    .. _`numpy.ndarray`: https://docs.scipy.org/doc/numpy/reference/generated/numpy.ndarray.html\n' +
                '    """\n' +
                '    T_arr = np.array([1., T, T**2, T**3, T**4, np.zeros_like(T),\n' +
                '                      np.zeros_like(T)])\n' +
                '    return np.dot(a, T_arr)\n')
_NASA_H_ELSE = "        else:\n            a = self.get_a(T=T)\n            HoRT = get_nasa_HoRT(a=a, T=T) \\\n"
_SHO_H = ("            HoRT[i] += np.sum(\n"
          "                _get_mix_quantity(misc_models=self.misc_models,\n"
          "                                  method_name='get_HoRT',\n"
          "                                  raise_error=raise_error,\n"
          "                                  raise_warning=raise_warning,\n"
          "                                  default_value=0.,\n"
          "                                  T=T_i,\n"
          "                                  **kwargs))")
_SHO_H_MEMO = ("            memo_key = %s\n"
               "            try:\n                memo = self._mix_memo\n            except AttributeError:\n"
               "                memo = self._mix_memo = {}\n"
               "            if memo_key not in memo:\n"
               "                memo[memo_key] = np.sum(\n"
               "                    _get_mix_quantity(misc_models=self.misc_models,\n"
               "                                      method_name='get_HoRT',\n"
               "                                      raise_error=raise_error,\n"
               "                                      raise_warning=raise_warning,\n"
               "                                      default_value=0.,\n"
               "                                      T=T_i,\n"
               "                                      **kwargs))\n"
               "            HoRT[i] += memo[memo_key]")
MUTANTS = [
    {'name': 'revert aefd2c4: the pressure adjustment is appended to the list the caller handed over', 'expect': ('PATH.attach', '__init__'),
     'edits': [('pmutt/empirical/__init__.py', "                    # Work on a copy: the list belongs to the caller\n                    misc_models = list(misc_models)\n", "")]},
    {'name': 'second adjustment appended when one is present', 'expect': ('PATH.attach', ''),
     'edits': [(E_, '                        elif isinstance(model, GasPressureAdj):\n                            break', '                        elif isinstance(model, GasPressureAdj):\n                            pass')]},
    {'name': 'phase test case-sensitive', 'expect': ('PATH.attach', ''),
     'edits': [(E_, "if (self.phase.lower() == 'g' or self.phase.lower() == 'gas'):", "if (self.phase == 'g' or self.phase.lower() == 'gas'):")]},
    {'name': 'Nasa.get_HoRT array branch evaluates models at T not T_i', 'expect': ('BRANCH-TWIN.array', 'Nasa.get_HoRT'),
     'edits': [(N_, "                                               default_value=0.,\n                                               T=T_i,\n                                               **kwargs))\n        else:\n            a = self.get_a(T=T)\n            HoRT",
                "                                               default_value=0.,\n                                               T=T[0],\n                                               **kwargs))\n        else:\n            a = self.get_a(T=T)\n            HoRT")]},
    {'name': 'mix quantity skips the first model', 'expect': ('REF.corrections', ''),
     'edits': [(M_, '    for i, mix_model in enumerate(misc_models):\n        if mix_model is None:', '    for i, mix_model in enumerate(misc_models):\n        if mix_model is None or i == 0:')]},
    # --- instances added after the white-box review
    {'name': 'Nasa.get_G evaluates the dimensionless value without the conditions',
     'expect': ('BRANCH-TWIN', 'Nasa.get_G'),
     'edits': [(N_, "                             S_elements=S_elements,\n                             **kwargs) * T * R_adj",
                "                             S_elements=S_elements) * T * R_adj", 0, 2)]},
    {'name': 'Nasa9.get_S evaluates the dimensionless value without the conditions',
     'expect': ('BRANCH-TWIN', 'Nasa9.get_S'),
     'edits': [(N_, "                            S_elements=S_elements,\n                            **kwargs) * R_adj",
                "                            S_elements=S_elements) * R_adj", 1, 2)]},
    {'name': 'only the last attached model decides whether an adjustment is present (constructor forms)',
     'expect': ('PATH.attach', 'EmpiricalBase.__init__'), 'edits': [(E_, _SCAN, _SCAN_LAST)]},
    {'name': 'only the last attached model decides whether an adjustment is present (reload of [adj, cov])',
     'expect': ('TABLE.reload', 'from_dict'), 'edits': [(E_, _SCAN, _SCAN_LAST)]},
    {'name': 'Shomate.from_model keeps the keywords for the model class only', 'expect': ('PATH.attach', 'Shomate.from_model'),
     'edits': [(S_, "            model = model(name=name, elements=elements, **kwargs)\n",
                "            model = model(name=name, elements=elements, **kwargs)\n            kwargs = {}\n")]},
    {'name': 'Nasa9.from_data forwards only the model to the constructor', 'expect': ('PATH.attach', 'Nasa9.from_data'),
     'edits': [(N_, "        return cls(name=name, nasas=nasas, elements=elements, **kwargs)",
                "        return cls(name=name, nasas=nasas, elements=elements, model=kwargs.get('model'))")]},
    {'name': 'Nasa9.__init__ swallows add_gas_P_adj', 'expect': ('PATH.attach', 'Nasa9.__init__'),
     'edits': [(N_, "    def __init__(self, name, nasas, n_sites=1, **kwargs):\n        super().__init__(name=name, **kwargs)",
                "    def __init__(self, name, nasas, n_sites=1, phase=None, misc_models=None,\n"
                "                 add_gas_P_adj=True, **kwargs):\n"
                "        super().__init__(name=name, phase=phase, misc_models=misc_models,\n"
                "                         **kwargs)")]},
    {'name': 'Nasa.__init__ swallows add_gas_P_adj', 'expect': ('PATH.attach', 'Nasa.__init__'),
     'edits': [(N_, "                 n_sites=None,\n                 **kwargs):\n        super().__init__(name=name, **kwargs)",
                "                 n_sites=None,\n                 add_gas_P_adj=True,\n                 **kwargs):\n"
                "        super().__init__(name=name, **kwargs)")]},
    # --- instances added after the white-box review, round 2
    {'name': 'per-species block matched with str.rstrip (names ending in a letter of "_kwargs" lose their block)',
     'expect': ('REF.corrections', 'get_HoRT'),
     'edits': [(P_, "            if key == '{}_kwargs'.format(specie_name):",
                "            if key.rstrip('_kwargs') == specie_name:")]},
    {'name': 'per-species block matched on the text before the first underscore',
     'expect': ('REF.corrections', 'get_HoRT'),
     'edits': [(P_, "            if key == '{}_kwargs'.format(specie_name):",
                "            if key.split('_')[0] == specie_name:")]},
    {'name': 'Nasa.get_SoR drops the pressure for a species without phase (real adjustment handed over)',
     'expect': ('REF.corrections', 'Nasa.get_SoR'), 'edits': [(N_, _NASA_S, _NO_PHASE_NO_P + _NASA_S)]},
    {'name': 'Nasa.get_SoR drops the pressure for a species without phase (uninterpreted models)',
     'expect': ('BRANCH-TWIN', 'Nasa.get_SoR'), 'edits': [(N_, _NASA_S, _NO_PHASE_NO_P + _NASA_S)]},
    {'name': 'Nasa9.get_SoR drops the pressure for a surface species', 'expect': ('BRANCH-TWIN', 'Nasa9.get_SoR'),
     'edits': [(N_, _NASA9_S, "        if self.phase is not None and self.phase.lower() == 's':\n"
                "            kwargs.pop('P', None)\n" + _NASA9_S)]},
    {'name': 'Shomate.get_HoRT drops the coverage for a gas species', 'expect': ('BRANCH-TWIN', 'Shomate.get_HoRT'),
     'edits': [(S_, "        if not _is_iterable(T):\n            T = [T]",
                "        if self.phase is not None and self.phase.lower() in ('g', 'gas'):\n"
                "            kwargs.pop('x', None)\n        if not _is_iterable(T):\n            T = [T]", 1, 3)]},
    {'name': 'no pressure adjustment within the default tolerance of 1 bar', 'expect': ('REF.corrections', 'get_SoR'),
     'edits': [(E_, "        return -np.log(P)", "        return np.where(np.isclose(P, c.P0('bar')), 0., -np.log(P))")]},
    {'name': 'a species without models gets a non-zero default contribution', 'expect': ('BRANCH-TWIN', ''),
     'edits': [(M_, "    if misc_models is None:\n        return np.array([default_value])",
                "    if misc_models is None:\n        return np.array([1.])")]},
    {'name': 'Nasa.get_SoR array branch takes the coefficients of the last temperature for every element',
     'expect': ('BRANCH-TWIN.array', 'Nasa.get_SoR'),
     'edits': [(N_, "                a = self.get_a(T=T_i)\n                SoR[i]",
                "                a = self.get_a(T=T[-1])\n                SoR[i]")]},
    # --- instances added after the white-box review, round 3
    {'name': 'Nasa.get_HoRT (scalar) answers from the model it was fitted to outside [T_low, T_high]: no corrections there',
     'expect': ('BRANCH-TWIN.scalar', 'Nasa.get_HoRT'),
     'edits': [(N_, _NASA_H_ELSE, "        elif self.model is not None and not (self.T_low <= T <= self.T_high):\n"
                "            HoRT = self.model.get_HoRT(T=T)\n" + _NASA_H_ELSE)]},
    {'name': 'Nasa.get_HoRT (array) answers from the model it was fitted to outside [T_low, T_high]',
     'expect': ('BRANCH-TWIN.array', 'Nasa.get_HoRT'),
     'edits': [(N_, "                a = self.get_a(T=T_i)\n                HoRT[i] = get_nasa_HoRT(a=a, T=T_i)",
                "                if self.model is not None and not (self.T_low <= T_i <= self.T_high):\n"
                "                    HoRT[i] = self.model.get_HoRT(T=T_i)\n                    continue\n"
                "                a = self.get_a(T=T_i)\n                HoRT[i] = get_nasa_HoRT(a=a, T=T_i)")]},
    {'name': 'Shomate.get_SoR leaves the corrections out for temperatures outside the fitted range (no model held)',
     'expect': ('BRANCH-TWIN', 'Shomate.get_SoR'),
     'edits': [(S_, "        for i, T_i in enumerate(T):\n            SoR[i] += np.sum(",
                "        for i, T_i in enumerate(T):\n            if T_i < self.T_low or T_i > self.T_high:\n"
                "                continue\n            SoR[i] += np.sum(")]},
    {'name': 'Nasa9.get_HoRT array branch: segments in the outer loop, += (a temperature on a common bound counts twice)',
     'expect': ('BRANCH-TWIN.array', 'Nasa9.get_HoRT'),
     'edits': [(N_, "            for i, T_i in enumerate(T):\n                nasa = self._get_nasa(T=T_i)\n"
                "                HoRT[i] = nasa.get_HoRT(T=T_i) \\\n                    + np.sum(_get_mix_quantity(\n"
                "                                        misc_models=self.misc_models,\n"
                "                                        method_name='get_HoRT',\n"
                "                                        raise_error=raise_error,\n"
                "                                        raise_warning=raise_warning,\n"
                "                                        default_value=0.,\n"
                "                                        T=T_i, **kwargs))",
                "            for nasa in self.nasas:\n                for i, T_i in enumerate(T):\n"
                "                    if T_i < nasa.T_low or T_i > nasa.T_high:\n                        continue\n"
                "                    HoRT[i] += nasa.get_HoRT(T=T_i) \\\n                        + np.sum(_get_mix_quantity(\n"
                "                                        misc_models=self.misc_models,\n"
                "                                        method_name='get_HoRT',\n"
                "                                        raise_error=raise_error,\n"
                "                                        raise_warning=raise_warning,\n"
                "                                        default_value=0.,\n"
                "                                        T=T_i, **kwargs))")]},
    {'name': 'Nasa.get_CpoR array branch: the corrections of an element on T_mid are added for both ranges',
     'expect': ('BRANCH-TWIN.array', 'Nasa.get_CpoR'),
     'edits': [(N_, "                CpoR[i] = get_nasa_CpoR(a=a, T=T_i) \\\n                    + np.sum(",
                "                CpoR[i] = get_nasa_CpoR(a=a, T=T_i) \\\n"
                "                    + (2 if T_i == self.T_mid else 1) * np.sum(")]},
    {'name': 'Shomate.get_HoRT remembers the summed corrections per (T, P, x): the per-species blocks are not in the key',
     'expect': ('REF.corrections', 'Shomate.get_HoRT'), 'edits': [(S_, _SHO_H, _SHO_H_MEMO % "(T_i, kwargs.get('P'), kwargs.get('x'))")]},
    {'name': 'Shomate.get_HoRT remembers the summed corrections per (T, P): the coverage is not in the key',
     'expect': ('REF.corrections', 'Shomate.get_HoRT'), 'edits': [(S_, _SHO_H, _SHO_H_MEMO % "(T_i, kwargs.get('P'))")]},
    {'name': 'Shomate.get_HoRT remembers the summed corrections in a dictionary of the class (shared by all species)',
     'expect': ('REF.corrections', 'Shomate.get_HoRT'),
     'edits': [(S_, _SHO_H, (_SHO_H_MEMO % "(T_i, kwargs.get('P'), kwargs.get('x'), tuple((k_, v_.get('x')) for k_, v_ in "
                             "sorted(kwargs.items()) if k_.endswith('_kwargs')))")
                .replace("            try:\n                memo = self._mix_memo\n            except AttributeError:\n"
                         "                memo = self._mix_memo = {}\n", "            memo = self._mix_memo\n")),
               (S_, "    def get_CpoR(self, T, raise_error=True, raise_warning=True, **kwargs):",
                "    _mix_memo = {}\n\n    def get_CpoR(self, T, raise_error=True, raise_warning=True, **kwargs):")]},
    {'name': 'own per-species block recognised with re.fullmatch(r"(\\w+)_kwargs"): CO(S), O*, O-fcc never match',
     'expect': ('REF.corrections', 'get_HoRT'),
     'edits': [(P_, "            if key == '{}_kwargs'.format(specie_name):",
                "            m_ = re.fullmatch(r'(\\w+)_kwargs', key)\n            if m_ and m_.group(1) == specie_name:")]},
    {'name': 'own per-species block looked up after stripping everything from the first parenthesis',
     'expect': ('REF.corrections', 'get_HoRT'),
     'edits': [(P_, "            if key == '{}_kwargs'.format(specie_name):",
                "            if key == '{}_kwargs'.format(str(specie_name).split('(')[0]):")]},
]
EQUIV = [
    {'name': 'misc_models as a pass-through property of EmpiricalBase',
     'edits': [(E_, "        self.misc_models = misc_models\n\n    def plot_empirical(",
                "        self.misc_models = misc_models\n\n    @property\n    def misc_models(self):\n"
                "        return self._misc_models\n\n    @misc_models.setter\n    def misc_models(self, val):\n"
                "        self._misc_models = val\n\n    def plot_empirical(")]},
    {'name': 'Nasa.get_CpoR result buffer from np.empty (every element is assigned)',
     'edits': [(N_, "            CpoR = np.zeros(len(T))", "            CpoR = np.empty(len(T), dtype=np.double)", 0, 2)]},
    {'name': 'pressure adjustment spelled -ln(P/P0)',
     'edits': [(E_, "        return -np.log(P)", "        return -np.log(P / c.P0('bar'))")]},
    # --- round 3
    {'name': 'own per-species key spelled as an f-string',
     'edits': [(P_, "            if key == '{}_kwargs'.format(specie_name):",
                "            if key == f'{specie_name}_kwargs':")]},
    {'name': 'get_nasa_CpoR defined in pmutt.empirical and imported into pmutt.empirical.nasa',
     'edits': [(N_, _NASA_CP_DEF, ""),
               (N_, "from pmutt.empirical import EmpiricalBase\n", "from pmutt.empirical import EmpiricalBase, get_nasa_CpoR\n"),
               (E_, "class EmpiricalBase(_ModelBase):", _NASA_CP_DEF.lstrip('\n') + "\n\nclass EmpiricalBase(_ModelBase):")]},
    {'name': 'Nasa9.get_HoRT array branch: the segment of every temperature looked up before the loop',
     'edits': [(N_, "            for i, T_i in enumerate(T):\n                nasa = self._get_nasa(T=T_i)\n"
                "                HoRT[i] = nasa.get_HoRT(T=T_i) \\\n",
                "            segments = [self._get_nasa(T=T_i) for T_i in T]\n"
                "            for i, (T_i, nasa) in enumerate(zip(T, segments)):\n"
                "                HoRT[i] = nasa.get_HoRT(T=T_i) \\\n")]},
    {'name': 'Shomate.get_HoRT: corrections of one call collected in a local dictionary keyed by the position',
     'edits': [(S_, _SHO_H, "            mix = {}\n            mix[i] = np.sum(\n"
                "                _get_mix_quantity(misc_models=self.misc_models,\n"
                "                                  method_name='get_HoRT',\n"
                "                                  raise_error=raise_error,\n"
                "                                  raise_warning=raise_warning,\n"
                "                                  default_value=0.,\n"
                "                                  T=T_i,\n"
                "                                  **kwargs))\n            HoRT[i] += mix[i]")]},
]
