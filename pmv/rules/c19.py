"""C19 - phase diagrams and energy spans select the true extrema."""
import itertools
from fractions import Fraction as Fr

from ..nf import Rat, C
from ..source import Unsupported, AnchorError
from ..xlate import Interp, Obj, ListV, DictV, Raised, RankOrder, ArgV, _dtype_tag
from .common import same, show, sig
from .rxnfix import make_reaction, get_public

PD = 'pmutt.reaction.phasediagram.PhaseDiagram'


def new_interp(repo, **kw):
    """every interpreter of this module: a number that goes through text (formatted with a precision and parsed back
    with float()) is the number as rounded by that format, not the number that was printed"""
    I = Interp(repo, **kw)
    I.track_print_precision = True
    return I


def result_pair(out):
    """the documented result (GoRT, stable_phases), read the way every caller reads it - through the tuple protocol
    (`GoRT, stable = pd.get_GoRT_1D(...)`, result[0]): a plain tuple or a named tuple. None: not a pair"""
    if isinstance(out, Obj) and isinstance(out.attrs.get('__fields__'), ListV):
        fields = out.attrs['__fields__'].items
        if not all(f in out.attrs for f in fields):
            raise Unsupported('named tuple without a value for every field: %r' % (out,))
        out = ListV([out.attrs[f] for f in fields])
    if isinstance(out, ListV) and len(out) == 2:
        return list(out.items)
    return None


def rxn_obj(I, name):
    """an uninterpreted formation reaction: get_delta_GoRT(rev=False, act=False, **conditions) answers with a symbol
    that names the reaction and everything it was given (the direction and the final state only when they are not the
    documented defaults: the forward change between reactants and products is what the diagram tabulates);
    get_delta_quantity(initial_state, final_state, method_name, **conditions), the documented method behind it, gives
    the same symbol for ('reactants', 'products', 'get_GoRT')"""
    o = Obj(name)

    def dG(I_, obj, args, kwargs):
        if len(args) > 2:
            raise Unsupported('get_delta_GoRT of the uninterpreted reaction with %d positional arguments' % len(args))
        kw = dict(zip(('rev', 'act'), args))
        for k in kw:
            if k in kwargs:
                raise Unsupported('get_delta_GoRT: %s given twice' % k)
        kw.update(kwargs)
        for k in ('rev', 'act'):
            if k in kw and kw[k] is False:
                del kw[k]           # the documented default
            elif k in kw and kw[k] is not True:
                raise Unsupported('get_delta_GoRT(%s=%r) of the uninterpreted reaction' % (k, kw[k]))
        s = ','.join('%s=%s' % (k, sig(kw[k])) for k in sorted(kw))
        return I_.D.sym('%s.dGoRT(%s)' % (obj.name, s))

    def dQ(I_, obj, args, kwargs):
        kw = dict(zip(('initial_state', 'final_state', 'method_name'), args))
        if len(args) > 3 or any(k in kwargs for k in kw):
            raise Unsupported('get_delta_quantity of the uninterpreted reaction: arguments')
        kw.update(kwargs)
        try:
            what = (kw.pop('initial_state'), kw.pop('final_state'), kw.pop('method_name'))
        except KeyError:
            raise Unsupported('get_delta_quantity of the uninterpreted reaction: arguments')
        if not all(isinstance(w, str) for w in what) or 'rev' in kw or 'act' in kw:
            raise Unsupported('get_delta_quantity%r of the uninterpreted reaction' % (what,))
        if what != ('reactants', 'products', 'get_GoRT'):
            # another change (other states, another quantity): a quantity of its own
            return I_.D.sym('%s.delta[%s->%s;%s](%s)' % ((obj.name,) + what + (','.join(
                '%s=%s' % (k, sig(kw[k])) for k in sorted(kw)),)))
        return dG(I_, obj, [], kw)
    o.opaque_methods['get_delta_GoRT'] = dG
    o.opaque_methods['get_delta_quantity'] = dQ
    o.opaque_methods['to_string'] = lambda I_, ob, a, k: ob.name
    return o


def _asarray_model(I):
    """numpy.asarray hands back the very array it is given when no conversion is needed (an ndarray whose element type
    is the one asked for, or none asked for); only otherwise is the result a new array. The interpreter's general model
    always copies, which hides a caller's or an object's array being modified through the result."""
    if getattr(I, '_c19_asarray', False):
        return
    I._c19_asarray = True
    base = I.native['numpy.asarray']

    def asarray(I_, fr, args, kwargs, n):
        v = args[0] if args else kwargs.get('a')
        tag = _dtype_tag(args[1] if len(args) > 1 else kwargs.get('dtype'))
        if isinstance(v, ListV) and getattr(v, 'is_array', False) and not kwargs.get('copy') and (
                tag is None or (getattr(v, 'dtype', None) is not None and tag == v.dtype)):
            return v
        return base(I_, fr, args, kwargs, n)
    I.native['numpy.asarray'] = asarray


def _argext_kind(I):
    """an uninterpreted arg-extremum remembers which numpy function produced it: np.nanargmin/np.nanargmax skip
    undefined (NaN) candidates, np.argmin/np.argmax answer with the first NaN candidate. (The interpreter has one model
    for both spellings; an ArgV that already carries `nan` - set by the interpreter - is left as it is.)"""
    if getattr(I, '_c19_argext', False):
        return
    I._c19_argext = True

    def tag(v, nan):
        if isinstance(v, ArgV):
            if getattr(v, 'nan', None) is None:
                v.nan = nan
        elif isinstance(v, ListV):
            for x in v.items:
                tag(x, nan)

    def wrap(base, nan):
        def h(I_, fr, args, kwargs, n):
            out = base(I_, fr, args, kwargs, n)
            tag(out, nan)
            return out
        return h
    for name, nan in (('numpy.argmin', False), ('numpy.argmax', False), ('numpy.nanargmin', True),
                      ('numpy.nanargmax', True)):
        if name in I.native:
            I.native[name] = wrap(I.native[name], nan)


def make_diagram(I, ci, nr, kind, tag='', rx=None):
    """PhaseDiagram(reactions, norm_factors) through its constructor; the factors are given as a list, as an array of
    floats (the documented type) or left out (documented default: ones). rx: the reaction objects (of another diagram;
    reaction objects are shared between diagrams that normalise the same reactions differently, and one reaction may
    stand for two phases of one diagram)"""
    D = I.D
    _asarray_model(I)
    _argext_kind(I)
    if rx is None:
        rx = [rxn_obj(I, 'rxn%s%d' % (tag, i)) for i in range(nr)]
    rx = list(rx)
    nr = len(rx)
    kw = {'reactions': ListV(rx)}
    given = None
    if kind == 'default':
        vals = [C(1)] * nr
    else:
        given = ListV([D.sym('nf%s%d' % (tag, i)) for i in range(nr)])
        if kind == 'array':
            given.is_array = True
            given.dtype = 'float'
        elif kind == 'tuple':
            given.is_tuple = True           # and the reactions as a tuple as well
            kw['reactions'] = ListV(list(rx))
            kw['reactions'].is_tuple = True
        vals = list(given.items)
        kw['norm_factors'] = given
    pd = I.construct(ci, [], kw, name='pd' + tag)
    return pd, rx, vals, given


def factors_kept(run, I, ci, pd, vals, given, label, when):
    """the documented attribute norm_factors holds the factors given (ones when none were given) in a container that
    can hold real numbers - after construction and still after every scan; the caller's own array is left alone"""
    owner, fn = I.repo.find_method(ci, '__init__')
    try:
        got = get_public(I, pd, 'norm_factors')
    except Unsupported:
        got = None
    ok = isinstance(got, ListV) and len(got) == len(vals) and all(same(a, b) for a, b in zip(got.items, vals))
    run.check(ok, 'REF.factors', 'PhaseDiagram.norm_factors', when,
              '[%s] %s the normalisation factors of the diagram are %s, expected %s'
              % (label, when, show(got, 120), show(ListV(vals), 120)), owner.module, fn)
    integral = all(isinstance(v, Rat) and v.is_const() and v.const_value().denominator == 1 for v in vals)
    run.check(not ok or integral or getattr(got, 'dtype', None) != 'int', 'TYPE.int-buffer',
              'PhaseDiagram.norm_factors', when + ', element type',
              '[%s] %s the normalisation factors are kept in an array of integers: factors that are not whole numbers '
              '(surface areas) are truncated' % (label, when), owner.module, fn)
    if given is not None:
        run.check(all(same(a, b) for a, b in zip(given.items, vals)) and len(given) == len(vals), 'EFFECT.factors',
                  'PhaseDiagram.norm_factors', when + ', caller\'s container',
                  '[%s] %s the container of factors handed to the constructor has been modified: %s'
                  % (label, when, show(given, 120)), owner.module, fn)


def is_species_scan(name):
    """conditions of ONE species are passed as <species name>_kwargs={'P': ...} (pmutt._get_specie_kwargs, documented
    with Reaction): a scan over a per-species pressure has that name and dictionaries as grid values"""
    return name.endswith('_kwargs')


def grid_values(D, g, n, name, array=False):
    syms = [D.sym('%s%d' % (g, j)) for j in range(n)]
    if is_species_scan(name):
        return ListV([DictV({'P': s}) for s in syms])
    xs = ListV(syms)
    if array:
        xs.is_array = True
        xs.dtype = 'float'
    return xs


def conditions(D, spec):
    """fixed conditions of a request, {name: symbol name}: a per-species condition is a dictionary {'P': symbol}"""
    return {k: (DictV({'P': D.sym(v)}) if is_species_scan(k) else D.sym(v)) for k, v in spec.items()}


def cond_text(spec):
    return ' fixed=' + ','.join('%s:%s' % (k, spec[k]) for k in sorted(spec)) if spec else ''


def gas_constant(D, units):
    """R in `units` per kelvin: the Boltzmann constant, times Avogadro's number for a molar unit, in the energy unit
    asked for (U<unit>: that unit per joule)"""
    molar = units.endswith('/mol')
    base = units[:-4] if molar else units
    r = D.sym('kb')
    if molar:
        r = r * D.sym('Na')
    if base != 'J':
        r = r * D.sym('U<%s>' % base)
    return r


def stable_ok(s_, col):
    """the stable phase at one grid point: the arg-min over the candidates `col` (one per reaction)"""
    if len(col) == 1:
        return (isinstance(s_, Rat) and s_.iszero()) or (isinstance(s_, ArgV) and len(s_.cands) == 1)
    return isinstance(s_, ArgV) and s_.which == 'min' and len(s_.cands) == len(col) and \
        all(same(a, b) for a, b in zip(s_.cands, col))


def nan_kind(run, cells, meth, label, owner, fn):
    """the phase with the LOWEST energy: a candidate whose energy is undefined at a grid point (NaN: inf - inf of a
    reaction with gases on both sides at P = 0, a logarithm of a negative pressure) is not the lowest, so the arg-min
    has to be of the kind that skips undefined candidates - in get_GoRT_1D and get_GoRT_2D alike"""
    kinds = set()
    for s_ in cells:
        if isinstance(s_, ArgV) and len(s_.cands) > 1:
            k = getattr(s_, 'nan', None)
            if k is None:
                raise Unsupported('arg-min of unknown kind (NaN-skipping or not)')
            kinds.add(bool(k))
    run.check(False not in kinds, 'REF.argmin-nan', 'PhaseDiagram.' + meth, 'stable phase, undefined energies',
              '[%s] the stable phase is taken with an arg-min that does not skip undefined energies (np.argmin where '
              'np.nanargmin is needed): at a grid point where the energy of one reaction is undefined (NaN, e.g. gases '
              'on both sides at P = 0) that reaction is reported as the stable phase instead of the one with the lowest '
              'energy, and one- and two-parameter scans of the same diagram disagree' % label, owner.module, fn)


def scan_1d(run, I, ci, pd, rx, vals, nx, units, xname, label, g='x', fixed=None, array=False, pass_units=True,
            key=''):
    """one request get_GoRT_1D(x_name, x_values[, G_units], **fixed). The reference: entry [i][j] is reaction i's own
    delta G/RT under exactly the conditions of THIS request (the fixed ones and x_name = x_j; the uninterpreted
    reaction names everything it is given) divided by factor i, times R*T iff units are asked for"""
    D = I.D
    nr = len(rx)
    xs = grid_values(D, g, nx, xname, array)
    before = sig(xs)
    owner, fn = I.repo.find_method(ci, 'get_GoRT_1D')
    run.fn(owner.qual + '.get_GoRT_1D')
    spec = ({} if xname == 'T' else {'T': 'T' + g}) if fixed is None else fixed
    given = conditions(D, spec)
    before_c = {k: sig(v) for k, v in given.items()}
    kw = dict({'x_name': xname, 'x_values': xs}, **given)
    if units is not None or pass_units:         # documented default of G_units: None
        kw['G_units'] = units
    out = I.call_method(pd, 'get_GoRT_1D', [], kw)
    pair = result_pair(out)
    if pair is None:
        run.fail('REF.table', 'PhaseDiagram.get_GoRT_1D', 'result', '[%s] unexpected result %s'
                 % (label, show(out)), owner.module, fn)
        return
    G, stable = pair

    def want(i, kw):
        v = rx[i].opaque_methods['get_delta_GoRT'](I, rx[i], [], kw) / vals[i]
        return v * (gas_constant(D, units) * kw['T']) if units else v
    ok = isinstance(G, ListV) and len(G) == nr and all(
        isinstance(G.items[i], ListV) and len(G.items[i]) == nx and
        all(same(G.items[i].items[j], want(i, dict(given, **{xname: xs.items[j]}))) for j in range(nx))
        for i in range(nr))
    run.check(ok, 'REF.table', 'PhaseDiagram.get_GoRT_1D', 'tabulated energies' + key,
              '[%s] tabulated entry is not the reaction\'s own delta G/RT under the conditions of this request (%s) '
              'divided by its normalisation factor%s: %s'
              % (label, ', '.join(sorted(list(given) + [xname])), ' times RT' if units else '', show(G, 200)),
              owner.module, fn, sample='[%s] G[i][j] == dG_i(x_j)/nf_i%s' % (label, '*R*T' if units else ''))
    run.check(sig(xs) == before and all(sig(v) == before_c[k] for k, v in given.items()), 'EFFECT.grid',
              'PhaseDiagram.get_GoRT_1D', 'caller\'s grid and conditions',
              '[%s] the grid values or the condition dictionaries handed in have been modified: %s'
              % (label, show(xs, 120)), owner.module, fn)
    if not ok:
        return
    # the stable phase at grid point j minimises over the reactions at that point
    good = isinstance(stable, ListV) and len(stable) == nx and all(
        stable_ok(stable.items[j], [G.items[i].items[j] for i in range(nr)]) for j in range(nx))
    run.check(good, 'AXIS.argmin', 'PhaseDiagram.get_GoRT_1D', 'stable phase per grid point',
              '[%s] the arg-min must run over the %d reactions at each of the %d grid points; got %s'
              % (label, nr, nx, show(stable, 200)), owner.module, fn)
    if good:
        nan_kind(run, stable.items, 'get_GoRT_1D', label, owner, fn)


def scan_2d(run, I, ci, pd, rx, vals, nx, nx2, n1, n2, units2, label, g='x', h='y', fixed=None, array=False,
            pass_units=True, key=''):
    D = I.D
    nr = len(rx)
    xs = grid_values(D, g, nx, n1, array)
    ys = grid_values(D, h, nx2, n2, array)
    before = sig(xs) + sig(ys)
    owner, fn = I.repo.find_method(ci, 'get_GoRT_2D')
    run.fn(owner.qual + '.get_GoRT_2D')
    spec = ({} if 'T' in (n1, n2) else {'T': 'Tfix' + g}) if fixed is None else fixed
    fixed = conditions(D, spec)
    before_c = {k: sig(v) for k, v in fixed.items()}
    kw_ = dict({'x1_name': n1, 'x1_values': xs, 'x2_name': n2, 'x2_values': ys}, **fixed)
    if units2 is not None or pass_units:
        kw_['G_units'] = units2
    out = I.call_method(pd, 'get_GoRT_2D', [], kw_)
    pair = result_pair(out)
    if pair is None:
        run.fail('REF.table', 'PhaseDiagram.get_GoRT_2D', 'result', '[%s] unexpected result %s'
                 % (label, show(out)), owner.module, fn)
        return
    G, stable = pair
    ok = isinstance(G, ListV) and len(G) == nr
    if ok:
        for i, j, k in itertools.product(range(nr), range(nx), range(nx2)):
            kw = dict(fixed, **{n1: xs.items[j], n2: ys.items[k]})
            w = rx[i].opaque_methods['get_delta_GoRT'](I, rx[i], [], kw) / vals[i]
            if units2:
                w = w * gas_constant(D, units2) * kw['T']
            try:
                ok = ok and same(G.items[i].items[j].items[k], w)
            except (AttributeError, IndexError):
                ok = False
    run.check(ok, 'REF.table', 'PhaseDiagram.get_GoRT_2D', 'tabulated energies' + key,
              '[%s] tabulated entry [i][j][k] is not dG_i/nf_i under the conditions of this request (%s, %s = x1_j, '
              '%s = x2_k)%s: %s' % (label, ', '.join(sorted(fixed)) or 'no fixed ones', n1, n2,
                                    ' times R*T at that grid point' if units2 else '', show(G, 200)), owner.module, fn)
    run.check(sig(xs) + sig(ys) == before and all(sig(v) == before_c[k] for k, v in fixed.items()), 'EFFECT.grid',
              'PhaseDiagram.get_GoRT_2D', 'caller\'s grids and conditions',
              '[%s] the grid values or the condition dictionaries handed in have been modified: %s; %s'
              % (label, show(xs, 100), show(ys, 100)), owner.module, fn)
    if not ok:
        return
    good = isinstance(stable, ListV) and len(stable) == nx
    cells = []
    if good:
        for j, k in itertools.product(range(nx), range(nx2)):
            try:
                s_ = stable.items[j].items[k]
            except (AttributeError, IndexError):
                good = False
                break
            cells.append(s_)
            good = good and stable_ok(s_, [G.items[i].items[j].items[k] for i in range(nr)])
    run.check(good, 'AXIS.argmin', 'PhaseDiagram.get_GoRT_2D', 'stable phase per grid point',
              '[%s] the arg-min must run over the reactions at each (x1, x2) grid point; got %s'
              % (label, show(stable, 200)), owner.module, fn,
              sample='[%s] stable[j][k] == argmin_i G[i][j][k]' % label)
    if good:
        nan_kind(run, cells, 'get_GoRT_2D', label, owner, fn)


SP = 'xO2_kwargs'       # conditions of the species named xO2 (mixed case: no case folding maps the name to itself)


def rq(kind, *axes, u=None, fixed=None, g=None):
    return {'kind': kind, 'axes': axes, 'u': u, 'fixed': fixed, 'g': g}


# one diagram asked several times. Requests that share the scan variable(s), the grid (tag g: the very same symbols)
# and the units differ in the FIXED conditions only, or leave out a condition an earlier request gave: every answer is
# decided against the conditions of its own request
SEQS = (
    (rq('1D', 'T', u='kJ/mol'), rq('1D', 'P'), rq('2D', 'T', 'P', u='kJ/mol'), rq('2D', 'P', 'T'),
     rq('1D', 'P', u='kJ/mol')),
    (rq('2D', 'T', 'P', u='kJ/mol'), rq('1D', 'T'), rq('1D', 'P_B', u='kJ/mol'), rq('2D', 'T', 'P')),
    (rq('1D', 'T', fixed={'P': 'p1'}, g='a'), rq('1D', 'T', fixed={'P': 'p2'}, g='a'),
     rq('1D', 'T', fixed={}, g='a'),
     rq('1D', 'P', u='kJ/mol', fixed={'T': 'T1'}, g='b'), rq('1D', 'P', u='kJ/mol', fixed={'T': 'T2'}, g='b'),
     rq('1D', 'T', u='kJ/mol', fixed={SP: 'q1'}, g='a'), rq('1D', 'T', u='kJ/mol', fixed={}, g='a'),
     rq('1D', 'T', fixed={'P': 'p1'}, g='a')),
    (rq('2D', 'T', 'P', fixed={SP: 'q1'}, g='c'), rq('2D', 'T', 'P', fixed={SP: 'q2'}, g='c'),
     rq('2D', 'T', 'P', fixed={}, g='c'),
     rq('2D', 'P', SP, u='kJ/mol', fixed={'T': 'T1'}, g='d'), rq('2D', 'P', SP, u='kJ/mol', fixed={'T': 'T2'}, g='d'),
     rq('1D', SP, fixed={'T': 'T1', 'P': 'p1'}, g='e'), rq('1D', SP, fixed={'T': 'T1'}, g='e'),
     rq('2D', 'T', 'P', fixed={'n': 'n1'}, g='c')),
)


def rq_text(r):
    return '%s %s units=%s%s' % (r['kind'], ' '.join(r['axes']), r['u'], cond_text(r['fixed'] or {}))


def request(run, I, ci, pd, rx, vals, r, pos, base, done, array, nx=2, key=None):
    g = r['g'] or 'abcdefgh'[pos]
    after = (' after ' + '; '.join(done)) if done else ''
    # a request that repeats an earlier one except for the fixed conditions has a finding key of its own
    if key is None:
        key = ', conditions of this request' if r['fixed'] is not None and done else ''
    if r['kind'] == '1D':
        label = '%s request %d: 1D scan=%s units=%s%s%s' % (base, pos + 1, r['axes'][0], r['u'],
                                                             cond_text(r['fixed'] or {}), after)
        scan_1d(run, I, ci, pd, rx, vals, nx, r['u'], r['axes'][0], label, g=g, fixed=r['fixed'], array=array,
                pass_units=pos % 2 == 0, key=key)
    else:
        label = '%s request %d: 2D x1=%s x2=%s units=%s%s%s' % (base, pos + 1, r['axes'][0], r['axes'][1], r['u'],
                                                                cond_text(r['fixed'] or {}), after)
        scan_2d(run, I, ci, pd, rx, vals, nx, 2, r['axes'][0], r['axes'][1], r['u'], label, g=g, h=g.upper(),
                fixed=r['fixed'], array=array, pass_units=pos % 2 == 0, key=key)
    done.append(rq_text(r))


def phase_diagrams(run, repo):
    ci = repo.cls(PD)
    n = 0
    full = run.tier == 'thorough'
    for nr, nx in ((1, 1), (2, 3), (3, 2), (3, 4)):
        # scan variables: the common pressure, the temperature, any further keyword of the reactions (P_B, n) and the
        # conditions of one species (<name>_kwargs with dictionaries as grid values)
        # (units: none, a molar unit, a unit per molecule, joules)
        for units, xname in itertools.product((None, 'kJ/mol', 'eV', 'J/mol'), ('P', 'T', 'P_B', 'O2_kwargs', 'n')):
            if xname == 'n' and not full and (nr, units) != (2, None):
                continue
            if units in ('eV', 'J/mol') and not full and (nr, units, xname) not in ((2, 'eV', 'T'), (3, 'eV', 'P'),
                                                                                   (2, 'J/mol', 'P')):
                continue
            I = new_interp(repo)
            pd, rx, vals, given = make_diagram(I, ci, nr, 'list')
            label = '1D reactions=%d grid=%d units=%s%s' % (nr, nx, units, '' if xname == 'P' else ' scan=' + xname)
            n += 1
            if not isinstance(pd, Obj):
                owner, fn = repo.find_method(ci, '__init__')
                run.fail('REF.factors', 'PhaseDiagram.__init__', 'result', '[%s] the diagram is not built: %s'
                         % (label, show(pd)), owner.module, fn)
                continue
            factors_kept(run, I, ci, pd, vals, given, label, 'after construction')
            scan_1d(run, I, ci, pd, rx, vals, nx, units, xname, label, array=xname == 'P_B',
                    pass_units=xname != 'T', key=', scan over the conditions of one species'
                    if is_species_scan(xname) else '')
        # 2-D: every assignment of the scan variables (temperature first, second, or fixed; a species' own conditions
        # first or second), with and without units
        for nx2, (n1, n2, units2) in itertools.product((1, 2, 3), (('T', 'P', None), ('T', 'P', 'kJ/mol'),
                                                                  ('P', 'T', 'kJ/mol'), ('P', 'P_B', 'kJ/mol'),
                                                                  ('P', 'T', None), ('T', SP, None),
                                                                  (SP, 'T', 'kJ/mol'), ('n', 'O2_kwargs', 'kJ/mol'),
                                                                  ('T', 'P', 'eV'), ('P', 'T', 'J/mol'))):
            if not full and nx2 != 2 and (is_species_scan(n1) or is_species_scan(n2)):
                continue        # the species scans on the other grid sizes: thorough tier
            if not full and units2 in ('eV', 'J/mol') and (nr, nx2) not in ((2, 2), (3, 3)):
                continue
            I = new_interp(repo)
            pd, rx, vals, given = make_diagram(I, ci, nr, 'list')
            label = '2D reactions=%d grid=%dx%d x1=%s x2=%s units=%s' % (nr, nx, nx2, n1, n2, units2)
            n += 1
            if not isinstance(pd, Obj):
                continue        # reported by the one-parameter instance of this size
            scan_2d(run, I, ci, pd, rx, vals, nx, nx2, n1, n2, units2, label, array=n2 == 'P_B',
                    pass_units=n1 != 'P', key=', scan over the conditions of one species'
                    if is_species_scan(n1) or is_species_scan(n2) else '')
    # one diagram asked several times: factors given as an array of floats (the documented type), as a list, or left
    # out (ones); scans with and without units, in one and two parameters, in both orders - every answer is decided
    # against the factors the diagram was given and the conditions of the request itself, and the diagram still shows
    # those factors afterwards
    for nr, kind, (si, seq) in itertools.product((1, 2, 3), ('array', 'default', 'list', 'tuple'), enumerate(SEQS)):
        if si >= 2 and not full and (nr, kind) not in ((1, 'array'), (2, 'default'), (3, 'list'), (2, 'array')):
            continue
        if kind == 'tuple' and not full and (nr, si) not in ((2, 0), (3, 1)):
            continue
        I = new_interp(repo)
        pd, rx, vals, given = make_diagram(I, ci, nr, kind)
        base = 'reactions=%d factors=%s' % (nr, {'array': 'array of floats', 'default': 'not given', 'list': 'list',
                                                   'tuple': 'tuple (reactions: tuple)'}[kind])
        n += 1
        if not isinstance(pd, Obj):
            owner, fn = repo.find_method(ci, '__init__')
            run.fail('REF.factors', 'PhaseDiagram.__init__', 'result', '[%s] the diagram is not built: %s'
                     % (base, show(pd)), owner.module, fn)
            continue
        factors_kept(run, I, ci, pd, vals, given, base, 'after construction')
        done = []
        for pos, r in enumerate(seq):
            request(run, I, ci, pd, rx, vals, r, pos, base, done, array=kind == 'array')
            factors_kept(run, I, ci, pd, vals, given, base, 'after request %d (%s)' % (pos + 1, done[-1]))
            n += 1
    # two diagrams (other reactions, other factors, another number of phases) in one program, asked in turn for the
    # same scan variable, grid and units: nothing of the answers to one diagram - tables, conditions - may show up
    # in the answers of the other
    two = ((0, rq('1D', 'T', fixed={'P': 'p1'}, g='a')), (1, rq('1D', 'T', fixed={}, g='a')),
           (1, rq('1D', 'P', u='kJ/mol', fixed={'T': 'T1'}, g='b')),
           (0, rq('1D', 'P', u='kJ/mol', fixed={'T': 'T2'}, g='b')),
           (0, rq('2D', 'T', 'P', u='kJ/mol', fixed={SP: 'q1'}, g='c')),
           (1, rq('2D', 'T', 'P', u='kJ/mol', fixed={}, g='c')), (0, rq('1D', 'T', fixed={}, g='a')))
    for nr, (kind_a, kind_b) in itertools.product((1, 2, 3), (('list', 'array'), ('default', 'list'))):
        if not full and (nr + (kind_a == 'list')) % 2:
            continue
        I = new_interp(repo)
        nr_b = nr % 3 + 1
        pds = (make_diagram(I, ci, nr, kind_a), make_diagram(I, ci, nr_b, kind_b, tag='B'))
        n += 1
        if not all(isinstance(p[0], Obj) for p in pds):
            continue            # reported above
        done = []
        for pos, (which, r) in enumerate(two):
            pd, rx, vals, given = pds[which]
            base = 'two diagrams (reactions=%d factors=%s; reactions=%d factors=%s), the %s one' % (
                nr, kind_a, nr_b, kind_b, ('first', 'second')[which])
            request(run, I, ci, pd, rx, vals, r, pos, base, done, array=False)
            done[-1] = '%s diagram: %s' % (('first', 'second')[which], done[-1])
            for wh, (pd_, rx_, vals_, given_) in enumerate(pds):
                factors_kept(run, I, ci, pd_, vals_, given_, base, 'the %s diagram after request %d (%s)'
                             % (('first', 'second')[wh], pos + 1, done[-1]))
            n += 1
    # diagrams over the SAME reaction objects (the same formation reactions normalised per formula unit by one diagram
    # and per metal atom by the next), and a diagram in which one reaction object stands for two phases with two
    # factors: the factors belong to the diagram - what a later diagram is given does not change the answers of an
    # earlier one (asked before and after the later ones are built and asked), and the two phases of one reaction are
    # divided by their own factors
    ordinal = ('first', 'second', 'third')
    shared = ((0, rq('1D', 'T', fixed={'P': 'p1'}, g='a')), (1, rq('1D', 'T', fixed={'P': 'p1'}, g='a')),
              (2, rq('1D', 'T', u='eV', fixed={'P': 'p1'}, g='a')),
              (0, rq('2D', 'T', 'P', u='kJ/mol', fixed={}, g='c')), (1, rq('2D', 'T', 'P', u='kJ/mol', fixed={}, g='c')),
              (2, rq('2D', 'P', 'T', fixed={}, g='d')), (1, rq('1D', 'P', u='kJ/mol', fixed={'T': 'T1'}, g='b')),
              (0, rq('1D', 'T', fixed={'P': 'p1'}, g='a')))
    for nr, (kind_a, kind_b) in itertools.product((2, 3), (('list', 'array'), ('default', 'list'),
                                                           ('array', 'default'))):
        if not full and (nr, kind_a) not in ((2, 'list'), (3, 'default'), (2, 'array')):
            continue
        I = new_interp(repo)
        first = make_diagram(I, ci, nr, kind_a)
        pds = [first]
        n += 1
        if isinstance(first[0], Obj):
            # the first diagram is asked once before the others exist
            base = 'diagrams sharing their reaction objects (reactions=%d factors=%s), the first one before the ' \
                'others are built' % (nr, kind_a)
            request(run, I, ci, first[0], first[1], first[2], rq('1D', 'T', fixed={'P': 'p0'}, g='z'), 0, base, [],
                    array=False, key=', diagrams sharing reaction objects')
        pds.append(make_diagram(I, ci, nr, kind_b, tag='B', rx=first[1]))
        pds.append(make_diagram(I, ci, nr + 1, 'list', tag='C', rx=[first[1][0]] + first[1]))
        if not all(isinstance(p[0], Obj) for p in pds):
            continue            # reported above
        done = []
        for pos, (which, r) in enumerate(shared):
            pd, rx, vals, given = pds[which]
            base = 'diagrams sharing their reaction objects (reactions=%d factors=%s; the same reactions, factors=%s; ' \
                'the first reaction twice and the others, own factors), the %s one' % (nr, kind_a, kind_b,
                                                                                     ordinal[which])
            request(run, I, ci, pd, rx, vals, r, pos, base, done, array=False,
                    key=', diagrams sharing reaction objects')
            done[-1] = '%s diagram: %s' % (ordinal[which], done[-1])
            for wh, (pd_, rx_, vals_, given_) in enumerate(pds):
                factors_kept(run, I, ci, pd_, vals_, given_, base, 'the %s diagram after request %d (%s)'
                             % (ordinal[wh], pos + 1, done[-1]))
            n += 1
    # grids of more than ten values (the property: 1-30 values, 1-8 reactions): whatever goes by the decimal spelling
    # of a grid index - labels, keys that are sorted as text - changes at index 10
    long_1d = [(2, 11, 'T', 'kJ/mol', False), (2, 12, 'P', None, True), (2, 11, 'O2_kwargs', 'eV', False)]
    long_2d = [(2, 11, 2, 'T', 'P', 'kJ/mol'), (2, 2, 11, 'P', 'T', None)]
    if full:
        long_1d += [(8, 30, 'T', None, True), (8, 30, 'P', 'kJ/mol', False), (1, 30, 'P_B', 'kJ/mol', True),
                    (3, 21, 'n', None, False), (2, 30, SP, 'kJ/mol', False), (2, 10, 'T', None, False)]
        long_2d += [(2, 30, 30, 'T', 'P', None), (8, 12, 11, 'P', SP, 'kJ/mol'), (1, 11, 11, SP, 'T', None)]
    for nr, nx, xname, units, array in long_1d:
        I = new_interp(repo)
        pd, rx, vals, given = make_diagram(I, ci, nr, 'list')
        label = '1D reactions=%d grid=%d units=%s scan=%s' % (nr, nx, units, xname)
        n += 1
        if not isinstance(pd, Obj):
            continue            # reported above
        scan_1d(run, I, ci, pd, rx, vals, nx, units, xname, label, array=array, key=', grid of ten and more values')
        factors_kept(run, I, ci, pd, vals, given, label, 'after the scan')
    for nr, nx, nx2, n1, n2, units2 in long_2d:
        I = new_interp(repo)
        pd, rx, vals, given = make_diagram(I, ci, nr, 'list')
        label = '2D reactions=%d grid=%dx%d x1=%s x2=%s units=%s' % (nr, nx, nx2, n1, n2, units2)
        n += 1
        if not isinstance(pd, Obj):
            continue
        scan_2d(run, I, ci, pd, rx, vals, nx, nx2, n1, n2, units2, label, key=', grid of ten and more values')
    # the documented attribute norm_factors given other values (as many as before) between two requests: the second
    # request is normalised by the factors the diagram shows at that moment - a converted copy remembered from the
    # first request (refreshed only when the number of reactions changes) answers with the old ones
    from .rxnfix import set_public
    for nr, kind, kind2, r1, r2 in ((2, 'list', 'list', rq('1D', 'T', fixed={'P': 'p0'}, g='a'),
                                     rq('1D', 'T', u='kJ/mol', fixed={'P': 'p0'}, g='b')),
                                    (3, 'array', 'array', rq('2D', 'T', 'P', fixed={}, g='c'),
                                     rq('1D', 'P', fixed={'T': 'T1'}, g='d')),
                                    (2, 'default', 'list', rq('1D', 'P', u='eV', fixed={'T': 'T1'}, g='e'),
                                     rq('2D', 'P', 'T', u='eV', fixed={}, g='f'))):
        I = new_interp(repo)
        pd, rx, vals, given = make_diagram(I, ci, nr, kind)
        n += 1
        if not isinstance(pd, Obj):
            continue            # reported above
        base = 'reactions=%d factors=%s, then norm_factors assigned %d other values (%s)' % (nr, kind, nr, kind2)
        done = []
        request(run, I, ci, pd, rx, vals, r1, 0, base, done, array=False, key=', factors assigned between requests')
        fresh = ListV([I.D.sym('nfZ%d' % i) for i in range(nr)])
        if kind2 == 'array':
            fresh.is_array = True
            fresh.dtype = 'float'
        vals2 = list(fresh.items)
        set_public(I, pd, 'norm_factors', fresh)
        done.append('norm_factors = %s' % show(fresh, 60))
        request(run, I, ci, pd, rx, vals2, r2, 1, base, done, array=False, key=', factors assigned between requests')
        factors_kept(run, I, ci, pd, vals2, fresh, base, 'after the second request')
    return n


def species_name(name, units, conds):
    """the symbol of a species' Gibbs energy: named by the getter (G/RT without units, G with) and by everything the
    getter was given"""
    kw = dict(conds)
    if units is not None:
        kw['units'] = units
    return '%s.%s;%s' % (name, 'get_G' if units is not None else 'get_GoRT',
                         ','.join('%s=%s' % (k, sig(kw[k])) for k in sorted(kw)))


def species_stub(name, attrs, extra=()):
    """an uninterpreted species: get_GoRT(T[, extra]) and get_G(T, units[, extra]) answer with a symbol that names
    all the arguments received"""
    o = Obj(name, attrs=dict({'name': name}, **attrs))

    def mk(meth):
        def g(I_, obj, args, kwargs):
            return I_.D.sym('%s.%s;%s' % (obj.name, meth, ','.join(
                '%s=%s' % (k, sig(kwargs[k])) for k in sorted(kwargs))))
        return g
    for meth, ps in (('get_GoRT', ('T',)), ('get_G', ('T', 'units'))):
        o.opaque_methods[meth] = mk(meth)
        o.opaque_params[meth] = ps + tuple(extra)
    return o


def extremes_at(nstates, imax, imin):
    """an ordering of nstates state energies with the highest at position imax and the lowest at position imin; the
    others in an order that depends on the pair (neither ascending nor descending)"""
    rest = [i for i in range(nstates) if i not in (imax, imin)]
    sh = (imax * 7 + imin * 3) % max(1, len(rest))
    rest = rest[sh:][::-1] + rest[:sh]
    perm = [None] * nstates
    perm[imax], perm[imin] = nstates - 1, 0
    for rk, i in enumerate(rest):
        perm[i] = rk + 1
    return tuple(perm)


def span_step(name, ts):
    """an uninterpreted step of a sequence: its state energies are named by the state and by everything asked for"""
    r = Obj(name)
    r.attrs['reactants'] = 'R'
    r.attrs['products'] = 'P'
    r.attrs['transition_state'] = 'T' if ts else None

    def G(I_, obj, args, kwargs):
        kw = dict(zip(('state', 'units', 'T'), args), **kwargs)
        state = kw.pop('state', None)
        units_ = kw.pop('units', None)
        return I_.D.sym('%s.G[%s;units=%s;%s]' % (obj.name, state, units_, ','.join(
            '%s=%s' % (k, sig(kw[k])) for k in sorted(kw))))
    r.opaque_methods['get_G_state'] = G
    return r


def e_span(run, repo, max_states):
    n = 0
    ci = repo.cls('pmutt.reaction.Reactions')
    owner, fn = repo.find_method(ci, 'get_E_span')
    run.fn(owner.qual + '.get_E_span')
    # sequences of 1-3 steps, with and without transition states: every ordering of the state energies; longer
    # sequences (up to the 8 steps of the property): every pair of positions of the highest and the lowest state
    thorough = max_states > 6
    # (11 and more states: what goes by the decimal spelling of a state's position changes at position 10)
    shapes = [(True,), (False,), (False, False), (True, False), (False, True), (True, True), (False, False, False),
              (False, False, True), (False, True, True, False), (True, True, False, True)]
    if thorough:
        shapes += [(True, False, False, True, False, True), (True,) * 8, (False,) * 8]
    for shape in shapes:
        nstates = sum(3 if ts else 2 for ts in shape)
        if nstates <= max_states:
            perms = list(itertools.permutations(range(nstates)))
            if len(perms) > 720:
                perms = perms[::len(perms) // 720 + 1]
            if not thorough and shape == (False, False, False):
                # quick tier: one ordering per (highest, lowest) pair of positions plus a sample of the others
                perms = [extremes_at(nstates, a, b) for a in range(nstates) for b in range(nstates) if a != b] + \
                    perms[::29]
        elif len(shape) > 3:
            perms = [extremes_at(nstates, a, b) for a in range(nstates) for b in range(nstates) if a != b and (
                thorough or nstates <= 10 or max(a, b) >= 10 or (a + 2 * b) % 11 == 0)]
        else:
            continue
        for pi, perm in enumerate(perms):
            # the conditions the span is asked for: every one of them (unit, temperature, pressure, conditions given
            # per species) must reach every state energy - the state energies are named by all they were given
            variants = (0, 1, 2) if nstates <= 3 else (pi % 3,)
            for variant in variants:
                ranks = {}
                # a state energy taken under other conditions than the ones asked for has the place of that state in
                # the ordering (a witness in which the conditions shift all states alike), so that a lost condition
                # is seen in the value of the span and not as an undecidable comparison
                I = new_interp(repo, order=RankOrder(ranks, fallback=lambda a, ranks=ranks: next(
                    (rk for nm, rk in ranks.items() if a.split(';')[0] == nm.split(';')[0]), None)))
                D = I.D
                rxns = [span_step('step%d' % si, ts) for si, ts in enumerate(shape)]
                seq = I.construct(ci, [], {'reactions': ListV(rxns)}, name='seq')
                if not isinstance(seq, Obj):
                    run.fail('REF.span', 'Reactions.__init__', 'result', 'the sequence is not built: %s'
                             % show(seq), owner.module, fn)
                    continue
                # the same sequence asked a second time (every eighth ordering; thorough tier: every one): in another
                # unit, at another temperature and with the opposite ordering - nothing of the first answer survives
                calls = [(('kJ/mol', 'eV', 'kcal/mol')[variant], 'T', perm)]
                if thorough or pi % 8 == 0:
                    calls.append((('eV', 'kcal/mol', 'kJ/mol')[variant], 'T2', tuple(nstates - 1 - r_ for r_ in perm)))
                for call, (units, Tname, pm) in enumerate(calls):
                    conds = ({'T': D.sym(Tname)},
                             {'T': D.sym(Tname), 'P': D.sym('P')},
                             {'T': D.sym(Tname), 'P': D.sym('P'), 'A_kwargs': DictV({'P': D.sym('pA')})})[variant]
                    names = []
                    for si, ts in enumerate(shape):
                        for st in ('reactants',) + (('transition_state',) if ts else ()) + ('products',):
                            names.append('step%d.G[%s;units=%s;%s]' % (si, st, units, ','.join(
                                '%s=%s' % (k, sig(conds[k])) for k in sorted(conds))))
                    if call:
                        # states asked under the first request's conditions keep the first request's places
                        first = dict(ranks)
                        ranks.clear()
                        ranks.update(zip(names, pm))
                        ranks.update(first)
                    ranks.update(zip(names, pm))
                    got = I.call_method(seq, 'get_E_span', [], dict({'units': units}, **conds))
                    imax = max(range(nstates), key=lambda i: pm[i])
                    imin = min(range(nstates), key=lambda i: pm[i])
                    want = D.sym(names[imax]) - D.sym(names[imin])
                    if imax < imin:
                        want = want + D.sym(names[-1]) - D.sym(names[0])
                    n += 1
                    run.check(isinstance(got, Rat) and got.eq(want), 'REF.span', 'Reactions.get_E_span',
                              'span' if call == 0 else 'span, second request',
                              '[steps=%s ordering=%s units=%s conditions=%s%s] span is %s, expected highest minus '
                              'lowest%s of the state energies at the units and conditions asked for'
                              % (shape, pm, units, sorted(conds), '' if call == 0 else
                                 ', second request to the sequence (first: units=%s at T, opposite ordering)'
                                 % calls[0][0], show(got, 160),
                                 ' plus the overall reaction energy' if imax < imin else ''),
                              owner.module, fn,
                              sample='steps=%s ordering=%s -> %s' % (shape, pm, show(want, 100))
                              if n % 97 == 0 else None)
    # two sequences over the SAME step objects (a full cycle and a part of it in another order), asked in turn under
    # the same conditions: what a sequence knows about its steps is its own
    tss = (True, False, True)
    per_step = [['step%d.%s' % (si, st) for st in ('reactants',) + (('transition_state',) if ts else ()) +
                 ('products',)] for si, ts in enumerate(tss)]
    total = sum(len(p_) for p_ in per_step)
    pairs = [(a, b) for a in range(total) for b in range(total) if a != b]
    for pi, (a, b) in enumerate(pairs if thorough else pairs[::4]):
        perm = extremes_at(total, a, b)
        place = dict(zip([x for p_ in per_step for x in p_], perm))
        ranks = {}
        I = new_interp(repo, order=RankOrder(ranks))
        D = I.D
        steps = [span_step('step%d' % si, ts) for si, ts in enumerate(tss)]
        orders = ((0, 1, 2), (2, 0), (0, 1, 2))
        seqs = [I.construct(ci, [], {'reactions': ListV([steps[k] for k in orders[0]])}, name='seqA'),
                I.construct(ci, [], {'reactions': ListV([steps[k] for k in orders[1]])}, name='seqB')]
        seqs.append(seqs[0])
        if not all(isinstance(q, Obj) for q in seqs):
            continue            # reported above
        units = ('kJ/mol', 'eV')[pi % 2]
        conds = {'T': D.sym('T')}
        for call, (seq, order) in enumerate(zip(seqs, orders)):
            labels = [x for k in order for x in per_step[k]]
            names = ['%s.G[%s;units=%s;T=%s]' % (x.split('.')[0], x.split('.')[1], units, sig(conds['T']))
                     for x in labels]
            pm = [place[x] for x in labels]
            ranks.update(zip(names, pm))
            got = I.call_method(seq, 'get_E_span', [], dict({'units': units}, **conds))
            imax = max(range(len(pm)), key=lambda i: pm[i])
            imin = min(range(len(pm)), key=lambda i: pm[i])
            want = D.sym(names[imax]) - D.sym(names[imin])
            if imax < imin:
                want = want + D.sym(names[-1]) - D.sym(names[0])
            n += 1
            run.check(isinstance(got, Rat) and got.eq(want), 'REF.span', 'Reactions.get_E_span',
                      'span, sequences sharing step objects',
                      '[two sequences over the same step objects (transition states: %s): steps %s, then steps %s, '
                      'then the first again; request %d, steps %s, ordering of its states=%s units=%s] span is %s, '
                      'expected highest minus lowest%s of the state energies of the steps of THIS sequence in its own '
                      'order' % (tss, orders[0], orders[1], call + 1, order, tuple(pm), units, show(got, 160),
                                 ' plus the overall reaction energy' if imax < imin else ''), owner.module, fn)
    # Network.get_E_span (own copy)
    m = repo.module('pmutt.reaction.network')
    nci = repo.cls('pmutt.reaction.network.Network')
    owner2, fn2 = repo.find_method(nci, 'get_E_span')
    run.fn(owner2.qual + '.get_E_span')
    # paths of 2-4 states: every ordering; a path of 11 states (position 10 is the first with two digits): pairs of
    # positions of the highest and the lowest state
    long_pairs = [(a, b) for a in range(11) for b in range(11) if a != b and (
        thorough or max(a, b) >= 10 or (a + 2 * b) % 11 == 0)]
    for ns in (2, 3, 4, 11):
        for pi, perm in enumerate(itertools.permutations(range(ns)) if ns <= 4 else
                                  [extremes_at(ns, a, b) for a, b in long_pairs]):
            for units in (None, 'kJ/mol') if ns <= 4 or thorough else ((None, 'kJ/mol')[pi % 2],):
                ranks = {}
                base = {}
                I = new_interp(repo, order=RankOrder(ranks, fallback=lambda a, base=base: base.get(a.split('.')[0])))
                D = I.D
                nodes = DictV()
                for k in range(ns):
                    sp = species_stub('sp%d' % k, {})
                    nodes.d['state%d' % k] = DictV({'species': ListV([sp]), 'stoich': ListV([C(1)])})
                    base['sp%d' % k] = perm[k]
                graph = Obj('graph', attrs={'nodes': nodes})
                net = Obj('net', nci, attrs={'graph': graph})
                # two requests to the same network: the second one under another temperature, in the other unit and
                # with the opposite ordering of the state energies (nothing of the first answer may survive)
                units_b = 'eV' if units is None else None
                perm_b = tuple(ns - 1 - r_ for r_ in perm)
                for call, (un, T_, pm) in enumerate(((units, D.sym('T'), perm), (units_b, D.sym('T2'), perm_b))):
                    names = [species_name('sp%d' % k, un, {'T': T_}) for k in range(ns)]
                    for k in range(ns):
                        ranks[names[k]] = pm[k]
                    got = I.call_method(net, 'get_E_span', [], {'path': ListV(['state%d' % k for k in range(ns)]),
                                                                'units': un, 'T': T_})
                    imax = max(range(ns), key=lambda i: pm[i])
                    imin = min(range(ns), key=lambda i: pm[i])
                    want = D.sym(names[imax]) - D.sym(names[imin])
                    if imax < imin:
                        want = want + D.sym(names[-1]) - D.sym(names[0])
                    n += 1
                    run.check(isinstance(got, Rat) and got.eq(want), 'REF.span', 'Network.get_E_span',
                              'span' if call == 0 else 'span, second request',
                              '[path of %d states ordering=%s units=%s T=%s%s] span is %s, expected highest minus '
                              'lowest%s of the state energies in the unit and at the temperature asked for'
                              % (ns, pm, un, show(T_), '' if call == 0 else ', after a request with units=%s at T'
                                 % (units,), show(got, 160), ' plus last minus first' if imax < imin else ''),
                              owner2.module, fn2)
    # the network built by the real constructor: every state node carries its own species and coefficients, and the
    # span over a path through a step with a transition state uses them (a coefficient taken from another state of
    # the same step changes the energies the span is computed from)
    owner_i, fn_i = repo.find_method(nci, '__init__')
    upd = repo.find_method(nci, 'update_network', missing_ok=True)
    s2s = m.functions.get('state_to_set')
    if s2s is None:
        raise AnchorError('pmutt.reaction.network.state_to_set not found')
    orderings = (('highest after lowest', {'A': 1, 'TS1': 10, 'B': 2, 'TS2': 4, 'C': 1}),
                 ('highest before lowest', {'A': 5, 'TS1': 20, 'B': 1, 'TS2': 2, 'C': 4}))
    for units in (None, 'kJ/mol'):
        for oi, (order_name, vals) in enumerate(orderings):
            ranks = {}
            I = new_interp(repo, order=RankOrder(ranks, const_ranks=True, witness=True,
                                             fallback=lambda a, vals=vals: vals.get(a.split('.')[0])))
            D = I.D
            sp = {}
            for nm in ('A', 'TS1', 'B', 'TS2', 'C'):
                sp[nm] = species_stub(nm, {'elements': DictV({'X': C(1)})})
                sp[nm].missing.add('reaction')
            # A = TS1 = 2 B ;  2 B = 3 TS2 = C   (transition-state coefficients differ from both neighbours)
            r1 = make_reaction(I, repo, 'pmutt.reaction.Reaction', [sp['A']], [C(1)], [sp['B']], [C(2)],
                               [sp['TS1']], [C(1)], name='r1')
            r2 = make_reaction(I, repo, 'pmutt.reaction.Reaction', [sp['B']], [C(2)], [sp['C']], [C(1)],
                               [sp['TS2']], [C(3)], name='r2')
            net = I.construct(nci, [], {'reactions': ListV([r1, r2])}, name='net')
            label = 'A = TS1 = 2B; 2B = 3TS2 = C, %s, units=%s' % (order_name, units)
            if not isinstance(net, Obj):
                run.fail('REF.span', 'Network.__init__', label, 'the network is not built: %s' % show(net), m, fn_i)
                continue
            states = [([sp['A']], [C(1)]), ([sp['TS1']], [C(1)]), ([sp['B']], [C(2)]), ([sp['TS2']], [C(3)]),
                      ([sp['C']], [C(1)])]
            path = ListV([I.call_function(m, s2s, [ListV(a_), ListV(list(b_))], {}) for a_, b_ in states])
            # second request to the same network: other unit, other temperature, the other ordering
            other = orderings[1 - oi]
            for call, (un, T_, (oname, vl)) in enumerate(((units, D.sym('T'), (order_name, vals)),
                                                          ('eV' if units is None else None, D.sym('T2'), other))):
                for nm in sp:
                    ranks[species_name(nm, un, {'T': T_})] = vl[nm]
                got = I.call_method(net, 'get_E_span', [], {'path': path, 'units': un, 'T': T_})
                G = [D.sym(species_name(a_[0].name, un, {'T': T_})) * b_[0] for a_, b_ in states]
                gv = [vl[a_[0].name] * int(b_[0].const_value()) for a_, b_ in states]
                imax, imin = gv.index(max(gv)), gv.index(min(gv))
                want = G[imax] - G[imin]
                if imax < imin:
                    want = want + G[-1] - G[0]
                n += 1
                lab = label if call == 0 else '%s; then %s, units=%s at T2' % (label, oname, un)
                run.check(isinstance(got, Rat) and got.eq(want), 'REF.span', 'Network.update_network', lab,
                          'the span over the path through both steps is %s, expected %s (every state weighted with '
                          'its own coefficients, in the unit and at the temperature asked for)'
                          % (show(got, 160), show(want, 160)), m, upd[1] if upd else fn_i,
                          sample='Network(%s): span %s' % (lab, show(want, 100)))
    # conditions given per species (<name>_kwargs): in a state of several species each one is evaluated under its own
    # conditions and weighted with its own coefficient (equal and unequal ones), and the span is taken over those
    # energies
    for units, cY in itertools.product((None, 'kJ/mol'), (1, 2)):
        for order_name, base in (('pair state highest', {'A': 2, 'X': 10, 'Y': 20, 'B': 1}),
                                 ('pair state lowest', {'A': 50, 'X': 2, 'Y': 4, 'B': 60})):
            ranks = {}
            I = new_interp(repo, order=RankOrder(ranks, const_ranks=True, witness=True,
                                             fallback=lambda a, base=base: base.get(a.split('.')[0])))
            D = I.D
            pX, pY = D.sym('pX'), D.sym('pY')
            sp = {}

            def gname(nm, P, units=units, T_=D.sym('T')):
                return species_name(nm, units, {'T': T_} if P is None else {'T': T_, 'P': P})
            for nm in ('A', 'X', 'Y', 'B'):
                sp[nm] = species_stub(nm, {'elements': DictV({'Z': C(1 if nm in 'XY' else 1 + cY)})}, extra=('P',))
                sp[nm].missing.add('reaction')
                for k_, P in enumerate((None, pX, pY)):
                    ranks[gname(nm, P)] = base[nm] + k_
            r1 = make_reaction(I, repo, 'pmutt.reaction.Reaction', [sp['A']], [C(1)], [sp['X'], sp['Y']], [C(1), C(cY)],
                               None, None, name='r1')
            r2 = make_reaction(I, repo, 'pmutt.reaction.Reaction', [sp['X'], sp['Y']], [C(1), C(cY)], [sp['B']], [C(1)],
                               None, None, name='r2')
            net = I.construct(nci, [], {'reactions': ListV([r1, r2])}, name='net')
            eq_ = 'X + Y' if cY == 1 else 'X + %dY' % cY
            label = 'A = %s; %s = B, X_kwargs/Y_kwargs given, %s, units=%s' % (eq_, eq_, order_name, units)
            if not isinstance(net, Obj):
                run.fail('REF.span', 'Network.__init__', label, 'the network is not built: %s' % show(net), m, fn_i)
                continue
            states = [([sp['A']], [C(1)]), ([sp['X'], sp['Y']], [C(1), C(cY)]), ([sp['B']], [C(1)])]
            path = ListV([I.call_function(m, s2s, [ListV(a_), ListV(list(b_))], {}) for a_, b_ in states])
            got = I.call_method(net, 'get_E_span', [], {'path': path, 'units': units, 'T': D.sym('T'),
                                                        'X_kwargs': DictV({'P': pX}), 'Y_kwargs': DictV({'P': pY})})
            G = [D.sym(gname('A', None)), D.sym(gname('X', pX)) + D.sym(gname('Y', pY)) * cY, D.sym(gname('B', None))]
            gv = [base['A'], base['X'] + 1 + cY * (base['Y'] + 2), base['B']]
            imax, imin = gv.index(max(gv)), gv.index(min(gv))
            want = G[imax] - G[imin]
            if imax < imin:
                want = want + G[-1] - G[0]
            n += 1
            run.check(isinstance(got, Rat) and got.eq(want), 'REF.span', 'network.get_state_quantity', label,
                      'the span is %s, expected %s (each species of a state under its own conditions, times its own '
                      'coefficient)'
                      % (show(got, 200), show(want, 200)), m, m.functions.get('get_state_quantity') or fn2,
                      sample='Network(%s): span %s' % (label, show(want, 100)))
    return n


def check(run, repo):
    run.explanation = (
        'PhaseDiagram objects are built by their constructor (factors given as a list, as an array of floats, or left '
        'out) and must show the factors they were given - ones by default - in a container that holds real numbers. '
        'PhaseDiagram.get_GoRT_1D/2D are interpreted with uninterpreted reactions, symbolic normalisation factors and '
        'grid values: every tabulated entry equals the reaction\'s delta G/RT at that grid point divided by its '
        'normalisation factor (times RT iff units are requested), and np.nanargmin is modelled as an uninterpreted '
        'arg-min that remembers its candidate list, which must be the column over the REACTIONS at each grid point, '
        'identically in one and two dimensions, and of the kind that skips undefined (NaN) energies; scan variables '
        'are T, P, further keywords and the conditions of one species (<name>_kwargs with dictionaries as grid '
        'values), in 1-D and on either 2-D axis; one diagram is also asked several times in a row (with and without '
        'units, one and two parameters; requests that share scan variable, grid symbols and units and differ only in '
        'the fixed conditions or leave a condition out; G_units passed and left to its documented default), two '
        'diagrams are asked in turn inside one program, and every answer, as well as the factors each diagram shows '
        'afterwards, is decided against the factors given and the conditions of the request itself; the grids and '
        'condition dictionaries handed in are left alone. Diagrams that share their reaction objects (the same '
        'reactions under other factors; one reaction standing for two phases) are asked in turn, the first one before '
        'and after the others are built; grids of 11-12 values (thorough: up to 30 values, 8 reactions) are scanned in '
        'one and two parameters; units are a molar unit, a unit per molecule (eV) and joules, the reference being '
        'kb (times Na for molar units) in the unit asked for; the result is read through the tuple protocol (a plain '
        'or a named tuple); a number that is formatted with a precision and parsed back is the rounded number, not '
        'the tabulated one. Reactions.get_E_span and Network.get_E_span are interpreted under an '
        'ordering oracle for every ordering of the state energies (sequences of 1-3 steps with and without transition '
        'states; longer sequences up to 8 steps for every pair of positions of the highest and the lowest state; a '
        'sequence asked twice; a sequence of 11 states and a path of 11 states with the extremes at and around '
        'position 10; two sequences over the same step objects asked in turn; paths of 2-4 states; states of '
        'several species with equal and unequal coefficients): the span is highest minus lowest plus last minus first iff the highest state '
        'comes before the lowest, of the state energies in the unit and under all the conditions asked for '
        '(temperature, pressure, per-species conditions; the uninterpreted energies are named by everything they '
        'are given); every network is asked a second time in the other unit, at another temperature and with the '
        'opposite ordering.')
    run.assumptions = ['np.nanargmin/argmin/argmax return the index of the extremum of the values they are given '
                       '(first occurrence); np.nanargmin/nanargmax skip NaN entries, np.argmin/argmax answer with '
                       'the first NaN entry']
    run.undecided = ['the phase reported when the energies of ALL reactions are undefined at a grid point',
                     'ties between equal energies']
    n = phase_diagrams(run, repo)
    run.floor('phase diagram cases', n, 200)
    n = e_span(run, repo, 7 if run.tier == 'thorough' else 6)
    run.floor('energy span orderings', n, 1000)
    run.extra['orderings'] = n


P_ = 'pmutt/reaction/phasediagram.py'
R_ = 'pmutt/reaction/__init__.py'
N_ = 'pmutt/reaction/network.py'
LOOP_1D = ('        for i, (reaction, norm_factor) in enumerate(\n'
           '                zip(self.reactions, self.norm_factors)):\n'
           '            for j, x in enumerate(x_values):\n'
           '                kwargs[x_name] = x\n'
           '                GoRT[i, j] = reaction.get_delta_GoRT(**kwargs) / norm_factor\n'
           '\n'
           '                # Add unit corrections\n'
           '                if G_units is not None:\n'
           "                    GoRT[i, j] *= c.R('{}/K'.format(G_units)) * kwargs['T']\n")
ZEROS_1D = '        GoRT = np.zeros(shape=(len(self.reactions), len(x_values)))\n'
UNIT_1D = "                    GoRT[i, j] *= c.R('{}/K'.format(G_units)) * kwargs['T']\n"
UNIT_2D = ("                        GoRT[i, j, k] *= c.R('{}/K'.format(G_units)) *\\\n"
           "                                             kwargs['T']\n")
INIT_TAIL = '        else:\n            self.norm_factors = norm_factors\n'
SPAN_R = ('        states_G = []\n        for reaction in self.reactions:\n            for state in states:\n'
          '                # Skip states that are not occupied\n'
          '                if getattr(reaction, state) is None:\n'
          '                    continue\n'
          '                states_G.append(\n'
          '                    reaction.get_G_state(state=state, units=units, **kwargs))\n')

MUTANTS = [
    {'name': '2D arg-min over the second grid axis', 'expect': ('AXIS.argmin', 'get_GoRT_2D'),
     'edits': [(P_, '            stable_phases[i, :] = np.nanargmin(GoRT_row, axis=1)', '            stable_phases[i, :] = np.nanargmin(GoRT_row.transpose((1, 0)), axis=1)')]},
    {'name': 'normalisation multiplies', 'expect': ('REF.table', 'get_GoRT_1D'),
     'edits': [(P_, '                GoRT[i, j] = reaction.get_delta_GoRT(**kwargs) / norm_factor', '                GoRT[i, j] = reaction.get_delta_GoRT(**kwargs) * norm_factor')]},
    {'name': 'span correction when max after min', 'expect': ('REF.span', 'Reactions.get_E_span'),
     'edits': [(R_, '        if max_i < min_i:\n            E_span += states_G[-1] - states_G[0]', '        if max_i > min_i:\n            E_span += states_G[-1] - states_G[0]')]},
    {'name': 'network span uses argmin twice', 'expect': ('REF.span', 'Network.get_E_span'),
     'edits': [('pmutt/reaction/network.py', '        max_i = np.argmax(G)', '        max_i = np.argmin(G)')]},
    # one diagram asked twice: the gas constant folded into the object's own factors (np.asarray of an array of
    # floats is that array)
    {'name': 'factors divided by R in place', 'expect': ('REF.table', 'get_GoRT'),
     'edits': [(P_, '        GoRT = np.zeros(shape=(len(self.reactions), len(x_values)))\n',
                '        GoRT = np.zeros(shape=(len(self.reactions), len(x_values)))\n'
                '        norm_factors = np.asarray(self.norm_factors, dtype=float)\n'
                '        if G_units is not None:\n'
                '            norm_factors /= c.R(\'{}/K\'.format(G_units))\n'),
               (P_, 'zip(self.reactions, self.norm_factors)):\n            for j, x in enumerate(x_values):',
                'zip(self.reactions, norm_factors)):\n            for j, x in enumerate(x_values):'),
               (P_, "                    GoRT[i, j] *= c.R('{}/K'.format(G_units)) * kwargs['T']",
                "                    GoRT[i, j] *= kwargs['T']")]},
    {'name': 'factors kept in an integer array', 'expect': ('TYPE.int-buffer', 'norm_factors'),
     'edits': [(P_, '        if norm_factors is None:\n            self.norm_factors = np.ones(len(reactions))\n'
                '        else:\n            self.norm_factors = norm_factors\n',
                '        self.norm_factors = np.ones(len(reactions), dtype=int)\n'
                '        if norm_factors is not None:\n            self.norm_factors[:] = norm_factors\n')]},
    {'name': 'default factors are not ones', 'expect': ('REF.factors', 'norm_factors'),
     'edits': [(P_, '            self.norm_factors = np.ones(len(reactions))',
                '            self.norm_factors = 2 * np.ones(len(reactions))')]},
    {'name': 'span of a sequence takes the states at T only', 'expect': ('REF.span', 'Reactions.get_E_span'),
     'edits': [(R_, '                    reaction.get_G_state(state=state, units=units, **kwargs))',
                "                    reaction.get_G_state(state=state, units=units, T=kwargs['T']))")]},
    {'name': 'network span with units ignores T', 'expect': ('REF.span', 'Network.get_E_span'),
     'edits': [(N_, '    def get_E_span(self, path, units=None, **kwargs):',
                '    def get_E_span(self, path, units=None, T=298.15, **kwargs):'),
               (N_, "                                       method_name='get_GoRT',\n"
                '                                       **kwargs))',
                "                                       method_name='get_GoRT',\n"
                '                                       T=T,\n'
                '                                       **kwargs))')]},
    {'name': 'network span remembers the state energies in the nodes', 'expect': ('REF.span', 'Network.get_E_span'),
     'edits': [(N_, "            species = self.graph.nodes[state]['species']\n"
                "            stoich = self.graph.nodes[state]['stoich']\n"
                '            if units is None:',
                '            node = self.graph.nodes[state]\n'
                "            if 'G' in node:\n"
                "                G.append(node['G'])\n"
                '                continue\n'
                "            species = node['species']\n"
                "            stoich = node['stoich']\n"
                '            if units is None:'),
               (N_, '                                       units=units,\n'
                '                                       **kwargs))\n'
                '        # Get indices for TDI and TDTS',
                '                                       units=units,\n'
                '                                       **kwargs))\n'
                "            node['G'] = G[-1]\n"
                '        # Get indices for TDI and TDTS')]},
    # ---- white-box round 2 ----
    # a table cache whose key leaves out the conditions held fixed during the scan (same scan variable, same grid,
    # same units, another fixed pressure/temperature: the first table again)
    {'name': '1D tables cached without the fixed conditions in the key', 'expect': ('REF.table', 'get_GoRT_1D'),
     'edits': [(P_, '            self.norm_factors = norm_factors\n',
                '            self.norm_factors = norm_factors\n        self._tables = {}\n'),
               (P_, '        GoRT = np.zeros(shape=(len(self.reactions), len(x_values)))\n',
                '        key = (x_name, tuple(x_values), G_units)\n'
                '        try:\n'
                '            GoRT, stable_phases = self._tables[key]\n'
                '        except KeyError:\n'
                '            pass\n'
                '        else:\n'
                '            return (GoRT.copy(), stable_phases.copy())\n'
                '        GoRT = np.zeros(shape=(len(self.reactions), len(x_values)))\n'),
               (P_, '        stable_phases = np.nanargmin(GoRT, axis=0)\n',
                '        stable_phases = np.nanargmin(GoRT, axis=0)\n'
                '        self._tables[key] = (GoRT.copy(), stable_phases.copy())\n')]},
    {'name': '2D tables cached without the fixed conditions in the key', 'expect': ('REF.table', 'get_GoRT_2D'),
     'edits': [(P_, '            self.norm_factors = norm_factors\n',
                '            self.norm_factors = norm_factors\n        self._tables = {}\n'),
               (P_, '        GoRT = np.zeros(shape=(len(self.reactions), len(x1_values),\n',
                '        key = (x1_name, tuple(x1_values), x2_name, tuple(x2_values), G_units)\n'
                '        try:\n'
                '            return self._tables[key]\n'
                '        except KeyError:\n'
                '            pass\n'
                '        GoRT = np.zeros(shape=(len(self.reactions), len(x1_values),\n'),
               (P_, '        return GoRT, stable_phases\n',
                '        self._tables[key] = (GoRT, stable_phases)\n        return GoRT, stable_phases\n')]},
    # the cache knows all the conditions but not the diagram: a second diagram gets the first one's table
    {'name': '1D tables cached for all diagrams together', 'expect': ('REF.table', 'get_GoRT_1D'),
     'edits': [(P_, 'class PhaseDiagram(Reactions):\n', '_TABLES = {}\n\n\nclass PhaseDiagram(Reactions):\n'),
               (P_, '        GoRT = np.zeros(shape=(len(self.reactions), len(x_values)))\n',
                '        key = (x_name, tuple(x_values), G_units, tuple(kwargs.items()))\n'
                '        try:\n'
                '            return _TABLES[key]\n'
                '        except KeyError:\n'
                '            pass\n'
                '        GoRT = np.zeros(shape=(len(self.reactions), len(x_values)))\n'),
               (P_, '        return (GoRT, stable_phases)\n',
                '        _TABLES[key] = (GoRT, stable_phases)\n        return (GoRT, stable_phases)\n')]},
    # late binding: every lambda of the comprehension sees the last reaction and the last factor
    {'name': 'phase energies as lambdas built in a comprehension', 'expect': ('REF.table', 'get_GoRT_1D'),
     'edits': [(P_, '        for i, (reaction, norm_factor) in enumerate(\n'
                '                zip(self.reactions, self.norm_factors)):\n'
                '            for j, x in enumerate(x_values):\n'
                '                kwargs[x_name] = x\n'
                '                GoRT[i, j] = reaction.get_delta_GoRT(**kwargs) / norm_factor\n',
                '        phases = [lambda **conditions: reaction.get_delta_GoRT(**conditions) / norm_factor\n'
                '                  for reaction, norm_factor in zip(self.reactions, self.norm_factors)]\n'
                '        for i, phase in enumerate(phases):\n'
                '            for j, x in enumerate(x_values):\n'
                '                kwargs[x_name] = x\n'
                '                GoRT[i, j] = phase(**kwargs)\n')]},
    # a mutable default keeps the conditions of earlier requests (of any diagram)
    {'name': '1D conditions collected in a mutable default', 'expect': ('REF.table', 'get_GoRT_1D'),
     'edits': [(P_, '    def get_GoRT_1D(self, x_name, x_values, G_units=None, **kwargs):',
                '    def get_GoRT_1D(self, x_name, x_values, G_units=None, conditions={}, **kwargs):'),
               (P_, '        GoRT = np.zeros(shape=(len(self.reactions), len(x_values)))\n',
                '        conditions.update(kwargs)\n        kwargs = conditions\n'
                '        GoRT = np.zeros(shape=(len(self.reactions), len(x_values)))\n')]},
    {'name': '2D conditions collected in a mutable default', 'expect': ('REF.table', 'get_GoRT_2D'),
     'edits': [(P_, '                    G_units=None,\n                    **kwargs):\n        """Calculates',
                '                    G_units=None,\n                    conditions={},\n                    **kwargs):\n'
                '        """Calculates'),
               (P_, '        GoRT = np.zeros(shape=(len(self.reactions), len(x1_values),\n',
                '        conditions.update(kwargs)\n        kwargs = conditions\n'
                '        GoRT = np.zeros(shape=(len(self.reactions), len(x1_values),\n')]},
    # names of scan variables rewritten: <species>_kwargs no longer reaches the species
    {'name': '1D scan name upper-cased', 'expect': ('REF.table', 'get_GoRT_1D'),
     'edits': [(P_, '        GoRT = np.zeros(shape=(len(self.reactions), len(x_values)))\n',
                '        x_name = x_name.upper()\n'
                '        GoRT = np.zeros(shape=(len(self.reactions), len(x_values)))\n')]},
    {'name': '2D scan names upper-cased', 'expect': ('REF.table', 'get_GoRT_2D'),
     'edits': [(P_, '        GoRT = np.zeros(shape=(len(self.reactions), len(x1_values),\n',
                '        x1_name, x2_name = x1_name.upper(), x2_name.upper()\n'
                '        GoRT = np.zeros(shape=(len(self.reactions), len(x1_values),\n')]},
    {'name': '2D second scan name capitalised', 'expect': ('REF.table', 'get_GoRT_2D'),
     'edits': [(P_, '        GoRT = np.zeros(shape=(len(self.reactions), len(x1_values),\n',
                '        x2_name = x2_name.capitalize()\n'
                '        GoRT = np.zeros(shape=(len(self.reactions), len(x1_values),\n')]},
    # arg-min that does not skip undefined energies
    {'name': '2D arg-min vectorised with np.argmin', 'expect': ('REF.argmin-nan', 'get_GoRT_2D'),
     'edits': [(P_, '        GoRT_T = GoRT.transpose((1, 2, 0))\n'
                '        stable_phases = np.zeros((len(x1_values), len(x2_values)))\n'
                '        for i, GoRT_row in enumerate(GoRT_T):\n'
                '            stable_phases[i, :] = np.nanargmin(GoRT_row, axis=1)\n',
                '        stable_phases = np.argmin(GoRT, axis=0).astype(float)\n')]},
    {'name': '1D arg-min with np.argmin', 'expect': ('REF.argmin-nan', 'get_GoRT_1D'),
     'edits': [(P_, '        stable_phases = np.nanargmin(GoRT, axis=0)\n',
                '        stable_phases = np.argmin(GoRT, axis=0)\n')]},
    # the documented default of G_units (None: G/RT) changed
    {'name': '1D default of G_units is kJ/mol', 'expect': ('REF.table', 'get_GoRT_1D'),
     'edits': [(P_, '    def get_GoRT_1D(self, x_name, x_values, G_units=None, **kwargs):',
                "    def get_GoRT_1D(self, x_name, x_values, G_units='kJ/mol', **kwargs):")]},
    # a state of several species: the coefficients paired with the species in reverse order (invisible as long as
    # all coefficients of a state are equal)
    {'name': 'state coefficients paired with the species in reverse', 'expect': ('REF.span', 'get_state_quantity'),
     'edits': [(N_, '    for specie, coeff in zip(species, stoich):\n',
                '    for specie, coeff in zip(species, list(stoich)[::-1]):\n')]},
    # a sequence that remembers its state energies
    {'name': 'sequence span remembers the state energies', 'expect': ('REF.span', 'Reactions.get_E_span'),
     'edits': [(R_, '        states_G = []\n        for reaction in self.reactions:\n            for state in states:\n'
                '                # Skip states that are not occupied\n',
                "        states_G = getattr(self, '_states_G', None)\n"
                '        if states_G is None:\n            states_G = self._states_G = []\n'
                '        for reaction in (self.reactions if not states_G else []):\n            for state in states:\n'
                '                # Skip states that are not occupied\n')]},
    # the per-species dictionary of a grid point is filled in instead of copied
    {'name': '1D grid dictionaries completed in place', 'expect': ('EFFECT.grid', 'get_GoRT_1D'),
     'edits': [(P_, '                kwargs[x_name] = x\n                GoRT[i, j] = reaction',
                "                if isinstance(x, dict):\n                    x.setdefault('T', kwargs.get('T'))\n"
                '                kwargs[x_name] = x\n                GoRT[i, j] = reaction')]},
    # ---- white-box round 3 ----
    # tabulated energies sent through text with four significant digits (ties near phase boundaries)
    {'name': '1D entries trimmed to four digits through text', 'expect': ('REF.table', 'get_GoRT_1D'),
     'edits': [(P_, UNIT_1D, UNIT_1D + "                GoRT[i, j] = float('{:.4g}'.format(GoRT[i, j]))\n")]},
    {'name': '2D entries trimmed to six digits through an f-string', 'expect': ('REF.table', 'get_GoRT_2D'),
     'edits': [(P_, UNIT_2D, UNIT_2D + "                    GoRT[i, j, k] = float(f'{GoRT[i, j, k]:.6g}')\n")]},
    # the factor of a phase kept on its reaction object: a later diagram over the same reactions overwrites it
    {'name': 'factor of each phase stored on its reaction object', 'expect': ('REF.table', 'get_GoRT_1D'),
     'edits': [(P_, INIT_TAIL, INIT_TAIL +
                '        for reaction, norm_factor in zip(self.reactions, self.norm_factors):\n'
                '            reaction.norm_factor = norm_factor\n'),
               (P_, '                GoRT[i, j] = reaction.get_delta_GoRT(**kwargs) / norm_factor\n',
                '                GoRT[i, j] = reaction.get_delta_GoRT(**kwargs) / reaction.norm_factor\n')]},
    # the factor looked up by the reaction: the first of two phases that share a reaction object answers for both
    {'name': '2D factor looked up by the position of the reaction in the list', 'expect': ('REF.table', 'get_GoRT_2D'),
     'edits': [(P_, '                    GoRT[i, j, k] = \\\n                        reaction.get_delta_GoRT(**kwargs)/norm_factor\n',
                '                    norm_factor = self.norm_factors[self.reactions.index(reaction)]\n'
                '                    GoRT[i, j, k] = \\\n                        reaction.get_delta_GoRT(**kwargs)/norm_factor\n')]},
    # columns kept under text labels and assembled in the sorted order of the labels ('T[10]' < 'T[2]')
    {'name': '1D columns assembled in the sorted order of their text labels', 'expect': ('REF.table', 'get_GoRT_1D'),
     'edits': [(P_, LOOP_1D,
                '        columns = {}\n'
                '        for j, x in enumerate(x_values):\n'
                '            kwargs[x_name] = x\n'
                '            column = [reaction.get_delta_GoRT(**kwargs) / norm_factor\n'
                '                      for reaction, norm_factor in zip(self.reactions, self.norm_factors)]\n'
                '            if G_units is not None:\n'
                "                RT = c.R('{}/K'.format(G_units)) * kwargs['T']\n"
                '                column = [G * RT for G in column]\n'
                "            columns['{}[{}]'.format(x_name, j)] = column\n"
                '        GoRT = np.array([columns[label] for label in sorted(columns)]).T\n'),
               (P_, ZEROS_1D, '')]},
    {'name': '2D stable phases assembled in the sorted order of text labels', 'expect': ('AXIS.argmin', 'get_GoRT_2D'),
     'edits': [(P_, '        stable_phases = np.zeros((len(x1_values), len(x2_values)))\n'
                '        for i, GoRT_row in enumerate(GoRT_T):\n'
                '            stable_phases[i, :] = np.nanargmin(GoRT_row, axis=1)\n',
                '        rows = {}\n'
                '        for i, GoRT_row in enumerate(GoRT_T):\n'
                "            rows['{}[{}]'.format(x1_name, i)] = np.nanargmin(GoRT_row, axis=1)\n"
                '        stable_phases = np.array([rows[label] for label in sorted(rows)], dtype=float)\n')]},
    # state energies kept under the text of their position
    {'name': 'sequence span: state energies assembled in the sorted order of text labels',
     'expect': ('REF.span', 'Reactions.get_E_span'),
     'edits': [(R_, SPAN_R,
                '        by_label = {}\n        for reaction in self.reactions:\n            for state in states:\n'
                '                # Skip states that are not occupied\n'
                '                if getattr(reaction, state) is None:\n'
                '                    continue\n'
                "                by_label['state {}'.format(len(by_label))] = \\\n"
                '                    reaction.get_G_state(state=state, units=units, **kwargs)\n'
                '        states_G = [by_label[label] for label in sorted(by_label)]\n')]},
    {'name': 'network span: state energies assembled in the sorted order of text labels',
     'expect': ('REF.span', 'Network.get_E_span'),
     'edits': [(N_, '        # Get indices for TDI and TDTS\n',
                "        by_label = {'{}'.format(i): G_i for i, G_i in enumerate(G)}\n"
                '        G = [by_label[label] for label in sorted(by_label)]\n'
                '        # Get indices for TDI and TDTS\n')]},
    # the place of a step in its sequence written on the step object: a second sequence over the same steps renumbers
    {'name': 'sequence numbers its steps on the step objects', 'expect': ('REF.span', 'Reactions.get_E_span'),
     'edits': [(R_, '    def __init__(self, reactions):\n        self.reactions = list(reactions)\n',
                '    def __init__(self, reactions):\n        self.reactions = list(reactions)\n'
                '        for i, reaction in enumerate(self.reactions):\n            reaction.step = i\n'),
               (R_, '        states_G = []\n        for reaction in self.reactions:\n            for state in states:\n'
                '                # Skip states that are not occupied\n',
                '        states_G = []\n        for reaction in sorted(self.reactions, key=lambda r: r.step):\n'
                '            for state in states:\n'
                '                # Skip states that are not occupied\n')]},
    # the unit asked for never reaches the gas constant (right for kJ/mol only)
    {'name': '1D unit correction with the gas constant in kJ/mol whatever the unit', 'expect': ('REF.table', 'get_GoRT_1D'),
     'edits': [(P_, UNIT_1D, "                    GoRT[i, j] *= c.R('kJ/mol/K') * kwargs['T']\n")]},
    {'name': '2D unit correction with the gas constant in J/mol whatever the unit', 'expect': ('REF.table', 'get_GoRT_2D'),
     'edits': [(P_, UNIT_2D, "                        GoRT[i, j, k] *= c.R('J/mol/K') * kwargs['T']\n")]},
    # flat list in reaction-major order shaped with order='F' (which wants it grid-major)
    {'name': '1D reaction-major flat list reshaped in Fortran order', 'expect': ('REF.table', 'get_GoRT_1D'),
     'edits': [(P_, LOOP_1D,
                '        values = []\n'
                '        for reaction, norm_factor in zip(self.reactions, self.norm_factors):\n'
                '            for x in x_values:\n'
                '                kwargs[x_name] = x\n'
                '                G = reaction.get_delta_GoRT(**kwargs) / norm_factor\n'
                '                if G_units is not None:\n'
                "                    G *= c.R('{}/K'.format(G_units)) * kwargs['T']\n"
                '                values.append(G)\n'
                "        GoRT = np.array(values, dtype=float).reshape((len(self.reactions), len(x_values)), order='F')\n"),
               (P_, ZEROS_1D, '')]},
]
EQUIV = [
    # the harmless twins of two mutants above: R folded into a COPY of the factors; T named in the signature and handed
    # on in both branches
    {'name': 'R folded into a local copy of the factors',
     'edits': [(P_, '        GoRT = np.zeros(shape=(len(self.reactions), len(x_values)))\n',
                '        GoRT = np.zeros(shape=(len(self.reactions), len(x_values)))\n'
                '        norm_factors = np.array(self.norm_factors, dtype=float)\n'
                '        if G_units is not None:\n'
                '            norm_factors /= c.R(\'{}/K\'.format(G_units))\n'),
               (P_, 'zip(self.reactions, self.norm_factors)):\n            for j, x in enumerate(x_values):',
                'zip(self.reactions, norm_factors)):\n            for j, x in enumerate(x_values):'),
               (P_, "                    GoRT[i, j] *= c.R('{}/K'.format(G_units)) * kwargs['T']",
                "                    GoRT[i, j] *= kwargs['T']")]},
    {'name': 'network span names T and hands it on with and without units',
     'edits': [(N_, '    def get_E_span(self, path, units=None, **kwargs):',
                '    def get_E_span(self, path, units=None, T=298.15, **kwargs):'),
               (N_, "                                       method_name='get_GoRT',\n"
                '                                       **kwargs))',
                "                                       method_name='get_GoRT',\n"
                '                                       T=T,\n'
                '                                       **kwargs))'),
               (N_, '                                       units=units,\n'
                '                                       **kwargs))',
                '                                       units=units,\n'
                '                                       T=T,\n'
                '                                       **kwargs))')]},
    # the harmless twins of round 2's mutants: the cache key holds every condition and the cache is the diagram's own;
    # np.nanargmin kept when the 2-D arg-min is vectorised; lambdas of a comprehension with the loop variables bound
    # as defaults; the conditions dictionary is created per call
    {'name': '2D arg-min vectorised with np.nanargmin',
     'edits': [(P_, '        GoRT_T = GoRT.transpose((1, 2, 0))\n'
                '        stable_phases = np.zeros((len(x1_values), len(x2_values)))\n'
                '        for i, GoRT_row in enumerate(GoRT_T):\n'
                '            stable_phases[i, :] = np.nanargmin(GoRT_row, axis=1)\n',
                '        stable_phases = np.nanargmin(GoRT, axis=0).astype(float)\n')]},
    {'name': 'phase energies as lambdas with the loop variables bound as defaults',
     'edits': [(P_, '        for i, (reaction, norm_factor) in enumerate(\n'
                '                zip(self.reactions, self.norm_factors)):\n'
                '            for j, x in enumerate(x_values):\n'
                '                kwargs[x_name] = x\n'
                '                GoRT[i, j] = reaction.get_delta_GoRT(**kwargs) / norm_factor\n',
                '        phases = [lambda r=reaction, nf=norm_factor, **conditions: r.get_delta_GoRT(**conditions) / nf\n'
                '                  for reaction, norm_factor in zip(self.reactions, self.norm_factors)]\n'
                '        for i, phase in enumerate(phases):\n'
                '            for j, x in enumerate(x_values):\n'
                '                kwargs[x_name] = x\n'
                '                GoRT[i, j] = phase(**kwargs)\n')]},
    {'name': '1D conditions dictionary created per call',
     'edits': [(P_, '    def get_GoRT_1D(self, x_name, x_values, G_units=None, **kwargs):',
                '    def get_GoRT_1D(self, x_name, x_values, G_units=None, conditions=None, **kwargs):'),
               (P_, '        GoRT = np.zeros(shape=(len(self.reactions), len(x_values)))\n',
                '        conditions = dict(conditions or {})\n'
                '        conditions.update(kwargs)\n        kwargs = conditions\n'
                '        GoRT = np.zeros(shape=(len(self.reactions), len(x_values)))\n')]},
    # the table filled column by column through the view GoRT[:, j]; the stable phases stored one by one into an
    # array of np.intp (an index is an integer)
    {'name': '1D table filled through column views',
     'edits': [(P_, '        for i, (reaction, norm_factor) in enumerate(\n'
                '                zip(self.reactions, self.norm_factors)):\n'
                '            for j, x in enumerate(x_values):\n'
                '                kwargs[x_name] = x\n'
                '                GoRT[i, j] = reaction.get_delta_GoRT(**kwargs) / norm_factor\n'
                '\n'
                '                # Add unit corrections\n'
                '                if G_units is not None:\n'
                "                    GoRT[i, j] *= c.R('{}/K'.format(G_units)) * kwargs['T']\n",
                '        for j, x in enumerate(x_values):\n'
                '            kwargs[x_name] = x\n'
                '            GoRT_x = GoRT[:, j]\n'
                '            for i, (reaction, norm_factor) in enumerate(\n'
                '                    zip(self.reactions, self.norm_factors)):\n'
                '                GoRT_x[i] = reaction.get_delta_GoRT(**kwargs) / norm_factor\n'
                '            if G_units is not None:\n'
                "                GoRT_x *= c.R('{}/K'.format(G_units)) * kwargs['T']\n")]},
    {'name': '1D stable phases stored per column into an integer array',
     'edits': [(P_, '        stable_phases = np.nanargmin(GoRT, axis=0)\n',
                '        stable_phases = np.zeros(len(x_values), dtype=np.intp)\n'
                '        for j in range(len(x_values)):\n'
                '            stable_phases[j] = np.nanargmin(GoRT[:, j])\n')]},
    # ---- white-box round 3 ----
    {'name': 'result as a named tuple',
     'edits': [(P_, 'class PhaseDiagram(Reactions):\n',
                "from collections import namedtuple\nPhaseTable = namedtuple('PhaseTable', ['GoRT', 'stable_phases'])"
                '\n\n\nclass PhaseDiagram(Reactions):\n'),
               (P_, '        return (GoRT, stable_phases)\n', '        return PhaseTable(GoRT, stable_phases)\n'),
               (P_, '        return GoRT, stable_phases\n', '        return PhaseTable(GoRT, stable_phases)\n')]},
    # the harmless twins of this round's mutants
    {'name': 'factor of each phase looked up by the position of the phase',
     'edits': [(P_, '                GoRT[i, j] = reaction.get_delta_GoRT(**kwargs) / norm_factor\n',
                '                GoRT[i, j] = reaction.get_delta_GoRT(**kwargs) / self.norm_factors[i]\n')]},
    {'name': '1D columns kept under their integer position and assembled in sorted order',
     'edits': [(P_, LOOP_1D,
                '        columns = {}\n'
                '        for j, x in enumerate(x_values):\n'
                '            kwargs[x_name] = x\n'
                '            column = [reaction.get_delta_GoRT(**kwargs) / norm_factor\n'
                '                      for reaction, norm_factor in zip(self.reactions, self.norm_factors)]\n'
                '            if G_units is not None:\n'
                "                RT = c.R('{}/K'.format(G_units)) * kwargs['T']\n"
                '                column = [G * RT for G in column]\n'
                '            columns[j] = column\n'
                '        GoRT = np.array([columns[j] for j in sorted(columns)]).T\n'),
               (P_, ZEROS_1D, '')]},
    {'name': '1D columns under zero-padded text labels assembled in sorted order',
     'edits': [(P_, LOOP_1D,
                '        columns = {}\n'
                '        for j, x in enumerate(x_values):\n'
                '            kwargs[x_name] = x\n'
                '            column = [reaction.get_delta_GoRT(**kwargs) / norm_factor\n'
                '                      for reaction, norm_factor in zip(self.reactions, self.norm_factors)]\n'
                '            if G_units is not None:\n'
                "                RT = c.R('{}/K'.format(G_units)) * kwargs['T']\n"
                '                column = [G * RT for G in column]\n'
                "            columns['{}[{:04d}]'.format(x_name, j)] = column\n"
                '        GoRT = np.array([columns[label] for label in sorted(columns)]).T\n'),
               (P_, ZEROS_1D, '')]},
    {'name': 'sequence span: steps sorted by their position in THIS sequence',
     'edits': [(R_, '        states_G = []\n        for reaction in self.reactions:\n            for state in states:\n'
                '                # Skip states that are not occupied\n',
                '        states_G = []\n        for reaction in sorted(self.reactions, key=self.reactions.index):\n'
                '            for state in states:\n'
                '                # Skip states that are not occupied\n')]},
    {'name': 'network span: state energies under their integer position, assembled in sorted order',
     'edits': [(N_, '        # Get indices for TDI and TDTS\n',
                '        by_pos = {i: G_i for i, G_i in enumerate(G)}\n'
                '        G = [by_pos[i] for i in sorted(by_pos)]\n'
                '        # Get indices for TDI and TDTS\n')]},
    # interpreter-dependent refactorings of the review (B2-B5)
    {'name': '1D grid-major flat list reshaped in Fortran order',
     'edits': [(P_, LOOP_1D,
                '        values = []\n'
                '        for x in x_values:\n'
                '            kwargs[x_name] = x\n'
                '            for reaction, norm_factor in zip(self.reactions, self.norm_factors):\n'
                '                G = reaction.get_delta_GoRT(**kwargs) / norm_factor\n'
                '                if G_units is not None:\n'
                "                    G *= c.R('{}/K'.format(G_units)) * kwargs['T']\n"
                '                values.append(G)\n'
                "        GoRT = np.array(values, dtype=float).reshape((len(self.reactions), len(x_values)), order='F')\n"),
               (P_, ZEROS_1D, '')]},
    {'name': 'network span: lowest and highest state by stable sorts',
     'edits': [(N_, '        min_i = np.argmin(G)\n        max_i = np.argmax(G)\n',
                '        by_energy = lambda i: G[i]\n'
                '        min_i = sorted(range(len(G)), key=by_energy)[0]\n'
                '        max_i = sorted(range(len(G)), key=by_energy, reverse=True)[0]\n')]},
]
# refactorings of review round 3 that needed the interpreter (`ndarray.T` as a view, a slice in a leading position of a
# subscript store): behaviour-preserving, must stay silent
EQUIV += [
    {'name': '1D table filled through the rows of the transposed view',
     'edits': [(P_, LOOP_1D,
                '        for column, x in zip(GoRT.T, x_values):\n'
                '            kwargs[x_name] = x\n'
                '            for i, (reaction, norm_factor) in enumerate(\n'
                '                    zip(self.reactions, self.norm_factors)):\n'
                '                column[i] = reaction.get_delta_GoRT(**kwargs) / norm_factor\n'
                '            if G_units is not None:\n'
                "                column *= c.R('{}/K'.format(G_units)) * kwargs['T']\n")]},
    {'name': '1D unit correction per column through a slice store',
     'edits': [(P_, LOOP_1D,
                '        for j, x in enumerate(x_values):\n'
                '            kwargs[x_name] = x\n'
                '            for i, (reaction, norm_factor) in enumerate(\n'
                '                    zip(self.reactions, self.norm_factors)):\n'
                '                GoRT[i, j] = reaction.get_delta_GoRT(**kwargs) / norm_factor\n'
                '            if G_units is not None:\n'
                "                GoRT[:, j] *= c.R('{}/K'.format(G_units)) * kwargs['T']\n")]},
]
