"""C19 - phase diagrams and energy spans select the true extrema."""
import itertools
from fractions import Fraction as Fr

from ..nf import Rat, C
from ..source import Unsupported, AnchorError
from ..xlate import Interp, Obj, ListV, DictV, Raised, RankOrder, ArgV
from .common import same, show, sig
from .rxnfix import make_reaction

PD = 'pmutt.reaction.phasediagram.PhaseDiagram'


def rxn_obj(I, name):
    o = Obj(name)

    def dG(I_, obj, args, kwargs):
        s = ','.join('%s=%s' % (k, sig(kwargs[k])) for k in sorted(kwargs))
        return I_.D.sym('%s.dGoRT(%s)' % (obj.name, s))
    o.opaque_methods['get_delta_GoRT'] = dG
    o.opaque_methods['to_string'] = lambda I_, ob, a, k: ob.name
    return o


def phase_diagrams(run, repo):
    ci = repo.cls(PD)
    n = 0
    for nr, nx in ((1, 1), (2, 3), (3, 2), (3, 4)):
        for units, xname in itertools.product((None, 'kJ/mol'), ('P', 'T', 'P_B')):
            I = Interp(repo)
            D = I.D
            rx = [rxn_obj(I, 'rxn%d' % i) for i in range(nr)]
            nf = ListV([D.sym('nf%d' % i) for i in range(nr)])
            pd = Obj('pd', ci, attrs={'reactions': ListV(rx), 'norm_factors': nf})
            xs = ListV([D.sym('x%d' % j) for j in range(nx)])
            T = D.sym('T')
            owner, fn = repo.find_method(ci, 'get_GoRT_1D')
            run.fn(owner.qual + '.get_GoRT_1D')
            given = {} if xname == 'T' else {'T': T}
            out = I.call_method(pd, 'get_GoRT_1D', [], dict({'x_name': xname, 'x_values': xs, 'G_units': units}, **given))
            label = '1D reactions=%d grid=%d units=%s%s' % (nr, nx, units, '' if xname == 'P' else ' scan=' + xname)
            n += 1
            if not (isinstance(out, ListV) and len(out) == 2):
                run.fail('REF.table', 'PhaseDiagram.get_GoRT_1D', 'result', '[%s] unexpected result %s'
                         % (label, show(out)), owner.module, fn)
                continue
            G, stable = out.items
            def want(i, kw):
                v = rx[i].opaque_methods['get_delta_GoRT'](I, rx[i], [], kw) / nf.items[i]
                return v * (D.sym('kb') * D.sym('Na') * D.sym('U<kJ>') * kw['T']) if units else v
            ok = isinstance(G, ListV) and len(G) == nr and all(
                isinstance(G.items[i], ListV) and len(G.items[i]) == nx and
                all(same(G.items[i].items[j], want(i, dict(given, **{xname: xs.items[j]}))) for j in range(nx))
                for i in range(nr))
            run.check(ok, 'REF.table', 'PhaseDiagram.get_GoRT_1D', 'tabulated energies',
                      '[%s] tabulated entry is not the reaction\'s own delta G/RT divided by its normalisation factor'
                      '%s: %s' % (label, ' times RT' if units else '', show(G, 200)), owner.module, fn,
                      sample='[%s] G[i][j] == dG_i(x_j)/nf_i%s' % (label, '*R*T' if units else ''))
            # the stable phase at grid point j minimises over the reactions at that point
            good = isinstance(stable, ListV) and len(stable) == nx
            if good:
                for j in range(nx):
                    s_ = stable.items[j]
                    col = [G.items[i].items[j] for i in range(nr)]
                    if nr == 1:
                        good = good and ((isinstance(s_, Rat) and s_.iszero()) or
                                         (isinstance(s_, ArgV) and len(s_.cands) == 1))
                    else:
                        good = good and isinstance(s_, ArgV) and s_.which == 'min' and len(s_.cands) == nr and \
                            all(same(a, b) for a, b in zip(s_.cands, col))
            run.check(good, 'AXIS.argmin', 'PhaseDiagram.get_GoRT_1D', 'stable phase per grid point',
                      '[%s] the arg-min must run over the %d reactions at each of the %d grid points; got %s'
                      % (label, nr, nx, show(stable, 200)), owner.module, fn)
        # 2-D: every assignment of the scan variables (temperature first, second, or fixed), with and without units
        for nx2, (n1, n2, units2) in itertools.product((1, 2, 3), (('T', 'P', None), ('T', 'P', 'kJ/mol'),
                                                                  ('P', 'T', 'kJ/mol'), ('P', 'P_B', 'kJ/mol'),
                                                                  ('P', 'T', None))):
            I = Interp(repo)
            D = I.D
            rx = [rxn_obj(I, 'rxn%d' % i) for i in range(nr)]
            nf = ListV([D.sym('nf%d' % i) for i in range(nr)])
            pd = Obj('pd', ci, attrs={'reactions': ListV(rx), 'norm_factors': nf})
            xs = ListV([D.sym('x%d' % j) for j in range(nx)])
            ys = ListV([D.sym('y%d' % j) for j in range(nx2)])
            owner, fn = repo.find_method(ci, 'get_GoRT_2D')
            run.fn(owner.qual + '.get_GoRT_2D')
            fixed = {} if 'T' in (n1, n2) else {'T': D.sym('Tfix')}
            out = I.call_method(pd, 'get_GoRT_2D', [], dict({'x1_name': n1, 'x1_values': xs, 'x2_name': n2,
                                                             'x2_values': ys, 'G_units': units2}, **fixed))
            label = '2D reactions=%d grid=%dx%d x1=%s x2=%s units=%s' % (nr, nx, nx2, n1, n2, units2)
            n += 1
            if not (isinstance(out, ListV) and len(out) == 2):
                run.fail('REF.table', 'PhaseDiagram.get_GoRT_2D', 'result', '[%s] unexpected result %s'
                         % (label, show(out)), owner.module, fn)
                continue
            G, stable = out.items
            ok = isinstance(G, ListV) and len(G) == nr
            if ok:
                for i, j, k in itertools.product(range(nr), range(nx), range(nx2)):
                    kw = dict(fixed, **{n1: xs.items[j], n2: ys.items[k]})
                    w = rx[i].opaque_methods['get_delta_GoRT'](I, rx[i], [], kw) / nf.items[i]
                    if units2:
                        w = w * D.sym('kb') * D.sym('Na') * D.sym('U<kJ>') * kw['T']
                    try:
                        ok = ok and same(G.items[i].items[j].items[k], w)
                    except (AttributeError, IndexError):
                        ok = False
            run.check(ok, 'REF.table', 'PhaseDiagram.get_GoRT_2D', 'tabulated energies',
                      '[%s] tabulated entry [i][j][k] is not dG_i(x1_j, x2_k)/nf_i%s' % (
                          label, ' times R*T at that grid point' if units2 else ''), owner.module, fn)
            good = isinstance(stable, ListV) and len(stable) == nx
            if good:
                for j, k in itertools.product(range(nx), range(nx2)):
                    try:
                        s_ = stable.items[j].items[k]
                    except (AttributeError, IndexError):
                        good = False
                        break
                    col = [G.items[i].items[j].items[k] for i in range(nr)]
                    if nr == 1:
                        good = good and ((isinstance(s_, Rat) and s_.iszero()) or
                                         (isinstance(s_, ArgV) and len(s_.cands) == 1))
                    else:
                        good = good and isinstance(s_, ArgV) and s_.which == 'min' and len(s_.cands) == nr and \
                            all(same(a, b) for a, b in zip(s_.cands, col))
            run.check(good, 'AXIS.argmin', 'PhaseDiagram.get_GoRT_2D', 'stable phase per grid point',
                      '[%s] the arg-min must run over the reactions at each (x1, x2) grid point; got %s'
                      % (label, show(stable, 200)), owner.module, fn,
                      sample='[%s] stable[j][k] == argmin_i G[i][j][k]' % label)
    return n


def e_span(run, repo, max_states):
    n = 0
    ci = repo.cls('pmutt.reaction.Reactions')
    owner, fn = repo.find_method(ci, 'get_E_span')
    run.fn(owner.qual + '.get_E_span')
    # sequences of 1-3 steps, with and without transition states
    shapes = [(True,), (False,), (True, False), (False, True), (True, True), (False, False, True)]
    for shape in shapes:
        nstates = sum(3 if ts else 2 for ts in shape)
        if nstates > max_states:
            continue
        perms = list(itertools.permutations(range(nstates)))
        if len(perms) > 720:
            perms = perms[::len(perms) // 720 + 1]
        for perm in perms:
            ranks = {}
            I = Interp(repo, order=RankOrder(ranks))
            D = I.D
            rxns = []
            names = []
            for si, ts in enumerate(shape):
                r = Obj('step%d' % si)
                r.attrs['reactants'] = 'R'
                r.attrs['products'] = 'P'
                r.attrs['transition_state'] = 'T' if ts else None

                def G(I_, obj, args, kwargs):
                    return I_.D.sym('%s.G[%s]' % (obj.name, kwargs['state']))
                r.opaque_methods['get_G_state'] = G
                rxns.append(r)
                for st in ('reactants',) + (('transition_state',) if ts else ()) + ('products',):
                    names.append('step%d.G[%s]' % (si, st))
            for nm, rk in zip(names, perm):
                ranks[nm] = rk
            seq = Obj('seq', ci, attrs={'reactions': ListV(rxns)})
            got = I.call_method(seq, 'get_E_span', [], {'units': 'kJ/mol', 'T': D.sym('T')})
            imax = max(range(nstates), key=lambda i: perm[i])
            imin = min(range(nstates), key=lambda i: perm[i])
            want = D.sym(names[imax]) - D.sym(names[imin])
            if imax < imin:
                want = want + D.sym(names[-1]) - D.sym(names[0])
            n += 1
            run.check(isinstance(got, Rat) and got.eq(want), 'REF.span', 'Reactions.get_E_span',
                      'span', '[steps=%s ordering=%s] span is %s, expected highest minus lowest%s'
                      % (shape, perm, show(got, 120), ' plus the overall reaction energy' if imax < imin else ''),
                      owner.module, fn,
                      sample='steps=%s ordering=%s -> %s' % (shape, perm, show(want, 100)) if n % 97 == 0 else None)
    # Network.get_E_span (own copy)
    m = repo.module('pmutt.reaction.network')
    nci = m.classes.get('Network')
    if nci is None or 'get_E_span' not in nci.methods:
        raise AnchorError('Network.get_E_span not found')
    fn2 = nci.methods['get_E_span']
    run.fn('pmutt.reaction.network.Network.get_E_span')
    for ns in (2, 3, 4):
        for perm in itertools.permutations(range(ns)):
            for units in (None, 'kJ/mol'):
                ranks = {}
                I = Interp(repo, order=RankOrder(ranks))
                D = I.D
                nodes = DictV()
                names = []
                meth = 'get_G' if units else 'get_GoRT'
                for k in range(ns):
                    sp = Obj('sp%d' % k, attrs={'name': 'sp%d' % k})

                    def g(I_, obj, args, kwargs, meth=meth):
                        return I_.D.sym('%s.%s' % (obj.name, meth))
                    sp.opaque_methods[meth] = g
                    sp.opaque_params[meth] = ('T', 'units')
                    nodes.d['state%d' % k] = DictV({'species': ListV([sp]), 'stoich': ListV([C(1)])})
                    names.append('sp%d.%s' % (k, meth))
                    ranks[names[-1]] = perm[k]
                graph = Obj('graph', attrs={'nodes': nodes})
                net = Obj('net', nci, attrs={'graph': graph})
                got = I.call_method(net, 'get_E_span', [], {'path': ListV(['state%d' % k for k in range(ns)]),
                                                            'units': units, 'T': D.sym('T')})
                imax = max(range(ns), key=lambda i: perm[i])
                imin = min(range(ns), key=lambda i: perm[i])
                want = D.sym(names[imax]) - D.sym(names[imin])
                if imax < imin:
                    want = want + D.sym(names[-1]) - D.sym(names[0])
                n += 1
                run.check(isinstance(got, Rat) and got.eq(want), 'REF.span', 'Network.get_E_span', 'span',
                          '[path of %d states ordering=%s units=%s] span is %s, expected highest minus lowest%s'
                          % (ns, perm, units, show(got, 120), ' plus last minus first' if imax < imin else ''),
                          m, fn2)
    # the network built by the real constructor: every state node carries its own species and coefficients, and the
    # span over a path through a step with a transition state uses them (a coefficient taken from another state of
    # the same step changes the energies the span is computed from)
    owner_i, fn_i = repo.find_method(nci, '__init__')
    upd = repo.find_method(nci, 'update_network', missing_ok=True)
    s2s = m.functions.get('state_to_set')
    if s2s is None:
        raise AnchorError('pmutt.reaction.network.state_to_set not found')
    for units in (None, 'kJ/mol'):
        meth = 'get_G' if units else 'get_GoRT'
        for order_name, vals in (('highest after lowest', {'A': 1, 'TS1': 10, 'B': 2, 'TS2': 4, 'C': 1}),
                                 ('highest before lowest', {'A': 5, 'TS1': 20, 'B': 1, 'TS2': 2, 'C': 4})):
            ranks = {}
            I = Interp(repo, order=RankOrder(ranks, const_ranks=True, witness=True))
            D = I.D
            sp = {}
            for nm in ('A', 'TS1', 'B', 'TS2', 'C'):
                o = Obj(nm, attrs={'name': nm, 'elements': DictV({'X': C(1)})})
                o.missing.add('reaction')

                def g(I_, obj, args, kwargs, meth=meth):
                    return I_.D.sym('%s.%s' % (obj.name, meth))
                o.opaque_methods[meth] = g
                o.opaque_params[meth] = ('T', 'units')
                sp[nm] = o
                ranks['%s.%s' % (nm, meth)] = vals[nm]
            # A = TS1 = 2 B ;  2 B = 3 TS2 = C   (transition-state coefficients differ from both neighbours)
            r1 = make_reaction(I, repo, 'pmutt.reaction.Reaction', [sp['A']], [C(1)], [sp['B']], [C(2)],
                               [sp['TS1']], [C(1)], name='r1')
            r2 = make_reaction(I, repo, 'pmutt.reaction.Reaction', [sp['B']], [C(2)], [sp['C']], [C(1)],
                               [sp['TS2']], [C(3)], name='r2')
            net = I.construct(nci, [], {'reactions': ListV([r1, r2])}, name='net')
            label = 'A = TS1 = 2B; 2B = 3TS2 = C, %s, units=%s' % (order_name, units)
            if not isinstance(net, Obj):
                run.fail('REF.span', 'Network.__init__', label, 'the network is not built: %s' % show(net), m, fn_i)
                continue
            states = [([sp['A']], [C(1)]), ([sp['TS1']], [C(1)]), ([sp['B']], [C(2)]), ([sp['TS2']], [C(3)]),
                      ([sp['C']], [C(1)])]
            path = ListV([I.call_function(m, s2s, [ListV(a_), ListV(list(b_))], {}) for a_, b_ in states])
            got = I.call_method(net, 'get_E_span', [], {'path': path, 'units': units, 'T': D.sym('T')})
            G = [D.sym('%s.%s' % (a_[0].name, meth)) * b_[0] for a_, b_ in states]
            gv = [vals[a_[0].name] * int(b_[0].const_value()) for a_, b_ in states]
            imax, imin = gv.index(max(gv)), gv.index(min(gv))
            want = G[imax] - G[imin]
            if imax < imin:
                want = want + G[-1] - G[0]
            n += 1
            run.check(isinstance(got, Rat) and got.eq(want), 'REF.span', 'Network.update_network', label,
                      'the span over the path through both steps is %s, expected %s (every state weighted with its own '
                      'coefficients)' % (show(got, 160), show(want, 160)), m, upd[1] if upd else fn_i,
                      sample='Network(%s): span %s' % (label, show(want, 100)))
    # conditions given per species (<name>_kwargs): in a state of several species each one is evaluated under its own
    # conditions, and the span is taken over those energies
    for units in (None, 'kJ/mol'):
        meth = 'get_G' if units else 'get_GoRT'
        for order_name, base in (('pair state highest', {'A': 2, 'X': 10, 'Y': 20, 'B': 1}),
                                 ('pair state lowest', {'A': 50, 'X': 2, 'Y': 4, 'B': 60})):
            ranks = {}
            I = Interp(repo, order=RankOrder(ranks, const_ranks=True, witness=True))
            D = I.D
            pX, pY = D.sym('pX'), D.sym('pY')
            sp = {}

            def gname(nm, P, meth=meth):
                return '%s.%s[P=%s]' % (nm, meth, show(P, 40))
            for nm in ('A', 'X', 'Y', 'B'):
                o = Obj(nm, attrs={'name': nm, 'elements': DictV({'Z': C(1 if nm in 'XY' else 2)})})
                o.missing.add('reaction')

                def g(I_, obj, args, kwargs, gname=gname):
                    return I_.D.sym(gname(obj.name, kwargs.get('P')))
                o.opaque_methods[meth] = g
                o.opaque_params[meth] = ('T', 'units', 'P')
                sp[nm] = o
                for k_, P in enumerate((None, pX, pY)):
                    ranks[gname(nm, P)] = base[nm] + k_
            r1 = make_reaction(I, repo, 'pmutt.reaction.Reaction', [sp['A']], [C(1)], [sp['X'], sp['Y']], [C(1), C(1)],
                               None, None, name='r1')
            r2 = make_reaction(I, repo, 'pmutt.reaction.Reaction', [sp['X'], sp['Y']], [C(1), C(1)], [sp['B']], [C(1)],
                               None, None, name='r2')
            net = I.construct(nci, [], {'reactions': ListV([r1, r2])}, name='net')
            label = 'A = X + Y; X + Y = B, X_kwargs/Y_kwargs given, %s, units=%s' % (order_name, units)
            if not isinstance(net, Obj):
                run.fail('REF.span', 'Network.__init__', label, 'the network is not built: %s' % show(net), m, fn_i)
                continue
            states = [([sp['A']], [C(1)]), ([sp['X'], sp['Y']], [C(1), C(1)]), ([sp['B']], [C(1)])]
            path = ListV([I.call_function(m, s2s, [ListV(a_), ListV(list(b_))], {}) for a_, b_ in states])
            got = I.call_method(net, 'get_E_span', [], {'path': path, 'units': units, 'T': D.sym('T'),
                                                        'X_kwargs': DictV({'P': pX}), 'Y_kwargs': DictV({'P': pY})})
            G = [D.sym(gname('A', None)), D.sym(gname('X', pX)) + D.sym(gname('Y', pY)), D.sym(gname('B', None))]
            gv = [base['A'], base['X'] + 1 + base['Y'] + 2, base['B']]
            imax, imin = gv.index(max(gv)), gv.index(min(gv))
            want = G[imax] - G[imin]
            if imax < imin:
                want = want + G[-1] - G[0]
            n += 1
            run.check(isinstance(got, Rat) and got.eq(want), 'REF.span', 'network.get_state_quantity', label,
                      'the span is %s, expected %s (each species of a state under its own conditions)'
                      % (show(got, 200), show(want, 200)), m, m.functions.get('get_state_quantity') or fn2,
                      sample='Network(%s): span %s' % (label, show(want, 100)))
    return n


def check(run, repo):
    run.explanation = (
        'PhaseDiagram.get_GoRT_1D/2D are interpreted with uninterpreted reactions, symbolic normalisation factors and '
        'grid values: every tabulated entry equals the reaction\'s delta G/RT at that grid point divided by its '
        'normalisation factor (times RT iff units are requested), and np.nanargmin is modelled as an uninterpreted '
        'arg-min that remembers its candidate list, which must be the column over the REACTIONS at each grid point, '
        'identically in one and two dimensions. Reactions.get_E_span and Network.get_E_span are interpreted under an '
        'ordering oracle for every ordering of the state energies (sequences of 1-3 steps with and without transition '
        'states; paths of 2-4 states): the span is highest minus lowest plus last minus first iff the highest state '
        'comes before the lowest.')
    run.assumptions = ['np.nanargmin/argmin/argmax return the index of the extremum of the values they are given '
                       '(first occurrence)']
    run.undecided = ['NaN handling', 'ties between equal energies']
    n = phase_diagrams(run, repo)
    run.floor('phase diagram cases', n, 16)
    n = e_span(run, repo, 7 if run.tier == 'thorough' else 6)
    run.floor('energy span orderings', n, 500)
    run.extra['orderings'] = n


P_ = 'pmutt/reaction/phasediagram.py'
R_ = 'pmutt/reaction/__init__.py'
MUTANTS = [
    {'name': '2D arg-min over the second grid axis', 'expect': ('AXIS.argmin', 'get_GoRT_2D'),
     'edits': [(P_, '            stable_phases[i, :] = np.nanargmin(GoRT_row, axis=1)', '            stable_phases[i, :] = np.nanargmin(GoRT_row.transpose((1, 0)), axis=1)')]},
    {'name': 'normalisation multiplies', 'expect': ('REF.table', 'get_GoRT_1D'),
     'edits': [(P_, '                GoRT[i, j] = reaction.get_delta_GoRT(**kwargs) / norm_factor', '                GoRT[i, j] = reaction.get_delta_GoRT(**kwargs) * norm_factor')]},
    {'name': 'span correction when max after min', 'expect': ('REF.span', 'Reactions.get_E_span'),
     'edits': [(R_, '        if max_i < min_i:\n            E_span += states_G[-1] - states_G[0]', '        if max_i > min_i:\n            E_span += states_G[-1] - states_G[0]')]},
    {'name': 'network span uses argmin twice', 'expect': ('REF.span', 'Network.get_E_span'),
     'edits': [('pmutt/reaction/network.py', '        max_i = np.argmax(G)', '        max_i = np.argmin(G)')]},
]
EQUIV = []
