"""C12 - unit tables form a consistent algebra and agree with their definitions.

Everything here is table analysis: the literal tables of pmutt/constants.py
are constant-folded from their source tokens (exact Fractions + the rounding
implied by the digits written), the functions that consult them are
interpreted abstractly with every table entry kept as a named atom, and the
relations the property states are decided on those folded values.
"""
import ast
import itertools
from fractions import Fraction as Fr

from ..fold import Num, fold_num, fold_value, duplicate_keys, fold_table
from ..nf import Rat, C
from ..source import AnchorError, Unsupported, norm
from ..xlate import Interp, Raised, DictV, ListV, RankOrder
from .. import xlate

MOD = 'pmutt.constants'

PERIODIC = ('H He Li Be B C N O F Ne Na Mg Al Si P S Cl Ar K Ca Sc Ti V Cr Mn Fe Co Ni Cu Zn '
            'Ga Ge As Se Br Kr Rb Sr Y Zr Nb Mo Tc Ru Rh Pd Ag Cd In Sn Sb Te I Xe Cs Ba La Ce '
            'Pr Nd Pm Sm Eu Gd Tb Dy Ho Er Tm Yb Lu Hf Ta W Re Os Ir Pt Au Hg Tl Pb Bi Po At Rn '
            'Fr Ra Ac Th Pa U Np Pu Am Cm Bk Cf Es Fm Md No Lr Rf Db Sg Bh Hs Mt Ds Rg Cn Nh Fl '
            'Mc Lv Ts Og').split()
PROVISIONAL = {'Nh': 'Uut', 'Mc': 'Uup', 'Ts': 'Uus', 'Og': 'Uuo'}

PI = Num(Fr('3.14159265358979323846'), Fr(1, 10 ** 20))

# witness values of a numeric argument besides 1: every branch on the argument is followed for each of them and the
# result must be the same map of the argument
WITNESSES = (('a negative number', Fr(-7, 3)), ('a tiny number', Fr(1, 10 ** 30)), ('a huge number', Fr(10 ** 30)))


def factor_displays(repo):
    """[(module, name, ast.Dict)] - the numeric dict displays that make up the table of conversion factors consulted
    by the public convert_unit, the one that anchors reports first.  Usually one display (xlate.unit_table).  Where
    the factors are kept as one display per quantity type - nested in the display convert_unit consults, or unpacked
    into it with ``**`` - these displays together are the table."""
    m = repo.module(MOD)
    fn = m.functions.get('convert_unit')
    if fn is None:
        raise AnchorError('%s.convert_unit not found' % MOD)
    try:
        first = xlate.unit_table(repo)
    except AnchorError:
        first = None
    out, seen = [], set()

    def take(tm, nm, nd, depth=0):
        if id(nd) in seen or depth > 3:
            return
        seen.add(id(nd))
        if xlate.numeric_table(tm, nd):
            out.append((tm, nm, nd))
            return
        for k, v in zip(nd.keys, nd.values):
            if isinstance(v, ast.Dict):
                take(tm, nm, v, depth + 1)                       # a table per quantity type inside the table
            elif k is None and isinstance(v, (ast.Name, ast.Attribute)):
                r = repo.resolve_expr(tm, v)                     # **_energy_factors
                if isinstance(r, tuple) and r[0] == 'value' and isinstance(r[2], ast.Dict):
                    take(r[1], ast.unparse(v), r[2], depth + 1)

    def units_in(nodes):
        return sum(1 for _tm, _nm, nd in nodes for k in nd.keys if k is not None and k.value in DIMENSION)

    if first is None or units_in([first]) < 30:
        for tm, nm, nd in repo.reached_tables(m, fn):
            take(tm, nm, nd)
        out = [c_ for c_ in out if units_in([c_])]
        if first is None or units_in(out) > units_in([first]):
            if not out:
                raise AnchorError('no table of conversion factors is reached from %s.convert_unit' % MOD)
            out.sort(key=lambda c_: -units_in([c_]))
            return out
    return [first]


def interp_for_constants(repo):
    I = Interp(repo)
    for k in list(I.native):
        if k.startswith('pmutt.constants.'):
            del I.native[k]
    I.table_atoms = {}
    m = repo.module(MOD)
    env = {}
    for name in ('Na', 'e'):
        if name in m.assigns:
            try:
                env[name] = fold_num(m, m.assigns[name][-1])
            except Unsupported:
                pass
    I.table_env = env
    # the tables are found by role and get canonical names in the atoms, whatever the source calls them
    unodes = [nd for _tm, _nm, nd in factor_displays(repo)]
    for unode in unodes:
        I.table_names[id(unode)] = 'unit_dict'
    for fname in ('R', 'kb', 'h', 'c'):
        try:
            tm, _n, node = const_table(repo, m, fname, exclude=unodes)
        except AnchorError:
            continue
        I.table_names[id(node)] = fname + '_dict'
    return I


def eval_num(r, values):
    """interval evaluation of a Rat whose atoms are table atoms / pi."""
    def ev_poly(p):
        tot = Num(0)
        for k, v in p.t.items():
            term = Num(v)
            for a, e in k:
                if e.denominator != 1:
                    raise Unsupported('fractional exponent in numeric evaluation')
                if a not in values:
                    raise Unsupported('atom %s has no numeric value' % a)
                term = term * (values[a] ** int(e))
            tot = tot + term
        return tot
    return ev_poly(r.n) / ev_poly(r.d) if r.has_den() else ev_poly(r.n)


def call(I, m, fname, **kw):
    fn = m.functions.get(fname)
    if fn is None:
        raise AnchorError('%s.%s not found' % (MOD, fname))
    try:
        return I.call_function(m, fn, [], kw, name=MOD + '.' + fname)
    except xlate._RaisedExc as e:
        # a modelled exception that leaves the call (e.g. an unhashable argument of a cached function, raised before
        # the body is entered) is what the call does
        return e.raised


class Watch(RankOrder):
    """the ordering oracle of this module: ranks as in RankOrder; in addition every constant a watched atom (the
    numeric argument, an element of an array argument) is compared with is noted, so that the rule can place a witness
    of the argument on either side of it and on it"""

    def __init__(self, ranks, watch, **kw):
        RankOrder.__init__(self, ranks, **kw)
        self.watch = set(watch)
        self.seen = set()

    def _watched(self, r):
        if r.is_const() or r.iszero() or not r.is_monomial():
            return False
        (k, v), = r.n.t.items()
        return v == 1 and len(k) == 1 and k[0][1] == 1 and k[0][0] in self.watch

    def __call__(self, a, op, b):
        for p_, q_ in ((a, b), (b, a)):
            if self._watched(p_) and (q_.is_const() or q_.iszero()):
                self.seen.add(Fr(0) if q_.iszero() else Fr(q_.const_value()))
        return RankOrder.__call__(self, a, op, b)


def cut_witnesses(cuts, integral=False):
    """witness values of an argument that is compared with the constants ``cuts``: one value inside every interval the
    constants cut the real line into, and the constants themselves (for an integer argument: the integers next to
    each of these)"""
    cs = sorted(set(Fr(c_) for c_ in cuts))
    if not cs:
        return []
    pts = [cs[0] - max(Fr(1), abs(cs[0]))]
    for k_, c_ in enumerate(cs):
        pts.append(c_)
        pts.append((c_ + cs[k_ + 1]) / 2 if k_ + 1 < len(cs) else c_ + max(Fr(1), abs(c_)))
    if integral:
        import math
        out = []
        for p_ in pts:
            for q_ in (math.floor(p_), math.ceil(p_)):
                if q_ not in out:
                    out.append(q_)
        return out
    return pts


def raised_is(repo, m, r, builtin):
    """the outcome r of a call is an exception that IS a ``builtin`` (ValueError ...): the builtin itself, one of its
    builtin subclasses, or a class of the package that derives from one of these (what ``except <builtin>`` catches)"""
    if not isinstance(r, Raised):
        return False
    import builtins
    want = getattr(builtins, builtin)
    cache = repo.__dict__.setdefault('_c12_raised_is', {})
    key = (m.name, r.exc, builtin)
    if key in cache:
        return cache[key]

    def builtin_is(expr):
        b_ = getattr(builtins, expr.split('.')[-1], None)
        return isinstance(b_, type) and issubclass(b_, want)

    def resolve(mod, expr):
        try:
            ent = repo.resolve_expr(mod, ast.parse(expr, mode='eval').body)
        except (SyntaxError, Unsupported):
            return None
        return ent if hasattr(ent, 'base_exprs') else None

    ci = resolve(m, r.exc)
    if ci is None and not hasattr(builtins, r.exc.split('.')[-1]):
        named = [k_ for k_ in repo.all_classes() if k_.name == r.exc.split('.')[-1]]
        if len(named) == 1:
            ci = named[0]
    if ci is None:
        res = builtin_is(r.exc)
    else:
        res = False
        todo, seen = [ci], set()
        while todo and not res:
            k_ = todo.pop()
            if id(k_) in seen:
                continue
            seen.add(id(k_))
            for be in k_.base_exprs:
                sup = resolve(k_.module, be)
                if sup is not None:
                    todo.append(sup)
                elif builtin_is(be):
                    res = True
    cache[key] = res
    return res


def const_table(repo, m, fname, exclude=()):
    """(module, variable name, ast.Dict) of the single numeric table the public constants function ``fname`` consults,
    wherever it is kept (a local literal, a module-level table, another private module)"""
    fn = m.functions.get(fname)
    if fn is None:
        raise AnchorError('%s.%s not found' % (MOD, fname))
    cands = [(tm, nm, nd) for tm, nm, nd in repo.reached_tables(m, fn)
             if xlate.numeric_table(tm, nd) and not any(nd is x for x in exclude)]
    if len(cands) != 1:
        raise AnchorError('expected one numeric table behind %s.%s, found %s' % (MOD, fname, [c_[1] for c_ in cands]))
    return cands[0]


def split_unit(u):
    """'cm3 MPa/mol/K' -> (['cm3','MPa'], ['mol','K'])"""
    parts = u.split('/')
    return parts[0].split(' '), parts[1:]


def show_(r):
    return '%.6g' % float(r.const_value()) if isinstance(r, Rat) and r.is_const() else repr(r)


def check(run, repo):
    m = repo.module(MOD)
    run.explanation = (
        'Table analysis of pmutt/constants.py: every literal of unit_dict, type_dict, R/kb/h/c '
        'tables, Na is folded from its source token into an exact Fraction with the rounding its written digits '
        'imply; a unit the function derives from other rows before the look-up is read off the public factor-only '
        'form; atomic_weight and S_elements are read after the module body has been interpreted (literal, later '
        'updates, helpers and aliases that write to them). convert_unit, R, kb, h, c, m_e, m_p, '
        'P0, T0, V0 and the spectroscopic helpers are interpreted abstractly (table entries kept as '
        'atoms) for EVERY key / pair / triple, and the algebraic relations of the property are '
        'decided exactly (shape: num*U[final]/U[initial]; affine temperature maps composed as '
        'Fractions; helper inverses as rational functions; one and the same map for the argument witnesses 1, -7/3, '
        '1e-30 and 1e30, the number zero and - whenever the interpretation compares the argument or an element of an '
        'array argument with a constant - for one value inside every interval these constants cut the line into and for '
        'the constants themselves; every cross-type pair refused with a ValueError (or a subclass of it); float and '
        'integer arrays with elements of either sign element by '
        'element, the caller\'s array left unmodified, nothing remembered between calls) or within twice the summed '
        'literal roundings (derived entries and constants; two spellings of one quantity through different table '
        'entries are compared on the folded values).')
    run.assumptions = ['literal roundings: half a unit in the last written digit; integer-valued '
                       'mantissas and powers of ten are exact',
                       'agreement with CODATA is not decided, only internal consistency']
    run.undecided = ['agreement of the tabulated constants with CODATA / IUPAC values',
                     'float rounding of the arithmetic itself (identities are over the reals)']
    # type_dict and the element tables as they stand once the module has been imported (a literal, a comprehension
    # over a table of units per type, later updates - whatever the module does)
    type_node = m.assigns.get('type_dict', [None])[-1]
    if type_node is None:
        raise AnchorError('%s.type_dict not found' % MOD)
    tables = module_tables(repo, m, ('atomic_weight', 'S_elements', 'type_dict'), text=('type_dict',))
    type_dict = tables['type_dict']
    if not all(isinstance(k_, str) for k_ in type_dict):
        raise Unsupported('type_dict has keys that are not unit strings', type_node, m.relpath)
    run.table('type_dict', 'unit_dict', 'R_dict', 'kb_dict', 'h_dict', 'c_dict',
              'atomic_weight', 'S_elements', 'symmetry_dict')
    displays = factor_displays(repo)
    um, _uname, unit_node = displays[0]
    unit_nodes = [nd for _tm, _nm, nd in displays]
    Na = fold_num(m, m.assigns['Na'][-1]) if 'Na' in m.assigns else None
    if Na is None:
        raise AnchorError('Na not found')
    ud = {}
    for tm_, _nm, nd_ in displays:
        for k_, num_, _v in fold_table(tm_, nd_, {'Na': Na}):
            if k_ in ud and ud[k_].v != num_.v:
                run.fail('TABLE.dupkey', 'constants.unit_dict', 'unit in two tables:%s' % k_,
                         'unit %r has two different factors in the tables that make up the conversion table (%s and %s)'
                         % (k_, float(ud[k_].v), float(num_.v)), tm_, nd_)
            ud[k_] = num_
    literal_units = set(ud)
    run.floor('type_dict keys', len(type_dict), 60)
    by_type = {}
    for u, ty in type_dict.items():
        by_type.setdefault(ty, []).append(u)

    # ---- the table as it stands when convert_unit looks a unit up: the rows of the literal are atoms; a row the
    #      function derives before the look-up (or reaches under another name) is read off the public factor-only
    #      form convert_unit(initial=<literal unit of the type>, final=u) and is an expression in those atoms
    I = interp_for_constants(repo)
    x = I.D.sym('x')
    # branches on the number itself are decided for a witness value of the argument (x = 1 first; a negative, a tiny
    # and a huge number further down must give the same map); the argument zero is a separate instance below
    I.order = Watch({'x': 1}, ('x', 'y', 'x0', 'x1', 'x2', 'y0', 'y1', 'y2', 'k0', 'k1', 'k2'), const_ranks=True)
    values = {'pi': PI}
    for k, v in ud.items():
        values['unit_dict[%s]' % k] = v
    factor = {k: I.D.sym('unit_dict[%s]' % k) for k in ud}
    # where the interpretation does not keep the rows of a display as atoms (a display per quantity type inside another
    # display), the factors are the numbers of the literal, folded exactly from their tokens
    for ty, us in sorted(by_type.items()):
        lit_ = sorted(u for u in us if u in ud)
        if ty == 'temp' or len(lit_) < 2:
            continue
        for u in lit_[1:]:
            r = call(I, m, 'convert_unit', initial=lit_[0], final=u)
            if isinstance(r, Rat) and not r.eq(factor[u] / factor[lit_[0]]) and ud[lit_[0]].v != 0 and \
                    r.eq(C(ud[u].v / ud[lit_[0]].v)):
                for u_ in lit_:
                    factor[u_] = C(ud[u_].v)
                break
    for u, ty in sorted(type_dict.items()):
        if ty == 'temp' or u in ud:
            continue
        base = sorted(b for b in by_type[ty] if b in literal_units)
        r = call(I, m, 'convert_unit', initial=base[0], final=u) if base else None
        if isinstance(r, Rat) and not r.iszero():
            e_ = r * factor[base[0]]
            vals = dict(values)
            vals.update(I.table_atoms)
            try:
                ud[u] = eval_num(e_, vals)
            except (Unsupported, ZeroDivisionError):
                continue
            factor[u] = e_
    run.floor('unit_dict keys', len(ud), 60)

    # ---- duplicate keys silently shadowing entries (TABLE) -------------
    for tname, tmod, node in [('type_dict', m, type_node)] + [('unit_dict', tm_, nd_) for tm_, _nm, nd_ in displays]:
        if not isinstance(node, ast.Dict):
            continue
        dups = duplicate_keys(tmod, node)
        run.check(not dups, 'TABLE.dupkey', 'constants.%s' % tname, 'dup:%s' % dups,
                  'duplicate key(s) %s silently shadow an earlier entry' % dups, tmod, node)

    # ---- the quantity type of a unit is its physical dimension (the checker's own table of the unit symbols, read
    #      off their definitions): units of one dimension share one type, different dimensions have different types
    groups = {}
    unknown = []
    for u in sorted(type_dict):
        d_ = DIMENSION.get(u)
        if d_ is None:
            unknown.append(u)
        else:
            groups.setdefault(d_, []).append(u)
    for u in unknown:
        run.note('unit %r is not in the checker\'s table of physical dimensions: its quantity type is not decided' % u,
                 m, type_node)
    run.floor('units with a known physical dimension', sum(len(v) for v in groups.values()), 60)
    seen_types = {}
    for d_, us in sorted(groups.items()):
        tys = sorted({type_dict[u] for u in us})
        run.check(len(tys) == 1, 'TABLE.kind', 'constants.type_dict', 'dimension:%s' % d_,
                  'units %s all measure %s but are typed %s: conversions among them are refused or units of another '
                  'quantity are accepted' % (us, d_, {u: type_dict[u] for u in us if type_dict[u] != tys[0]} or tys),
                  m, type_node, sample='units of dimension %s share the type %r' % (d_, tys[0]))
        for t_ in tys:
            if t_ in seen_types and seen_types[t_] != d_:
                run.fail('TABLE.kind', 'constants.type_dict', 'type:%s' % t_,
                         'quantity type %r is given to units of dimension %s and of dimension %s' % (t_, seen_types[t_], d_),
                         m, type_node)
            seen_types.setdefault(t_, d_)

    # ---- every admitted non-temperature unit has a factor ---------------
    for u, ty in sorted(type_dict.items()):
        if ty == 'temp':
            continue
        run.check(u in ud, 'TABLE.factor', 'constants.convert_unit', 'unit:%s' % u,
                  'unit %r is admitted by type_dict but has no factor in unit_dict' % u, um, unit_node)
    for u in sorted(set(ud) - set(type_dict)):
        run.note('unit_dict has a factor for %r which type_dict does not admit (refused; no clause '
                 'of C12 broken)' % u, um, unit_node)

    # ---- convert_unit: shape for every pair ------------------------------
    units = sorted(type_dict)
    types = sorted(set(type_dict.values()))
    run.floor('quantity types', len(types), 10)
    run.fn(MOD + '.convert_unit')
    pairs_ok = 0
    temp_maps = {}
    scalar = {}
    thorough = run.tier == 'thorough'
    cu = m.functions['convert_unit']

    def under(w, thunk):
        """the call made with the witness value w for the argument x (every comparison of the bare argument with a
        constant is decided for that value)"""
        old = I.order.ranks['x']
        I.order.ranks['x'] = w
        try:
            return thunk()
        finally:
            I.order.ranks['x'] = old

    def alike(p_, q_):
        if isinstance(p_, Rat) and isinstance(q_, Rat):
            return p_.eq(q_)
        return isinstance(p_, Raised) and isinstance(q_, Raised) and p_.exc == q_.exc

    def image(r, v):
        """the map x -> r(x), affine in x, applied to v (None when r is not affine in x)"""
        sl = r.split_linear('x') if isinstance(r, Rat) else None
        if sl is None:
            return None
        return sl[0] * v + sl[1]

    def wtxt(w):
        return '%g' % float(w)

    def refused(r_):
        return raised_is(repo, m, r_, 'ValueError')

    def conv(a, b, num=x):
        return call(I, m, 'convert_unit', num=num, initial=a, final=b)

    def witnessed(fixed, thunk):
        """(name, value, outcome) of the call for the fixed witnesses of the argument and then - for as long as the
        interpretation compares the argument with constants the rule has not placed a witness around yet - for one
        value inside every interval these constants cut the line into and for the constants themselves.  The caller
        clears I.order.seen before the call for x = 1."""
        tried = {Fr(1)}
        queue = list(fixed)
        for _round in range(4):
            for wname, w in queue:
                w = Fr(w)
                if w in tried:
                    continue
                tried.add(w)
                yield wname, w, under(w, thunk)
            queue = [('the number %s' % wtxt(w_), w_) for w_ in cut_witnesses(I.order.seen) if w_ not in tried]
            if not queue:
                break

    first_of = {t_: sorted(us_)[0] for t_, us_ in by_type.items()}
    for a in units:
        for b in units:
            ta, tb = type_dict[a], type_dict[b]
            I.order.seen.clear()
            r = conv(a, b)
            key = 'pair:%s->%s' % (a, b)
            if ta != tb:
                # every cross-type pair (an exception made for particular unit names is invisible to a sample); the
                # repetition for a negative argument is sampled in the quick tier, a constant the argument is compared
                # with is followed up for every pair
                run.check(refused(r), 'ORDER.refuse', 'constants.convert_unit', key,
                          'conversion between quantity types %s and %s is not refused with '
                          'ValueError (got %r)' % (ta, tb, r), m, cu)
                fixed = WITNESSES[:1] if thorough or (a == first_of[ta] and b == first_of[tb]) else ()
                for wname, w, rw in witnessed(fixed, lambda: conv(a, b)):
                    run.check(refused(rw), 'ORDER.refuse', 'constants.convert_unit',
                              key + ' for %s' % wname, 'conversion of %s (x = %s) between quantity types %s and %s is '
                              'not refused with ValueError (got %r)' % (wname, wtxt(w), ta, tb, rw), m, cu)
                continue
            if isinstance(r, Raised) or r is None:
                run.fail('SHAPE.convert', 'constants.convert_unit', key,
                         'same-type conversion does not return a value (%r)' % (r,), m, cu)
                continue
            # one map for every number: the same conversion for a negative, a tiny and a huge argument, and on either
            # side of every constant the argument is compared with
            last = b == sorted(by_type[tb])[-1]
            fixed = [wt_ for k_, wt_ in enumerate(WITNESSES) if not k_ or thorough or last or ta == 'temp']
            for wname, w, rw in witnessed(fixed, lambda: conv(a, b)):
                run.check(alike(rw, r), 'SHAPE.temp' if ta == 'temp' else 'SHAPE.convert', 'constants.convert_unit',
                          '%s for %s' % (key, wname),
                          'for %s (x = %s) the conversion is %r, for x = 1 it is %r: not one %s map of the argument'
                          % (wname, wtxt(w), rw, r, 'affine' if ta == 'temp' else 'proportional'), m, cu)
            scalar[(a, b)] = r
            if ta == 'temp':
                temp_maps[(a, b)] = r
                continue
            if a not in factor or b not in factor:
                continue            # reported under TABLE.factor
            ok = r.eq(x * factor[b] / factor[a])
            run.check(ok, 'SHAPE.convert', 'constants.convert_unit', key,
                      'result is not num*unit_dict[final]/unit_dict[initial] (got %r): '
                      'reflexivity/invertibility/transitivity of the table algebra is lost' % (r,),
                      m, cu,
                      sample='convert_unit(x,%s,%s) == x*U[%s]/U[%s]' % (a, b, b, a) if pairs_ok % 97 == 0 else None)
            pairs_ok += 1
            if thorough or last:
                z = call(I, m, 'convert_unit', num=C(0), initial=a, final=b)
                run.check(isinstance(z, Rat) and z.iszero(), 'SHAPE.convert', 'constants.convert_unit',
                          'zero:%s->%s' % (a, b),
                          'converting the number zero does not give zero (got %r): conversion is not '
                          'proportional to its argument' % (z,), m, cu)
    # the number zero is a number like any other: temperature scales keep their offsets, foreign types stay refused
    for a, b in (('C', 'K'), ('K', 'C'), ('C', 'F'), ('F', 'R'), ('K', 'K'), ('R', 'K'), ('K', 'F')):
        if a in type_dict and b in type_dict:
            z = call(I, m, 'convert_unit', num=C(0), initial=a, final=b)
            rx = temp_maps.get((a, b))
            wz = None
            if isinstance(rx, Rat):
                wz = rx - x * I.D.d(rx, 'x')           # the affine map at 0
            run.check(isinstance(z, Rat) and isinstance(wz, Rat) and z.eq(wz), 'SHAPE.temp', 'constants.convert_unit',
                      'zero:%s->%s' % (a, b), 'converting 0 %s gives %r, the map for other numbers gives %r at 0'
                      % (a, z, wz), m, cu)
    for a, b in (('J', 'm'), ('C', 'J'), ('s', 'K')):
        if a in type_dict and b in type_dict:
            z = call(I, m, 'convert_unit', num=C(0), initial=a, final=b)
            run.check(refused(z), 'ORDER.refuse', 'constants.convert_unit',
                      'zero:%s->%s' % (a, b), 'conversion of the number zero between quantity types is not refused '
                      '(got %r)' % (z,), m, cu)

    # an array argument: every element goes through the map of the numbers (elements of either sign and of very
    # different size; a float array and an integer array - a temperature grid np.arange(300, 700, 100) is an everyday
    # argument), the result is a new array, the caller's array is left as it was
    def array_of(names, ranks, dtype):
        arr = ListV([I.D.sym(n_) for n_ in names])
        arr.is_array = True
        arr.dtype = dtype
        I.order.ranks.update(dict(zip(names, ranks)))
        if dtype == 'int':
            I.int_syms.update(names)
        return arr

    def array_case(kind, names, ranks, a, b, key):
        arr = array_of(names, ranks, kind)
        before = list(arr.items)
        ra = conv(a, b, arr)
        want = [image(scalar[(a, b)], v_) for v_ in before]
        ok = isinstance(ra, ListV) and len(ra) == 3 and all(isinstance(p_, Rat) and isinstance(q_, Rat) and p_.eq(q_)
                                                            for p_, q_ in zip(ra.items, want))
        run.check(ok, 'SHAPE.convert', 'constants.convert_unit', key,
                  'an array of %s numbers (%s) is not converted element by element (got %r, the map of the numbers '
                  'gives %r)' % (kind, ', '.join('%s = %s' % (n_, wtxt(w_)) for n_, w_ in zip(names, ranks)), ra, want),
                  m, cu)
        run.check(all(p_ is q_ or (isinstance(p_, Rat) and p_.eq(q_)) for p_, q_ in zip(arr.items, before)) and
                  len(arr.items) == 3, 'EFFECT.argument', 'constants.convert_unit', key,
                  'the array handed in is modified by the conversion (now %r)' % (arr,), m, cu)

    for kind, names, ranks in (('float', ('x0', 'x1', 'x2'), (Fr(-20), Fr(1, 2), Fr(10 ** 9))),
                               ('int', ('k0', 'k1', 'k2'), (-20, 1, 300))):
        for a, b in (sorted(scalar) if thorough else
                     (('J', 'kcal'), ('C', 'K'), ('K', 'C'), ('K', 'R'), ('kPa', 'atm'), ('J', 'kJ'), ('eV', 'J'),
                      ('kg', 'amu'), ('F', 'C'))):
            if (a, b) not in scalar:
                continue
            key = 'array:%s->%s' % (a, b) if kind == 'float' else '%s array:%s->%s' % (kind, a, b)
            I.order.seen.clear()
            array_case(kind, names, ranks, a, b, key)
            # the elements are compared with constants: the same array with elements on either side of each of them
            tried = set(Fr(w_) for w_ in ranks)
            for _round in range(3):
                pts = [w_ for w_ in cut_witnesses(I.order.seen, integral=kind == 'int') if Fr(w_) not in tried]
                if not pts:
                    break
                tried.update(Fr(w_) for w_ in pts)
                while len(pts) % 3:
                    pts.append(pts[-1] + 1)         # any further number: the elements stay distinct
                for j_ in range(0, len(pts), 3):
                    array_case(kind, names, pts[j_:j_ + 3], a, b,
                               '%s with elements (%s)' % (key, ', '.join(wtxt(w_) for w_ in pts[j_:j_ + 3])))
    for a, b in (('J', 'm'), ('K', 'J'), ('Pa', 'K')):
        if a in type_dict and b in type_dict and type_dict[a] != type_dict[b]:
            arr = array_of(('x0', 'x1', 'x2'), (Fr(-20), Fr(1, 2), Fr(10 ** 9)), 'float')
            ra = call(I, m, 'convert_unit', num=arr, initial=a, final=b)
            run.check(refused(ra), 'ORDER.refuse', 'constants.convert_unit',
                      'array:%s->%s' % (a, b), 'conversion of an array between quantity types is not refused with '
                      'ValueError (got %r)' % (ra,), m, cu)
    # nothing is remembered between calls: a second number, a second array, the first one again
    y = I.D.sym('y')
    I.order.ranks['y'] = 2
    for a, b in (('K', 'C'), ('eV', 'J'), ('bar', 'kPa')):
        if (a, b) not in scalar:
            continue
        r1 = call(I, m, 'convert_unit', num=x, initial=a, final=b)
        r2 = call(I, m, 'convert_unit', num=y, initial=a, final=b)
        r3 = call(I, m, 'convert_unit', num=x, initial=a, final=b)
        w2 = image(scalar[(a, b)], y)
        a1 = array_of(('x0', 'x1', 'x2'), (Fr(1, 2), 2, 3), 'float')
        a2 = array_of(('y0', 'y1', 'y2'), (Fr(1, 2), 2, 3), 'float')
        s1 = call(I, m, 'convert_unit', num=a1, initial=a, final=b)
        s2 = call(I, m, 'convert_unit', num=a2, initial=a, final=b)
        ws = [image(scalar[(a, b)], v_) for v_ in a2.items]
        ok = alike(r1, scalar[(a, b)]) and alike(r3, scalar[(a, b)]) and isinstance(w2, Rat) and alike(r2, w2) and \
            isinstance(s1, ListV) and isinstance(s2, ListV) and s2 is not s1 and len(s2) == 3 and \
            all(isinstance(q_, Rat) and alike(p_, q_) for p_, q_ in zip(s2.items, ws))
        run.check(ok, 'EFFECT.shared-state', 'constants.convert_unit', 'second call:%s->%s' % (a, b),
                  'a conversion depends on the conversions made before it: x, then y, then x again give %r, %r, %r; a '
                  'second array gives %r (expected %r)' % (r1, r2, r3, s2, ws), m, cu)
    # a unit that has a factor but no declared quantity type: of one type at most, and the same answer whatever was
    # converted before
    undeclared_units(run, repo, m, cu, type_dict, sorted(set(ud) - set(type_dict)), by_type, alike)
    # num omitted -> factor only
    r = call(I, m, 'convert_unit', initial='J', final='kJ')
    run.check(isinstance(r, Rat) and 'kJ' in factor and 'J' in factor and r.eq(factor['kJ'] / factor['J']),
              'SHAPE.convert', 'constants.convert_unit', 'num-omitted',
              'omitting num does not return the bare conversion factor', m, m.functions['convert_unit'])
    for bad in (('bogus', 'J'), ('J', 'bogus')):
        r = call(I, m, 'convert_unit', num=x, initial=bad[0], final=bad[1])
        run.check(isinstance(r, Raised), 'ORDER.refuse', 'constants.convert_unit',
                  'unknown:%s->%s' % bad, 'unknown unit is not refused', m, m.functions['convert_unit'])

    # ---- temperature: affine maps, all compositions exact ---------------
    tunits = sorted(by_type.get('temp', []))
    run.floor('temperature units', len(tunits), 4)
    aff = {}
    for (a, b), r in temp_maps.items():
        # r must be affine in x with rational coefficients
        slope = I.D.d(r, 'x')
        if not (isinstance(r, Rat) and slope.is_const()):
            run.fail('SHAPE.temp', 'constants.convert_unit', 'temp:%s->%s' % (a, b),
                     'temperature conversion is not an affine map of num (%r)' % (r,), m,
                     m.functions['convert_unit'])
            continue
        s = slope.const_value()
        off = (r - C(s) * x)
        if not off.is_const() and not off.iszero():
            run.fail('SHAPE.temp', 'constants.convert_unit', 'temp:%s->%s' % (a, b),
                     'temperature conversion is not affine', m, m.functions['convert_unit'])
            continue
        aff[(a, b)] = (s, off.const_value() if not off.iszero() else Fr(0))
    for a in tunits:
        if (a, a) in aff:
            run.check(aff[(a, a)] == (1, 0), 'ALG.temp.reflexive', 'constants.convert_unit',
                      'temp:%s->%s' % (a, a), 'identity conversion changes the value', m,
                      m.functions['convert_unit'])
    for a, b in itertools.permutations(tunits, 2):
        if (a, b) in aff and (b, a) in aff:
            s1, o1 = aff[(a, b)]
            s2, o2 = aff[(b, a)]
            ok = (s1 * s2 == 1) and (s2 * o1 + o2 == 0)
            run.check(ok, 'ALG.temp.inverse', 'constants.convert_unit', 'temp:%s->%s->%s' % (a, b, a),
                      '%s->%s followed by %s->%s is x -> %s*x + %s, not the identity'
                      % (a, b, b, a, s1 * s2, s2 * o1 + o2), m, m.functions['convert_unit'],
                      sample='f_%s%s o f_%s%s = id (exact)' % (b, a, a, b))
    for a, b, c3 in itertools.permutations(tunits, 3):
        if all(k in aff for k in ((a, b), (b, c3), (a, c3))):
            s1, o1 = aff[(a, b)]
            s2, o2 = aff[(b, c3)]
            s3, o3 = aff[(a, c3)]
            ok = (s1 * s2 == s3) and (s2 * o1 + o2 == o3)
            run.check(ok, 'ALG.temp.transitive', 'constants.convert_unit',
                      'temp:%s->%s->%s' % (a, b, c3),
                      'going through %s gives %s*x+%s but the direct map is %s*x+%s'
                      % (b, s1 * s2, s2 * o1 + o2, s3, o3), m, m.functions['convert_unit'])
    # absolute zero / anchor sanity of the K<->C map (definition, exact)
    if ('C', 'K') in aff:
        run.check(aff[('C', 'K')] == (1, Fr('273.15')), 'REF.temp', 'constants.convert_unit',
                  'temp:C->K', 'C->K is not x + 273.15', m, m.functions['convert_unit'])
    if ('K', 'R') in aff:
        run.check(aff[('K', 'R')] == (Fr(9, 5), 0), 'REF.temp', 'constants.convert_unit',
                  'temp:K->R', 'K->R is not 1.8*x', m, m.functions['convert_unit'])
    if ('C', 'F') in aff:
        run.check(aff[('C', 'F')] == (Fr(9, 5), 32), 'REF.temp', 'constants.convert_unit',
                  'temp:C->F', 'C->F is not 1.8*x + 32', m, m.functions['convert_unit'])

    # ---- derived entries of unit_dict (numeric, literal roundings) -------
    table_mod = {}

    def rel(name, got, want, key, why, node=unit_node, rule='TABLE.derived'):
        ok = got.approx(want)
        dev = abs(got.v / want.v - 1) if want.v != 0 else abs(got.v)
        tol = 2 * (got.rel() + want.rel())
        import math
        run.check(ok, rule, name, key,
                  '%s: table value %.10g vs definition %.10g (relative deviation %.2e, allowed by '
                  'literal roundings %.2e)' % (why, float(got.v), float(want.v), float(dev), float(tol)),
                  um if node is unit_node else table_mod.get(id(node), m), node,
                  sig='relative deviation of the order 1e%d' % (round(math.log10(float(dev))) if dev else -99),
                  sample={'relation': key, 'table': float(got.v), 'definition': float(want.v),
                          'rel_dev': float(dev), 'tol': float(tol)})

    for u in sorted(by_type.get('length', [])):
        for p, ty in ((2, 'area'), (3, 'volume')):
            du = '%s%d' % (u, p)
            if du in ud and type_dict.get(du) == ty:
                rel('constants.unit_dict', ud[du], ud[u] ** p, 'unit:%s=%s^%d' % (du, u, p),
                    '%s factor is not the %s of the %s factor' % (du, 'square' if p == 2 else 'cube', u))
    if 'L' in ud and 'm3' in ud and 'm' in ud:
        rel('constants.unit_dict', ud['L'], ud['m3'] * Num(1000), 'unit:L=1e-3 m3', 'litre is not 1e-3 m3')
    if 'mL' in ud and 'cm3' in ud:
        rel('constants.unit_dict', ud['mL'], ud['cm3'], 'unit:mL=cm3', 'mL differs from cm3')
    # composite energy units: product of the parts (table convention: units per SI unit)
    for u in sorted(ud):
        parts = u.split(' ')
        if len(parts) > 1 and all(p in ud for p in parts):
            want = Num(1)
            for p in parts:
                want = want * ud[p]
            rel('constants.unit_dict', ud[u], want, 'unit:%s=%s' % (u, '*'.join(parts)),
                'composite unit %r is not the product of its parts (volume x pressure)' % u)
    for e in ('eV', 'Eh', 'Ha'):
        for s in ('molecule', 'particle'):
            k = '%s/%s' % (e, s)
            if k in ud and e in ud:
                rel('constants.unit_dict', ud[k], ud[e] / Na, 'unit:%s=%s/Na' % (k, e),
                    'per-%s energy is not the plain energy unit divided by Na' % s)
    for e in ('J', 'kJ', 'cal', 'kcal'):
        k = e + '/mol'
        if k in ud and e in ud:
            rel('constants.unit_dict', ud[k], ud[e], 'unit:%s=%s' % (k, e),
                'molar energy factor differs from the plain energy factor')
    for a, b in (('Eh', 'Ha'), ('molec', 'molecule'), ('torr', 'mmHg'), ('Eh/molecule', 'Ha/molecule')):
        if a in ud and b in ud:
            rel('constants.unit_dict', ud[a], ud[b], 'unit:%s=%s' % (a, b), 'aliases disagree')
    for a in ('molecule', 'molec', 'particle'):
        if a in ud:
            rel('constants.unit_dict', ud[a], Na, 'unit:%s=Na' % a, 'entities per mole is not Na')
    # SI prefixes inside the table
    for a, b, f in (('kJ', 'J', Fr(1, 1000)), ('kcal', 'cal', Fr(1, 1000)), ('kPa', 'Pa', Fr(1, 1000)),
                    ('MPa', 'Pa', Fr(1, 10 ** 6)), ('g', 'kg', 1000), ('cm', 'm', 100), ('km', 'm', Fr(1, 1000)),
                    ('nm', 'm', 10 ** 9), ('A', 'm', 10 ** 10), ('ms', 's', 1000), ('ns', 's', 10 ** 9),
                    ('ps', 's', 10 ** 12), ('min', 's', Fr(1, 60)), ('hr', 's', Fr(1, 3600)),
                    ('day', 's', Fr(1, 86400)), ('bar', 'Pa', Fr(1, 10 ** 5)),
                    ('kJ/mol', 'J/mol', Fr(1, 1000)), ('kcal/mol', 'cal/mol', Fr(1, 1000))):
        if a in ud and b in ud:
            rel('constants.unit_dict', ud[a], ud[b] * Num(f), 'unit:%s=%s*%s' % (a, b, f),
                'prefixed unit is not the stated multiple of its base unit')

    # ---- constant tables: every key, through the real functions ----------
    values.update(I.table_atoms)
    for k, v in ud.items():
        values.setdefault('unit_dict[%s]' % k, v)

    def same(got, want):
        """got and want denote one quantity: the same normal form, or - where the two sides reach it through different
        table entries (c in cm/s or c in m/s through the length factors, R under two keys that hold one number) - a
        quotient that is free of the argument and is 1 on the folded table values within the roundings of the literals
        (exactly 1 where the literals are exact)"""
        if not isinstance(got, Rat) or not isinstance(want, Rat):
            return False
        if got.eq(want):
            return True
        if got.iszero() or want.iszero():
            return False
        vals = dict(values)
        vals.update(I.table_atoms)
        try:
            q = got / want
            if any(a_ not in vals for a_ in q.atoms()):
                return False
            return eval_num(q, vals).approx(Num(1))
        except (Unsupported, ZeroDivisionError):
            return False

    def const_fn(fname, keys, **extra):
        """{key: (value, folded value)} of the public function for every key of its table: the keys of the literal and
        every documented unit the function answers (a row that is derived from another row after the literal is a row
        like any other)"""
        out = {}
        for k in list(keys) + [k_ for k_ in DOCUMENTED.get(fname, ()) if k_ not in keys]:
            r = call(I, m, fname, units=k, **extra)
            values.update(I.table_atoms)
            if k not in keys and not isinstance(r, Rat):
                continue            # not a unit of this table (any more): counted by the floor
            if isinstance(r, Raised) or r is None:
                run.fail('SHAPE.const', 'constants.%s' % fname, 'key:%s' % k,
                         '%s(%r) does not return a value (%r)' % (fname, k, r), m, m.functions[fname])
                continue
            out[k] = (r, eval_num(r, values))
        r = call(I, m, fname, units='no such unit', **extra)
        run.check(isinstance(r, Raised), 'ORDER.refuse', 'constants.%s' % fname, 'unknown-unit',
                  'an unsupported unit is not refused', m, m.functions[fname])
        run.fn(MOD + '.' + fname)
        return out

    def table_keys(fname):
        tm, _srcname, node = const_table(repo, m, fname, exclude=unit_nodes)
        tn = fname + '_dict'        # canonical atom prefix (see interp_for_constants)
        table_mod[id(node)] = tm
        dups = duplicate_keys(tm, node)
        run.check(not dups, 'TABLE.dupkey', 'constants.%s' % fname, 'dup:%s' % dups,
                  'duplicate key(s) %s in the table of %s' % (dups, fname), tm, node)
        return tn, [k_ for k_, _num, _v in fold_table(tm, node, {'Na': Na})], node

    Rn, Rkeys, Rnode = table_keys('R')
    kn, kbkeys, kbnode = table_keys('kb')
    hn, hkeys, hnode = table_keys('h')
    cn, ckeys, cnode = table_keys('c')
    Rv = const_fn('R', Rkeys)
    kbv = const_fn('kb', kbkeys)
    hv = const_fn('h', hkeys)
    hbar = const_fn('h', hkeys, bar=True)
    cv = const_fn('c', ckeys)
    run.floor('R keys', len(Rv), 16)
    run.floor('kb keys', len(kbv), 7)
    run.floor('h keys', len(hv), 5)
    run.floor('c keys', len(cv), 2)
    for k in sorted(hv):
        if k in hv and k in hbar:
            ok = same(hbar[k][0], hv[k][0] / (C(2) * I.D.sym('pi')))
            run.check(ok, 'REF.hbar', 'constants.h', 'bar:%s' % k, 'h(bar=True) is not h/(2 pi)', m,
                      m.functions['h'])
    if 'J/mol/K' not in Rv or 'J/K' not in kbv or 'J s' not in hv:
        raise AnchorError('SI entries of R/kb/h tables not found')
    R_SI, kb_SI, h_SI = Rv['J/mol/K'][1], kbv['J/K'][1], hv['J s'][1]

    def ufac(parts):
        f = Num(1)
        for p in parts:
            if p not in ud:
                raise KeyError(p)
            f = f * ud[p]
        return f

    for k, (_, got) in sorted(Rv.items()):
        nump, den = split_unit(k)
        try:
            want = R_SI * ufac(nump)
        except KeyError as e:
            run.fail('TABLE.const', 'constants.R', 'key:%s' % k,
                     'unit part %s of R key has no conversion factor' % e, table_mod.get(id(Rnode), m), Rnode)
            continue
        if 'mol' not in den:
            want = want / Na
        rel('constants.R', got, want, 'R[%s]' % k, 'R(%r) is not R(J/mol/K) converted through unit_dict' % k,
            Rnode, 'TABLE.const')
    rel('constants.R', R_SI, kb_SI * Na, 'R=kb*Na', 'R differs from kb*Na', Rnode, 'TABLE.const')
    for k, (_, got) in sorted(kbv.items()):
        nump, den = split_unit(k)
        try:
            want = kb_SI * ufac(nump)
        except KeyError as e:
            run.fail('TABLE.const', 'constants.kb', 'key:%s' % k,
                     'unit part %s of kb key has no conversion factor' % e, table_mod.get(id(kbnode), m), kbnode)
            continue
        rel('constants.kb', got, want, 'kb[%s]' % k,
            'kb(%r) is not kb(J/K) converted through unit_dict' % k, kbnode, 'TABLE.const')
    for k, (_, got) in sorted(hv.items()):
        e_unit = k.split(' ')[0]
        try:
            want = h_SI * ufac([e_unit])
        except KeyError as e:
            run.fail('TABLE.const', 'constants.h', 'key:%s' % k,
                     'unit part %s of h key has no conversion factor' % e, table_mod.get(id(hnode), m), hnode)
            continue
        rel('constants.h', got, want, 'h[%s]' % k,
            'h(%r) is not h(J s) converted through unit_dict' % k, hnode, 'TABLE.const')
    if 'm/s' not in cv:
        raise AnchorError('SI entry of the c table not found')
    for k, (_, got) in sorted(cv.items()):
        # every key of the c table: a length per time, converted from the SI value through the unit table
        len_u, _sep, time_u = k.partition('/')
        if k == 'm/s':
            continue
        if type_dict.get(len_u) == 'length' and type_dict.get(time_u) == 'time' and len_u in ud and time_u in ud:
            rel('constants.c', got, cv['m/s'][1] * ud[len_u] / ud[time_u], 'c[%s]' % k,
                'c(%r) is not c(m/s) converted through unit_dict' % k, cnode, 'TABLE.const')
        else:
            run.note('c(%r): the unit is not a length per time of the conversion table; the value is not decided' % k,
                     table_mod.get(id(cnode), m), cnode)

    # P0, T0, V0, m_e, m_p: SI literal passed through convert_unit, for every unit of the type
    def through_convert(fname, ty, base_unit, base_val=None):
        fn = m.functions.get(fname)
        if fn is None:
            raise AnchorError('%s.%s not found' % (MOD, fname))
        run.fn(MOD + '.' + fname)
        n = 0
        for u in sorted(by_type.get(ty, [])):
            r = call(I, m, fname, units=u)
            if isinstance(r, Raised) or r is None:
                run.fail('SHAPE.const', 'constants.%s' % fname, 'key:%s' % u,
                         '%s(%r) does not return a value' % (fname, u), m, fn)
                continue
            rb = call(I, m, fname, units=base_unit)
            if ty == 'temp':
                # value at u must be the affine image of the base value
                if (base_unit, u) in aff and isinstance(rb, Rat) and rb.is_const():
                    s, o = aff[(base_unit, u)]
                    want = s * rb.const_value() + o
                    run.check(isinstance(r, Rat) and r.is_const() and r.const_value() == want,
                              'TABLE.const', 'constants.%s' % fname, '%s[%s]' % (fname, u),
                              '%s(%r) is not %s(%r) converted' % (fname, u, fname, base_unit), m, fn)
                    n += 1
                continue
            if u not in factor or base_unit not in factor or not isinstance(rb, Rat):
                continue            # reported under TABLE.factor / SHAPE.const
            want = rb * factor[u] / factor[base_unit]
            run.check(same(r, want), 'TABLE.const', 'constants.%s' % fname,
                      '%s[%s]' % (fname, u),
                      '%s(%r) is not %s(%r) passed through the unit table' % (fname, u, fname, base_unit),
                      m, fn)
            n += 1
        r = call(I, m, fname, units='no such unit')
        run.check(isinstance(r, Raised), 'ORDER.refuse', 'constants.%s' % fname, 'unknown-unit',
                  'an unsupported unit is not refused', m, fn)
        return n

    through_convert('P0', 'pressure', 'bar')
    through_convert('T0', 'temp', 'K')
    through_convert('m_e', 'mass', 'amu')
    through_convert('m_p', 'mass', 'amu')
    through_convert('V0', 'volume', 'm3')
    r = call(I, m, 'P0', units='bar')
    run.check(isinstance(r, Rat) and r.eq(C(1)), 'REF.P0', 'constants.P0', 'P0[bar]', 'P0 is not 1 bar', m,
              m.functions['P0'])
    r = call(I, m, 'T0', units='K')
    run.check(isinstance(r, Rat) and r.eq(C(Fr('298.15'))), 'REF.T0', 'constants.T0', 'T0[K]',
              'T0 is not 298.15 K', m, m.functions['T0'])
    # V0 == R*T0/P0 in SI
    r = call(I, m, 'V0', units='m3')
    want = Rv['J/mol/K'][0] * C(Fr('298.15')) / (C(1) * factor['Pa'] / factor['bar'])
    run.check(same(r, want), 'REF.V0', 'constants.V0', 'V0[m3]',
              'V0 is not R*T0/P0 (got %r)' % (r,), m, m.functions['V0'])

    # ---- spectroscopic helpers ------------------------------------------
    helpers(run, repo, I, m, values, same)
    # ---- element tables ---------------------------------------------------
    elements(run, repo, m, tables)
    run.sample({'temperature_maps': {'%s->%s' % k: [str(v[0]), str(v[1])] for k, v in sorted(aff.items())}})
    run.extra['pairs_checked'] = pairs_ok


def undeclared_units(run, repo, m, cu, type_dict, undeclared, by_type, alike):
    """units the table of factors knows but the table of quantity types does not declare ('yr', 'particle').

    "Converting between different quantity types is refused" and "reflexive, invertible and transitive for every pair
    and triple" say two things about such a unit u, whatever the code makes of it (refuses it everywhere, or gives it a
    type in some way):

    * from a fresh state u converts with units of ONE quantity type at most: were u -> v1 and u -> v2 both answered
      with v1, v2 of different declared types, v1 -> u -> v2 would be a conversion between two quantity types;
    * whether (and how) u converts with v does not depend on which conversions were asked for before: "for every
      pair" has no order of asking in it.  Every history below starts in a fresh state, makes ONE conversion whose
      result is not looked at (u -> v1 or v1 -> u, v1 running over one unit of every type), and then asks u -> v2,
      v2 -> u (one v2 of every type) and u -> u: each answer must be the answer of the fresh state.

    A fresh state is a new interpreter in which the module-level name of the type table is bound to ONE dictionary
    holding what the import leaves behind (Python's semantics of a module global: every call reads and writes the same
    object).  A type that is remembered correctly - looked up again, or cached under everything it depends on - gives
    the same answers in every history and stays silent."""
    if not undeclared:
        return
    reps = [sorted(us_)[0] for _t, us_ in sorted(by_type.items())]
    type_of = dict(type_dict)

    def fresh():
        I = interp_for_constants(repo)
        I.order = Watch({'x': 1}, ('x',), const_ranks=True)
        I.global_vars[(m.name, 'type_dict')] = DictV(dict(type_dict))
        return I

    def conv(I, a, b):
        return call(I, m, 'convert_unit', num=I.D.sym('x'), initial=a, final=b)

    def answered(r_):
        return r_ is not None and not isinstance(r_, Raised)

    def show(r_):
        return 'x -> %r' % (r_,) if answered(r_) else 'refused (%r)' % (r_,)

    for u in undeclared:
        asked = [(u, u)] + [p_ for v in reps for p_ in ((u, v), (v, u))]
        first = {p_: conv(fresh(), *p_) for p_ in asked}
        with_types = sorted({type_of[v] for v in reps if answered(first[(u, v)]) or answered(first[(v, u)])})
        run.check(len(with_types) <= 1, 'ORDER.refuse', 'constants.convert_unit',
                  'undeclared unit:%s [fresh state, one unit of every quantity type]' % u,
                  'the unit %r has a factor but no declared quantity type, and in a fresh state it converts with units of '
                  '%d quantity types (%s): through it a conversion between different quantity types is answered, e.g. %s'
                  % (u, len(with_types), ', '.join(with_types),
                     '; '.join('%s -> %s: %s' % (u, v, show(first[(u, v)])) for v in reps
                               if answered(first[(u, v)]))[:300]), m, cu)
        for v1 in reps:
            for before in ((u, v1), (v1, u)):
                I = fresh()
                conv(I, *before)            # its result is not looked at
                diff = []
                for p_ in asked:
                    r_ = conv(I, *p_)
                    if not alike(r_, first[p_]) and not (r_ is None and first[p_] is None):
                        diff.append('%s -> %s: %s, in a fresh state %s' % (p_[0], p_[1], show(r_), show(first[p_])))
                run.check(not diff, 'EFFECT.shared-state', 'constants.convert_unit',
                          'undeclared unit:%s [after one conversion %s -> %s]' % ((u,) + before),
                          'what converting with the unit %r (a factor, no declared quantity type) answers depends on the '
                          'conversion made before it: after %s -> %s, %s' % ((u,) + before + ('; '.join(diff[:4]),)),
                          m, cu)


def helpers(run, repo, I, m, values, same):
    kinds =('energy', 'freq', 'temp', 'wavenumber')
    x = I.D.sym('x')
    fns = {}
    for a, b in itertools.permutations(kinds, 2):
        name = '%s_to_%s' % (a, b)
        if name not in m.functions:
            raise AnchorError('%s.%s not found' % (MOD, name))
        fns[(a, b)] = name
        run.fn(MOD + '.' + name)

    def app(name, arg):
        fn = m.functions[name]
        try:
            return I.call_function(m, fn, [arg], {}, name=MOD + '.' + name)
        except xlate._RaisedExc as e:
            return e.raised         # a modelled exception that leaves the call is what the call does

    # one map for every number: the helper gives the same function of its argument for a negative, a tiny and a huge
    # argument as for x = 1
    every = dict(('%s_to_%s' % k_, v_) for k_, v_ in fns.items())
    for extra in ('debye_to_einstein', 'einstein_to_debye', 'wavenumber_to_inertia', 'inertia_to_temp'):
        if extra not in m.functions:
            raise AnchorError('%s.%s not found' % (MOD, extra))
        every[extra] = extra
    seen = getattr(I.order, 'seen', set())           # constants the argument is compared with (Watch)
    for name in sorted(every):
        seen.clear()
        r1 = app(name, x)
        tried = {Fr(1)}
        queue = list(WITNESSES)
        for _round in range(4):
            for wname, w in queue:
                if Fr(w) in tried:
                    continue
                tried.add(Fr(w))
                old = I.order.ranks.get('x')
                I.order.ranks['x'] = w
                try:
                    rw = app(name, x)
                finally:
                    I.order.ranks['x'] = old
                run.check(isinstance(rw, Rat) and isinstance(r1, Rat) and rw.eq(r1), 'SHAPE.helper',
                          'constants.%s' % name, 'argument: %s' % wname,
                          'for %s (x = %g) %s(x) is %r, for x = 1 it is %r: not one function of the argument'
                          % (wname, float(w), name, rw, r1), m, m.functions[name])
            # the argument is compared with constants: a witness on either side of each of them and on them
            queue = [('the number %g' % float(w_), w_) for w_ in cut_witnesses(seen) if Fr(w_) not in tried]
            if not queue:
                break
    # arrays: every helper maps an array element by element (float and integer elements, of either sign and of very
    # different size), returns a new array and leaves the caller's array alone
    from ..xlate import ListV as _LV
    cases = [(kind, names, ranks, name, '')
             for kind, names, ranks in (('float', ('x0', 'x1'), (Fr(-20), Fr(10 ** 9))), ('int', ('k0', 'k1'), (-20, 300)))
             for name in sorted(every)]
    followed = set()
    while cases:
        kind, names, ranks, name, suffix = cases.pop(0)
        seen.clear()
        xs = [I.D.sym(n_) for n_ in names]
        I.order.ranks.update(dict(zip(names, ranks)))
        if kind == 'int':
            I.int_syms.update(names)
        arr = _LV(list(xs))
        arr.is_array = True
        arr.dtype = kind
        r = app(name, arr)
        r1 = app(name, x)
        sl = r1.split_linear('x') if isinstance(r1, Rat) else None
        if sl is not None:
            each = [sl[0] * v + sl[1] for v in xs]           # the (verified) map of the numbers at the element
        else:
            each = [app(name, v) for v in xs]
        ok = isinstance(r, _LV) and len(r) == 2 and all(isinstance(p_, Rat) and isinstance(q_, Rat) and p_.eq(q_)
                                                          for p_, q_ in zip(r.items, each))
        key = ('array argument' if kind == 'float' else '%s array argument' % kind) + suffix
        run.check(ok, 'BRANCH-TWIN.helper', 'constants.%s' % name, key,
                  '%s of an array of %s numbers is %r, element by element %r' % (name, kind, r, each), m,
                  m.functions[name])
        run.check(len(arr.items) == 2 and all(p_ is q_ for p_, q_ in zip(arr.items, xs)),
                  'EFFECT.argument', 'constants.%s' % name, key,
                  '%s modifies the array it was given (now %r): a second use of the caller\'s array sees converted '
                  'values' % (name, arr), m, m.functions[name])
        # the elements are compared with constants: the same array with elements on either side of each of them
        pts = [w_ for w_ in cut_witnesses(seen, integral=kind == 'int') if (kind, name, Fr(w_)) not in followed]
        if pts and len(followed) < 200:
            followed.update((kind, name, Fr(w_)) for w_ in pts)
            if len(pts) % 2:
                pts.append(pts[-1] + 1)         # any further number: the elements stay distinct
            for j_ in range(0, len(pts), 2):
                cases.append((kind, names, tuple(pts[j_:j_ + 2]), name,
                              ' with elements (%s)' % ', '.join('%g' % float(w_) for w_ in pts[j_:j_ + 2])))
    # compositions: mutually inverse and transitive
    for a, b in itertools.combinations(kinds, 2):
        r = app(fns[(b, a)], app(fns[(a, b)], x))
        run.check(same(r, x), 'ALG.helper.inverse', 'constants.%s' % fns[(a, b)],
                  '%s o %s' % (fns[(b, a)], fns[(a, b)]),
                  '%s(%s(x)) = %r, not x' % (fns[(b, a)], fns[(a, b)], r), m, m.functions[fns[(a, b)]],
                  sample='%s(%s(x)) == x' % (fns[(b, a)], fns[(a, b)]))
        r = app(fns[(a, b)], app(fns[(b, a)], x))
        run.check(same(r, x), 'ALG.helper.inverse', 'constants.%s' % fns[(b, a)],
                  '%s o %s' % (fns[(a, b)], fns[(b, a)]),
                  '%s(%s(x)) = %r, not x' % (fns[(a, b)], fns[(b, a)], r), m, m.functions[fns[(b, a)]])
    for a, b, c3 in itertools.permutations(kinds, 3):
        r = app(fns[(b, c3)], app(fns[(a, b)], x))
        d = app(fns[(a, c3)], x)
        run.check(same(r, d), 'ALG.helper.transitive', 'constants.%s' % fns[(a, c3)],
                  '%s via %s' % (fns[(a, c3)], b),
                  '%s(%s(x)) differs from %s(x)' % (fns[(b, c3)], fns[(a, b)], fns[(a, c3)]), m,
                  m.functions[fns[(a, c3)]])
    # textbook anchors (REF): E = h nu = kB T = h c nu~  (cm/s because wavenumbers are in 1/cm)
    # the constants are what the public accessors return (verified against their definitions above), whichever row of
    # whichever table holds them
    h = call(I, m, 'h', units='J s')
    kb = call(I, m, 'kb', units='J/K')
    c_cm = call(I, m, 'c', units='cm/s')
    for nm_, v_ in (('h(J s)', h), ('kb(J/K)', kb), ('c(cm/s)', c_cm)):
        if not isinstance(v_, Rat):
            raise AnchorError('%s.%s does not return a number (%r)' % (MOD, nm_, v_))
    ref = {('freq', 'energy'): x * h, ('temp', 'energy'): x * kb, ('wavenumber', 'energy'): x * h * c_cm}
    for (a, b), want in ref.items():
        r = app(fns[(a, b)], x)
        run.check(same(r, want), 'REF.helper', 'constants.%s' % fns[(a, b)],
                  fns[(a, b)], '%s(x) = %r is not the textbook %r' % (fns[(a, b)], r, want), m,
                  m.functions[fns[(a, b)]])
    # Debye <-> Einstein
    for f, g in (('debye_to_einstein', 'einstein_to_debye'), ('einstein_to_debye', 'debye_to_einstein')):
        if f not in m.functions or g not in m.functions:
            raise AnchorError('%s.%s not found' % (MOD, f))
        r = app(g, app(f, x))
        run.check(same(r, x), 'ALG.helper.inverse', 'constants.%s' % f,
                  '%s o %s' % (g, f), '%s(%s(x)) is not x' % (g, f), m, m.functions[f])
        run.fn(MOD + '.' + f)
    r = app('debye_to_einstein', x)
    want = I.D.powq(I.D.sym('pi') / C(6), Fr(1, 3)) * x
    run.check(isinstance(r, Rat) and r.eq(want), 'REF.helper', 'constants.debye_to_einstein',
              'debye_to_einstein', 'theta_E is not (pi/6)^(1/3) theta_D', m, m.functions['debye_to_einstein'])
    # wavenumber_to_inertia: I = h / (8 pi^2 c nu~)
    r = app('wavenumber_to_inertia', x)
    pi = I.D.sym('pi')
    want = h / (C(8) * pi * pi * x * c_cm)
    run.check(same(r, want), 'REF.helper', 'constants.wavenumber_to_inertia',
              'wavenumber_to_inertia', 'is not h/(8 pi^2 c nu)', m, m.functions['wavenumber_to_inertia'])
    run.fn(MOD + '.wavenumber_to_inertia', MOD + '.inertia_to_temp')
    # inertia_to_temp == hbar^2/(2 kB I): exact in shape (monomial in I), numeric in the constants
    r = app('inertia_to_temp', x)
    ok = isinstance(r, Rat) and I.D.d(r * x, 'x').iszero()
    run.check(ok, 'REF.helper', 'constants.inertia_to_temp', 'inertia_to_temp:shape',
              'rotational temperature is not inversely proportional to the moment of inertia', m,
              m.functions['inertia_to_temp'])
    if ok:
        vals = dict(values)
        vals.update(I.table_atoms)
        vals['x'] = Num(1)
        got = eval_num(r, vals)
        hS, kS = eval_num(h, vals), eval_num(kb, vals)
        want = hS * hS / (Num(8) * PI * PI * kS)
        dev = abs(got.v / want.v - 1)
        tol = 2 * (got.rel() + want.rel())
        run.check(got.approx(want), 'REF.helper', 'constants.inertia_to_temp', 'inertia_to_temp:value',
                  'theta_rot*I = %.8g but hbar^2/(2 kB) = %.8g from the SI entries (rel. dev %.1e, '
                  'allowed %.1e)' % (float(got.v), float(want.v), float(dev), float(tol)), m,
                  m.functions['inertia_to_temp'],
                  sample={'relation': 'inertia_to_temp*I = hbar^2/(2kB)', 'got': float(got.v),
                          'want': float(want.v), 'rel_dev': float(dev), 'tol': float(tol)})


def module_tables(repo, m, names, text=()):
    """the element tables as they stand once the module has been imported: the module body is interpreted statement by
    statement (a literal, later ``update`` calls and item assignments, a helper function that is handed the table, an
    alias, rows derived from other rows - whatever the module does), and the final value of each name is read.
    -> {name: {key: Fraction}}; the tables named in ``text`` hold strings: {key: str}"""
    I = Interp(repo)
    fr = xlate.Frame(I, m, {}, None, None)
    for st in m.tree.body:
        try:
            fr.exec_stmt(st)
        except xlate._RaisedExc as e:
            raise Unsupported('the module body of %s raises %r' % (m.name, e.raised), st, m.relpath)
        except Unsupported:
            # a statement outside the interpreted fragment is passed over only if it cannot reach a table: it names
            # neither a table (under any name bound to it so far) nor a function of this module
            held = [v_ for k_, v_ in fr.env.items() if k_ in names]
            reach = set(names) | set(m.functions) | {k_ for k_, v_ in fr.env.items() if any(v_ is h_ for h_ in held)}
            if any(isinstance(n_, ast.Name) and n_.id in reach for n_ in ast.walk(st)):
                raise
    out = {}
    for tname in names:
        t = fr.env.get(tname)
        if not isinstance(t, DictV):
            raise AnchorError('%s.%s is not a table after the module body has run' % (m.name, tname))
        tab = {}
        for nk, v in t.d.items():
            k = t.okey(nk)
            if isinstance(k, Rat) and (k.is_const() or k.iszero()):
                kv = Fr(0) if k.iszero() else k.const_value()
                k = int(kv) if kv.denominator == 1 else float(kv)
            if not isinstance(k, (str, int, float)) or isinstance(k, bool):
                raise Unsupported('key %r of %s.%s' % (k, m.name, tname), None, m.relpath)
            if tname in text:
                if not isinstance(v, str):
                    raise Unsupported('entry %r of %s.%s is not a text (%r)' % (k, m.name, tname, v), None, m.relpath)
                tab[k] = v
                continue
            if not (isinstance(v, Rat) and (v.is_const() or v.iszero())):
                raise Unsupported('entry %r of %s.%s is not a number (%r)' % (k, m.name, tname, v), None, m.relpath)
            tab[k] = Fr(0) if v.iszero() else v.const_value()
        out[tname] = tab
    # writes from outside: a module-level statement of another module of the package that hands a table on or stores
    # into it runs at import as well and is outside what was interpreted above
    for om in repo.modules.values():
        if om is m:
            continue
        for st in om.tree.body:
            if isinstance(st, (ast.FunctionDef, ast.AsyncFunctionDef, ast.ClassDef, ast.Import, ast.ImportFrom)):
                continue
            hits = [n_ for n_ in ast.walk(st) if (isinstance(n_, ast.Attribute) and n_.attr in names) or
                    (isinstance(n_, ast.Name) and n_.id in names)]
            if not hits:
                continue
            parent = {}
            for p_ in ast.walk(st):
                for c_ in ast.iter_child_nodes(p_):
                    parent[id(c_)] = p_
            for n_ in hits:
                nm = n_.attr if isinstance(n_, ast.Attribute) else n_.id
                r = repo.resolve_expr(om, n_)
                if not (isinstance(r, tuple) and r[0] == 'value' and r[1] is m):
                    continue
                up = parent.get(id(n_))
                if isinstance(up, ast.Subscript) and up.value is n_ and isinstance(up.ctx, ast.Load):
                    continue            # an entry is read
                if isinstance(up, ast.Compare) and n_ in up.comparators:
                    continue            # membership is tested
                raise Unsupported('module-level statement of %s touches the table %s.%s' % (om.name, m.name, nm),
                                  st, om.relpath)
    return out


def elements(run, repo, m, tables):
    for tname, floor in (('atomic_weight', 117), ('S_elements', 92)):
        node = m.assigns.get(tname, [None])[-1]
        tab = tables[tname]
        if isinstance(node, ast.Dict):
            # a key written twice in one literal: the earlier entry is silently lost
            dup = duplicate_keys(m, node)
            run.check(not dup, 'TABLE.dupkey', 'constants.%s' % tname, 'dup:%s' % dup,
                      'duplicate keys %s' % dup, m, node)
        if node is None:
            raise AnchorError('%s not found' % tname)
        nums = sorted(k for k in tab if isinstance(k, int))
        run.floor('%s atomic numbers' % tname, len(nums), floor)
        n_ok = 0
        for z in nums:
            if not 1 <= z <= len(PERIODIC):
                run.fail('TABLE.element', 'constants.%s' % tname, 'Z:%d' % z,
                         'atomic number %d is outside the periodic table' % z, m, node)
                continue
            sym = PERIODIC[z - 1]
            cands = [s for s in (sym, PROVISIONAL.get(sym)) if s and s in tab]
            if not cands:
                run.fail('TABLE.element', 'constants.%s' % tname, 'Z:%d' % z,
                         'element %d has no entry under its symbol %s' % (z, sym), m, node)
                continue
            for s in cands:
                run.check(tab[s] == tab[z], 'TABLE.element', 'constants.%s' % tname, 'Z:%d=%s' % (z, s),
                          '%s[%d] = %s but %s[%r] = %s' % (tname, z, float(tab[z]), tname, s,
                                                          float(tab[s])), m, node,
                          sample='%s[%d] == %s[%r]' % (tname, z, tname, s) if z in (1, 26, 92) else None)
                n_ok += 1
        syms = [k for k in tab if isinstance(k, str)]
        known = set(PERIODIC) | set(PROVISIONAL.values())
        for s in sorted(syms):
            if s in known:
                z = (PERIODIC.index(s) + 1) if s in PERIODIC else \
                    PERIODIC.index([k for k, v in PROVISIONAL.items() if v == s][0]) + 1
                run.check(z in tab, 'TABLE.element', 'constants.%s' % tname, 'sym:%s' % s,
                          'symbol %s has an entry but atomic number %d has none' % (s, z), m, node)
    # get_molecular_weight: count-weighted sum, formula strings through parse_formula
    pm = repo.module('pmutt')
    fn = pm.functions.get('get_molecular_weight')
    if fn is None:
        raise AnchorError('pmutt.get_molecular_weight not found')
    run.fn('pmutt.get_molecular_weight')
    I = Interp(repo)
    n1, n2, n3 = I.D.sym('n1'), I.D.sym('n2'), I.D.sym('n3')
    tab = tables['atomic_weight']
    for comp in (('C', 'H', 'O'), ('Pt', 'Cl', 'N'), (6, 1, 8)):
        if not all(k in tab for k in comp):
            continue
        d = DictV()
        for k_, n_ in zip(comp, (n1, n2, n3)):
            # keys as the interpreter itself holds them (an atomic number is a number like any other)
            d.d[d.nkey(C(k_) if isinstance(k_, int) else k_)] = n_
        r = I.call_function(pm, fn, [d], {}, name='pmutt.get_molecular_weight')
        want = C(tab[comp[0]]) * n1 + C(tab[comp[1]]) * n2 + C(tab[comp[2]]) * n3
        run.check(isinstance(r, Rat) and r.eq(want), 'REF.molweight', 'pmutt.get_molecular_weight',
                  'comp:%s' % (comp,), 'molar mass is not the count-weighted sum of atomic weights '
                  '(got %r)' % (r,), pm, fn, sample='M(%s) == sum n_i*w_i' % (comp,))
    # a formula string gives the same molar mass as its composition, every time: the composition handed out for a
    # formula belongs to the caller (editing it must not change what the formula means afterwards)
    pf = pm.functions.get('parse_formula')
    if pf is None:
        raise AnchorError('pmutt.parse_formula not found')
    run.fn('pmutt.parse_formula')
    if all(k in tab for k in ('C', 'H', 'O')):
        want = C(tab['C']) + C(tab['H']) * 4 + C(tab['O'])
        I = Interp(repo)
        r1 = I.call_function(pm, fn, ['CH3OH'], {}, name='pmutt.get_molecular_weight')
        run.check(isinstance(r1, Rat) and r1.eq(want), 'REF.molweight', 'pmutt.get_molecular_weight', 'formula string',
                  'molar mass of the formula CH3OH is %s, not C + 4 H + O' % show_(r1), pm, fn)
        # counts of two and three digits, a repeated symbol, a two-letter symbol
        if 'Pt' in tab:
            for formula, cnt in (('C10H22', {'C': 10, 'H': 22}), ('Pt100H205C10', {'Pt': 100, 'H': 205, 'C': 10}),
                                 ('CH3CH2OH', {'C': 2, 'H': 6, 'O': 1})):
                rr = I.call_function(pm, fn, [formula], {}, name='pmutt.get_molecular_weight')
                ww = C(0)
                for el_, k_ in cnt.items():
                    ww = ww + C(tab[el_]) * k_
                run.check(isinstance(rr, Rat) and rr.eq(ww), 'REF.molweight', 'pmutt.get_molecular_weight',
                          'formula string ' + formula, 'molar mass of the formula %s is %s, not the count-weighted sum %s'
                          % (formula, show_(rr), show_(ww)), pm, fn)
        comp = I.call_function(pm, pf, ['CH3OH'], {}, name='pmutt.parse_formula')
        if isinstance(comp, DictV) and comp.d:
            k0 = list(comp.d)[0]
            comp.d[k0] = comp.d[k0] + 1            # the caller edits the composition it was given
            comp.d['Zz'] = C(3)
            r2 = I.call_function(pm, fn, ['CH3OH'], {}, name='pmutt.get_molecular_weight')
            again = I.call_function(pm, pf, ['CH3OH'], {}, name='pmutt.parse_formula')
            run.check(isinstance(r2, Rat) and r2.eq(want) and isinstance(again, DictV) and again is not comp and
                      'Zz' not in again.d, 'EFFECT.shared-state', 'pmutt.parse_formula', 'composition edited by the caller',
                      'after the caller edits the dictionary parse_formula returned for CH3OH, the same formula string '
                      'has molar mass %s (expected %s) and parses to %s: results are shared between calls'
                      % (show_(r2), show_(want), sorted(map(str, again.d)) if isinstance(again, DictV) else again),
                      pm, pf)


# the units the constant functions document (read off their docstrings once; a unit the function no longer answers is
# not an instance, the floors count what is left)
DOCUMENTED = {
    'R': ('J/mol/K', 'kJ/mol/K', 'L kPa/mol/K', 'cm3 kPa/mol/K', 'm3 Pa/mol/K', 'cm3 MPa/mol/K', 'm3 bar/mol/K',
          'L bar/mol/K', 'L torr/mol/K', 'cal/mol/K', 'kcal/mol/K', 'L atm/mol/K', 'cm3 atm/mol/K', 'eV/K', 'Eh/K',
          'Ha/K'),
    'kb': ('J/K', 'kJ/K', 'eV/K', 'cal/K', 'kcal/K', 'Eh/K', 'Ha/K'),
    'h': ('J s', 'kJ s', 'eV s', 'Eh s', 'Ha s'),
    'c': ('m/s', 'cm/s'),
}

# physical dimension of every unit symbol the conversion table admits (frozen after reading the definitions of the
# symbols; a symbol missing here is reported as undecided, not as a finding)
DIMENSION = {}
for _d, _us in (
        ('energy', 'J kJ eV cal kcal Eh Ha'), ('energy', ['L atm']),
        ('energy per amount', 'J/mol kJ/mol cal/mol kcal/mol eV/molecule eV/particle Eh/molecule Eh/particle '
                              'Ha/molecule Ha/particle'),
        ('time', 's ms ns ps min hr day'), ('amount', 'mol molec molecule particle'),
        ('temperature', 'K C F R'), ('length', 'm cm nm A km inch ft mile'),
        ('area', 'm2 cm2 A2 km2 inch2 ft2'), ('volume', 'm3 cm3 L mL inch3 ft3'),
        ('mass', 'kg g amu lbs'), ('pressure', 'Pa kPa MPa atm bar mmHg torr psi')):
    for _u in (_us.split() if isinstance(_us, str) else _us):
        DIMENSION[_u] = _d


K_ = 'pmutt/constants.py'
_TEMP = "        # Evaluating each combination\n"
_LIN = "        result = num * unit_dict[final] / unit_dict[initial]"
_TYPES = "    # Check that the unit types are the same\n"
_W2T = "    return wavenumber * c('cm/s') * h('J s') / kb('J/K')\n"
_AW_END = '"""dict : Atomic weight. The key can be the atomic number, the element symbol,\nor the element name"""\n'
MUTANTS = [
    {'name': 'the caller\'s array is scaled in place', 'expect': ('EFFECT.argument', 'convert_unit'),
     'edits': [(K_, "        result = num * unit_dict[final] / unit_dict[initial]", "        result = num\n        result *= unit_dict[final] / unit_dict[initial]")]},
    {'name': 'zero is returned before the units are looked at', 'expect': ('', 'convert_unit'),
     'edits': [(K_, "    if initial_type != final_type:", "    if num is not None and np.all(num == 0.):\n        return num\n    if initial_type != final_type:")]},
    {'name': 'division and multiplication swapped in the linear conversion', 'expect': ('', 'convert_unit'),
     'edits': [(K_, "        result = num * unit_dict[final] / unit_dict[initial]", "        result = num * unit_dict[initial] / unit_dict[final]")]},
    {'name': 'Fahrenheit to Kelvin without the offset', 'expect': ('', 'convert_unit'),
     'edits': [(K_, "                result = (num + 459.67) / 1.8", "                result = num / 1.8")]},
    {'name': 'kPa per Pa off by a factor of a million', 'expect': ('TABLE', ''),
     'edits': [(K_, "        'kPa': 1.e-3,", "        'kPa': 1.e3,")]},
    {'name': 'mmHg declared a length', 'expect': ('', ''),
     'edits': [(K_, "    'mmHg': 'pressure',", "    'mmHg': 'length',")]},
    {'name': 'conversion between unit types no longer refused', 'expect': ('ORDER.refuse', 'convert_unit'),
     'edits': [(K_, "    if initial_type != final_type:", "    if initial_type != final_type and False:")]},
    # white-box round 2
    {'name': 'absolute temperatures clipped at zero (np.maximum)', 'expect': ('SHAPE.temp', 'convert_unit'),
     'edits': [(K_, _TEMP, "        if initial in ('K', 'R'):\n            num = np.maximum(num, 0.)\n" + _TEMP)]},
    {'name': 'absolute temperatures below zero set to zero (comparison of the argument)',
     'expect': ('SHAPE.temp', 'convert_unit'),
     'edits': [(K_, _TEMP, "        if initial in ('K', 'R') and num < 0.:\n            num = 0.\n" + _TEMP)]},
    {'name': 'negative pressures taken as zero', 'expect': ('SHAPE.convert', 'convert_unit'),
     'edits': [(K_, _LIN, "        if initial_type == 'pressure' and num < 0.:\n            num = 0.\n" + _LIN)]},
    {'name': 'numbers below 1e-20 flushed to zero', 'expect': ('SHAPE.convert', 'convert_unit'),
     'edits': [(K_, _LIN, "        if 0. < num < 1.e-20:\n            num = 0.\n" + _LIN)]},
    {'name': 'temperatures above 1e20 refused', 'expect': ('SHAPE.temp', 'convert_unit'),
     'edits': [(K_, _TEMP, "        if num > 1.e20:\n            raise ValueError('not a temperature')\n" + _TEMP)]},
    {'name': 'lists accepted through np.asarray, scaled in place', 'expect': ('EFFECT.argument', 'convert_unit'),
     'edits': [(K_, _LIN, "        if isinstance(num, (list, tuple, np.ndarray)):\n"
                "            result = np.asarray(num, dtype=float)\n"
                "            result *= unit_dict[final] / unit_dict[initial]\n            return result\n" + _LIN)]},
    {'name': 'arrays converted before the quantity types are compared', 'expect': ('ORDER.refuse', 'convert_unit'),
     'edits': [(K_, "    if initial_type != final_type:", "    if isinstance(num, np.ndarray) and 'temp' not in (initial_type, "
                "final_type):\n        return num * unit_dict[final] / unit_dict[initial]\n    if initial_type != final_type:")]},
    {'name': 'results remembered per pair of units', 'expect': ('EFFECT.shared-state', 'convert_unit'),
     'edits': [(K_, "def convert_unit(num=None, initial=None, final=None):", "_converted = {}\n\n\n"
                "def convert_unit(num=None, initial=None, final=None):"),
               (K_, "        result = num * unit_dict[final] / unit_dict[initial]\n    return result",
                "        if num is not None and initial + '>' + final in _converted:\n            return _converted[initial + '>' + final]\n"
                "        result = num * unit_dict[final] / unit_dict[initial]\n"
                "        _converted[initial + '>' + final] = result\n    return result")]},
    {'name': 'convert_unit behind a memoising decorator keyed on the text of the arguments', 'expect': 'error',
     'edits': [(K_, "def convert_unit(num=None, initial=None, final=None):", "def _memoize(func):\n    cache = {}\n\n"
                "    def wrapper(*args, **kwargs):\n        key = str(args) + str(sorted(kwargs.items()))\n"
                "        if key not in cache:\n            cache[key] = func(*args, **kwargs)\n        return cache[key]\n"
                "    return wrapper\n\n\n@_memoize\ndef convert_unit(num=None, initial=None, final=None):")]},
    {'name': 'atomic weights revised by symbol through a helper called at module level',
     'expect': ('TABLE.element', 'atomic_weight'),
     'edits': [(K_, _AW_END, _AW_END + "\n\ndef _revise(table, revisions):\n    for element, value in revisions.items():\n"
                "        table[element] = value\n\n\n_revise(atomic_weight, {'Ar': 39.95, 'Yb': 173.045})\n")]},
    {'name': 'atomic weight revised by symbol through an alias of the table', 'expect': ('TABLE.element', 'atomic_weight'),
     'edits': [(K_, _AW_END, _AW_END + "_weights = atomic_weight\n_weights['Ar'] = 39.95\n")]},
    {'name': 'helper clips negative wavenumbers', 'expect': ('SHAPE.helper', 'wavenumber_to_temp'),
     'edits': [(K_, "    return wavenumber * c('cm/s') * h('J s') / kb('J/K')",
                "    return np.maximum(wavenumber, 0.) * c('cm/s') * h('J s') / kb('J/K')")]},
    # white-box round 3
    {'name': 'a copy of the array is scaled in place (integer arrays cannot hold the result)',
     'expect': ('SHAPE.convert', 'convert_unit'),
     'edits': [(K_, _LIN, "        if isinstance(num, np.ndarray):\n            result = num.copy()\n"
                "            result *= unit_dict[final] / unit_dict[initial]\n            return result\n" + _LIN)]},
    {'name': 'float arrays scaled in place through astype(float, copy=False)', 'expect': ('EFFECT.argument', 'convert_unit'),
     'edits': [(K_, _LIN, "        if isinstance(num, np.ndarray):\n            result = num.astype(float, copy=False)\n"
                "            result *= unit_dict[final] / unit_dict[initial]\n            return result\n" + _LIN)]},
    {'name': 'the Celsius offset added as an array shaped like the (integer) argument',
     'expect': ('TYPE.int-buffer', 'convert_unit'),
     'edits': [(K_, "                result = num + 273.15\n", "                if isinstance(num, np.ndarray):\n"
                "                    result = num + np.full_like(num, 273.15)\n                else:\n"
                "                    result = num + 273.15\n")]},
    {'name': 'molar energies passed through to the plain energy unit', 'expect': ('ORDER.refuse', 'convert_unit'),
     'edits': [(K_, _TYPES, "    molar = ('J/mol', 'kJ/mol', 'cal/mol', 'kcal/mol')\n"
                "    if (initial in molar and initial[:-4] == final) or (final in molar and final[:-4] == initial):\n"
                "        final_type = initial_type\n" + _TYPES)]},
    {'name': 'lengths accepted where an area of the same unit is asked for', 'expect': ('ORDER.refuse', 'convert_unit'),
     'edits': [(K_, _TYPES, "    if initial + '2' == final:\n        final_type = initial_type\n" + _TYPES)]},
    {'name': 'lru_cache on convert_unit: arrays are unhashable', 'expect': ('SHAPE.convert', 'convert_unit'),
     'edits': [(K_, "import numpy as np\n", "import functools\n\nimport numpy as np\n"),
               (K_, "def convert_unit(num=None, initial=None, final=None):",
                "@functools.lru_cache(maxsize=None)\ndef convert_unit(num=None, initial=None, final=None):")]},
    {'name': 'array entries next to zero flushed to zero', 'expect': ('SHAPE.convert', 'convert_unit'),
     'edits': [(K_, _LIN, _LIN + "\n        if isinstance(num, np.ndarray):\n"
                "            result[(num > -1.e-12) & (num < 1.e-12)] = 0.")]},
    {'name': 'array entries above 1e12 refused', 'expect': ('SHAPE.convert', 'convert_unit'),
     'edits': [(K_, _LIN, "        if isinstance(num, np.ndarray) and np.any(num > 1.e12):\n"
                "            raise ValueError('overflow')\n" + _LIN)]},
    {'name': 'Celsius and Fahrenheit below absolute zero refused', 'expect': ('SHAPE.temp', 'convert_unit'),
     'edits': [(K_, _TEMP, "        if (initial == 'C' and np.any(num < -273.15)) or (initial == 'F' and np.any(num < -459.67)):\n"
                "            raise ValueError('below absolute zero')\n" + _TEMP)]},
    {'name': 'numbers between 1e-40 and 1e-35 flushed to zero', 'expect': ('SHAPE.convert', 'convert_unit'),
     'edits': [(K_, _LIN, "        if 1.e-40 < num < 1.e-35:\n            num = 0.\n" + _LIN)]},
    {'name': 'helper flushes wavenumbers between 1e-40 and 1e-35 to zero', 'expect': ('SHAPE.helper', 'wavenumber_to_temp'),
     'edits': [(K_, _W2T, "    if 1.e-40 < wavenumber < 1.e-35:\n        return 0.\n" + _W2T)]},
    {'name': 'helper flushes small entries of an array to zero', 'expect': ('BRANCH-TWIN.helper', 'wavenumber_to_temp'),
     'edits': [(K_, _W2T, "    if isinstance(wavenumber, np.ndarray):\n        result = " + _W2T.strip()[7:] + "\n"
                "        result[wavenumber < 1.e-3] = 0.\n        return result\n" + _W2T)]},
    {'name': 'c in cm/s derived from the SI row with the factor the wrong way round', 'expect': ('TABLE.const', 'constants.c'),
     'edits': [(K_, "        'cm/s': 299792458.e2,\n    }\n", "    }\n    c_dict['cm/s'] = c_dict['m/s'] / 100.\n")]},
    {'name': 'c in km/s added with the wrong exponent', 'expect': ('TABLE.const', 'constants.c'),
     'edits': [(K_, "        'cm/s': 299792458.e2,\n", "        'cm/s': 299792458.e2,\n        'km/s': 299792458.e-2,\n")]},
    {'name': 'kilo rows of kb derived from the base rows with the factor the wrong way round',
     'expect': ('TABLE.const', 'constants.kb'),
     'edits': [(K_, "        'kJ/K': 1.38064852e-26,\n", ""), (K_, "        'kcal/K': 3.2998292e-27,\n", ""),
               (K_, "    try:\n        return kb_dict[units]", "    for unit in ('J/K', 'cal/K'):\n"
                "        kb_dict['k' + unit] = kb_dict[unit] * 1.e3\n    try:\n        return kb_dict[units]")]},
    # black-box round 7
    {'name': 'a unit with a factor but no declared type takes the type of its first partner, remembered in type_dict',
     'expect': ('EFFECT.shared-state', 'convert_unit'),
     'edits': [(K_, "    try:\n        initial_type = type_dict[initial]\n    except KeyError:\n",
                "    if initial not in type_dict and initial in unit_dict and final in type_dict:\n"
                "        type_dict.setdefault(initial, type_dict[final])\n"
                "    try:\n        initial_type = type_dict[initial]\n    except KeyError:\n")]},
]

# behaviour-preserving rewrites (white-box round 2, part B, reduced to their essential edits): must stay silent
EQUIV = [
    {'name': 'helpers take c in cm/s from the SI value and the unit table',
     'edits': [(K_, "    return wavenumber * c('cm/s') * h('J s')\n",
                "    return wavenumber * (c('m/s') * convert_unit(initial='m', final='cm')) * h('J s')\n"),
               (K_, "    return h('J s') / (8. * np.pi**2 * wavenumber * c('cm/s'))",
                "    return h('J s') / (8. * np.pi**2 * wavenumber * (c('m/s') * convert_unit(initial='m', final='cm')))"),
               (K_, "    return freq / c('cm/s')", "    return freq / (c('m/s') * convert_unit(initial='m', final='cm'))")]},
    {'name': 'Hartree per particle derived from the Hartree rows inside convert_unit',
     'edits': [(K_, "        'Eh/particle': 2.2937122783963248e+17 / 6.02214086e23,\n", ""),
               (K_, "        'Ha/particle': 2.2937122783963248e+17 / 6.02214086e23,\n", ""),
               (K_, "    # Check if the entry exists\n", "    for hartree in ('Eh', 'Ha'):\n"
                "        unit_dict[hartree + '/particle'] = unit_dict[hartree] / Na\n    # Check if the entry exists\n")]},
    {'name': 'V0 reads R under the key whose units cancel',
     'edits': [(K_, "    V0 = R('J/mol/K') * T0('K') / P0('Pa')", "    V0 = R('m3 Pa/mol/K') * T0('K') / P0('Pa')")]},
    {'name': 'the alias Ha routed to the row Eh',
     'edits': [(K_, "        'Ha': 2.2937122783963248e+17,\n", ""),
               (K_, "    # Check if the entry exists\n", "    aliases = {'Ha': 'Eh'}\n    initial = aliases.get(initial, initial)\n"
                "    final = aliases.get(final, final)\n    # Check if the entry exists\n")]},
    {'name': 'symbol rows of three elements derived from the number rows',
     'edits': [(K_, _AW_END, _AW_END + "atomic_weight.update({_s: atomic_weight[_z] for _z, _s in "
                "enumerate(['H', 'He', 'Li'], start=1)})\n")]},
    # white-box round 3, part B
    {'name': 'a dedicated subclass of ValueError for incompatible units',
     'edits': [(K_, "def convert_unit(num=None, initial=None, final=None):", "class IncompatibleUnitsError(ValueError):\n"
                "    pass\n\n\ndef convert_unit(num=None, initial=None, final=None):"),
               (K_, "                   ''.format(initial, initial_type, final, final_type))\n        raise ValueError(err_msg)",
                "                   ''.format(initial, initial_type, final, final_type))\n        raise IncompatibleUnitsError(err_msg)")]},
    {'name': 'c in cm/s derived from the SI row',
     'edits': [(K_, "        'cm/s': 299792458.e2,\n    }\n", "    }\n    c_dict['cm/s'] = c_dict['m/s'] * 100.\n")]},
    {'name': 'the factors kept in a display inside the display convert_unit consults',
     'edits': [(K_, "    unit_dict = {\n        'J': 1.,\n", "    unit_dict = {'factors': {\n        'J': 1.,\n"),
               (K_, "        'psi': 0.000145038\n    }\n", "        'psi': 0.000145038\n    }}\n"),
               (K_, _LIN, "        result = num * unit_dict['factors'][final] / unit_dict['factors'][initial]")]},
    {'name': 'negative numbers converted through their magnitude (a comparison of the argument that changes nothing)',
     'edits': [(K_, _LIN, "        if not isinstance(num, np.ndarray) and num < 0.:\n"
                "            return -((-num) * unit_dict[final] / unit_dict[initial])\n" + _LIN)]},
    {'name': 'unknown units found by a membership test instead of try/except KeyError',
     'edits': [(K_, "    try:\n        initial_type = type_dict[initial]\n    except KeyError:\n", "    if initial not in type_dict:\n"),
               (K_, "    try:\n        final_type = type_dict[final]\n    except KeyError:\n", "    if final not in type_dict:\n"),
               (K_, _TYPES, "    initial_type = type_dict[initial]\n    final_type = type_dict[final]\n" + _TYPES)]},
    {'name': 'the cube root in the Debye/Einstein helpers taken with np.cbrt',
     'edits': [(K_, "    return (np.pi / 6.)**(1. / 3.) * debye_temperature",
                "    return float(np.cbrt(np.pi / 6.)) * debye_temperature"),
               (K_, "    return einstein_temperature / (np.pi / 6.)**(1. / 3.)",
                "    return einstein_temperature / float(np.cbrt(np.pi / 6.))")]},
    {'name': 'kilo rows of kb derived from the base rows',
     'edits': [(K_, "        'kJ/K': 1.38064852e-26,\n", ""), (K_, "        'kcal/K': 3.2998292e-27,\n", ""),
               (K_, "    try:\n        return kb_dict[units]", "    for unit in ('J/K', 'cal/K'):\n"
                "        kb_dict['k' + unit] = kb_dict[unit] * 1.e-3\n    try:\n        return kb_dict[units]")]},
]
