"""C09 - kinetic parameters respect the reaction's thermodynamics."""
from fractions import Fraction as Fr

from ..nf import Rat, C
from ..source import Unsupported, AnchorError
from ..xlate import Interp, Obj, ListV, DictV, Raised, RankOrder
from .common import same, show, sub, opaque_obj
from .rxnfix import reaction, make_reaction, state_sum, species, set_public, get_public
from .c08 import expected_delta, expected_state

CHEM = 'pmutt.reaction.ChemkinReaction'
SURF = 'pmutt.omkm.reaction.SurfaceReaction'
DESCRIPTORS = ('delta_H', 'rev_delta_H', 'reactants_H', 'products_H', 'delta_E', 'rev_delta_E', 'reactants_E',
               'products_E')


DIM_UNITS = ('kcal/mol', 'J/mol', 'eV')


def gas_constant(I, u):
    """R in <u>/K, written by the rule: kB (J/K) times Avogadro for the molar units, times the energy-unit factor"""
    D = I.D
    if u.endswith('/mol'):
        return D.sym('kb') * D.sym('Na') * I.unit(u)
    return D.sym('kb') * I.unit(u)


# what the rule knows to be positive: temperatures, physical constants and (by prefix) the unit factors U<..>
POSITIVE = ('T', 'T2', 'kb', 'Na', 'h')


def positive_factor(f):
    """f is a monomial with a positive coefficient over atoms that are positive"""
    if not (isinstance(f, Rat) and f.is_monomial()):
        return False
    (k_, c_), = f.n.t.items()
    return c_ > 0 and all(a_ in POSITIVE or a_.startswith('U<') for a_, _e in k_)


def max_set(I, r):
    """the arguments of a maximum, whatever way it is spelled: c * max(a, b, ..) with a positive factor c is the list
    [c a, c b, ..] (a positive factor goes through a maximum); None when r is not of that form"""
    if not isinstance(r, Rat):
        return None
    at = [a for a in r.atoms() if a in I.extrema and a.startswith('MAX{')]
    if len(at) != 1:
        return None
    lin = r.split_linear(at[0])
    if lin is None or not lin[1].iszero() or not positive_factor(lin[0]):
        return None
    return [a * lin[0] for a in I.extrema[at[0]]]


def same_set(xs, ys):
    return xs is not None and ys is not None and all(any(same(x, y) for y in ys) for x in xs) and \
        all(any(same(x, y) for x in xs) for y in ys)


def other_reaction(I, repo, cname, qual, pre, has_ts, surface=(1,), lower=False, **ctor):
    """a further reaction of class ``qual`` in the interpreter ``I``: built by the class's constructor from its own
    species (<pre>r0, <pre>r1 -> <pre>p0, <pre>p1 through <pre>t0) with its own symbolic coefficients, the reactants
    listed in ``surface`` on a catalyst site (Chemkin: phase letter - in lower case when asked, as the package accepts
    it - and a cat_site; OpenMKM: phase objects), the constructor options ``ctor`` as given"""
    D = I.D
    rs = []
    for i in range(2):
        sp = species(I, '%sr%d' % (pre, i))
        if cname == 'ChemkinReaction':
            if i in surface:
                site = Obj('%ssite%d' % (pre, i), attrs={'site_density': D.sym('%ssden%d' % (pre, i)),
                                                          'bulk_specie': 'bulk'})
                sp.attrs.update({'phase': 's' if lower else 'S', 'cat_site': site})
            else:
                sp.attrs.update({'phase': 'g' if lower else 'G', 'cat_site': None})
        elif i in surface:
            sp.attrs['phase'] = Obj('%sphase%d' % (pre, i), repo.cls('pmutt.omkm.phase.InteractingInterface'),
                                    attrs={'site_density': D.sym('%ssden%d' % (pre, i))})
        else:
            ph = Obj('%sgasphase%d' % (pre, i), repo.cls('pmutt.cantera.phase.IdealGas'))
            ph.missing.add('site_density')
            sp.attrs['phase'] = ph
        rs.append(sp)
    ps = [species(I, '%sp%d' % (pre, i)) for i in range(2)]
    ts = [species(I, '%st0' % pre)] if has_ts else None
    return make_reaction(I, repo, qual, rs, [D.sym('nu_%sr%d' % (pre, i)) for i in range(2)],
                         ps, [D.sym('nu_%sp%d' % (pre, i)) for i in range(2)], ts,
                         [D.sym('nu_%st0' % pre)] if has_ts else None, name=pre + 'rxn', **ctor)

def clamp(run, repo):
    n = 0
    thorough = run.tier == 'thorough'
    for cname, qual in (('ChemkinReaction', CHEM), ('SurfaceReaction', SURF)):
        ci = repo.cls(qual)
        for has_ts in (True, False):
            I = Interp(repo)
            D = I.D
            T, P = D.sym('T'), D.sym('P')
            T2, P2 = D.sym('T2'), D.sym('P2')
            rxn, rs, ps, ts = reaction(I, repo, qual, nts=1 if has_ts else 0)
            # a mechanism has many reactions of one class, and the writers ask them one after the other under the same
            # conditions: further reactions in the same interpreter, each with its own species and coefficients and
            # with the constructor options the first one leaves at their defaults - an adsorption step (sticking
            # coefficient) whose second reactant sits on a catalyst site, and (thorough tier) a step with given rate
            # parameters.  The clamp does not depend on any of these options; every answer has the reference of the
            # reaction that was asked
            others = [('adsorption step with a surface reactant',
                       other_reaction(I, repo, cname, qual, 'a', has_ts, surface=(1,), lower=True,
                                      is_adsorption=True))]
            if thorough:
                opts = {'beta': D.sym('beta_b'), 'sticking_coeff': D.sym('stick_b')}
                if cname == 'SurfaceReaction':
                    opts.update({'A': D.sym('A_b'), 'Ea': D.sym('Ea_b'), 'direction': 'synthesis', 'id': 'b1'})
                others.append(('step with given rate parameters, all reactants on sites',
                               other_reaction(I, repo, cname, qual, 'b', has_ts, surface=(0, 1), **opts)))
                others.append(('adsorption step with given sticking coefficient, gas reactants only',
                               other_reaction(I, repo, cname, qual, 'c', has_ts, surface=(), is_adsorption=True,
                                              sticking_coeff=D.sym('stick_c'))))
            # one reaction object is asked again and again, as the writers of the kinetic-model files do (one object,
            # several run conditions): other pressure at the same temperature, other temperature, and (thorough tier)
            # the first conditions once more.  What an earlier call left on the object must not show in a later answer
            conds = [('', T, P)]
            if has_ts or thorough:
                conds += [(' again at (T, P2)', T, P2), (' again at (T2, P2)', T2, P2)]
            if thorough:
                conds += [(' again at (T, P)', T, P)]
            for X in ('HoRT', 'GoRT'):
                owner, fn = repo.find_method(ci, 'get_%s_act' % X)
                run.fn('%s.get_%s_act' % (owner.qual, X))
                dim = 'get_%s_act' % X[0]
                o2, f2 = repo.find_method(ci, dim)
                run.fn('%s.%s' % (o2.qual, dim))

                def ask(obj, rev, ctag, Tc, Pc, units, history):
                    k = 0
                    kw = {'T': Tc, 'P': Pc}
                    got = I.call_method(obj, 'get_%s_act' % X, [], dict(kw, rev=rev))
                    d = expected_delta(I, obj, 'get_' + X, kw, rev, False)
                    want = [C(0), d]
                    if has_ts:
                        want.append(expected_delta(I, obj, 'get_' + X, kw, rev, True))
                    key = 'TS=%s rev=%s%s' % (has_ts, rev, ctag)
                    ok = same_set(max_set(I, got), want)
                    run.check(ok, 'REF.clamp', '%s.get_%s_act' % (cname, X), key,
                              'activation %s must be max(0, barrier through the transition state%s, reaction '
                              'change) in the requested direction with the conditions of this call and the species '
                              'of this reaction%s; got %s'
                              % (X, '' if has_ts else ' (none here)', history, show(got, 260)), owner.module, fn,
                              sample='%s.get_%s_act(%s) == max(0, d_act, d)' % (cname, X, key)
                              if has_ts and rev and obj is rxn else None)
                    k += 1
                    # the dimensional getter is the dimensionless one times R(units) T: same direction, same
                    # conditions (T and P both named), in more than one unit system
                    for u in units:
                        gd = I.call_method(obj, dim, [], dict(kw, units=u, rev=rev))
                        wd = got * gas_constant(I, u) * Tc if isinstance(got, Rat) else None
                        # equal as numbers: the same normal form, or maxima over the same set of arguments
                        # (R(units) T is positive: it may stand inside or outside the maximum)
                        run.check(wd is not None and isinstance(gd, Rat) and
                                  (same(gd, wd) or same_set(max_set(I, gd), max_set(I, wd))), 'TWIN.act-dim',
                                  '%s.%s' % (cname, dim), '%s units=%s' % (key, u),
                                  '%s(units=%r, T, P, rev=%s)%s is %s, expected get_%s_act(T, P, rev=%s) * R(%s) '
                                  '* T of the same call conditions = %s'
                                  % (dim, u, rev, ctag, show(gd, 200), X, rev, u, show(wd, 200)), o2.module, f2)
                        k += 1
                    return k

                for rev in (False, True):
                    for ctag, Tc, Pc in conds:
                        n += ask(rxn, rev, ctag, Tc, Pc,
                                 DIM_UNITS if thorough else DIM_UNITS[:1] if ctag else DIM_UNITS[:1] + DIM_UNITS[-1:],
                                 ' (the object was asked before under other conditions)' if ctag else '')
                        if ctag:
                            continue
                        # first reaction, the others at the same conditions, the first one again
                        for olabel, other in others:
                            n += ask(other, rev, ' | %s, asked after another reaction of the class' % olabel, Tc, Pc,
                                     DIM_UNITS if thorough else DIM_UNITS[:1],
                                     ' (another reaction of the class was asked before at the same conditions)')
                        n += ask(rxn, rev, ' again after other reactions of the class', Tc, Pc,
                                 DIM_UNITS[:1] if thorough else (),
                                 ' (other reactions of the class were asked in between)')
    return n


def adj_slope(desc, rev, slope):
    """documented: the slope refers to the direction the descriptor is written in; the other direction has slope-1"""
    if 'rev_delta' in desc:
        return slope if rev else slope - 1
    return slope - 1 if rev else slope


# Orderings of a BEP barrier against zero.  The property quantifies over exothermic and endothermic steps, slopes 0-1
# and intercepts 0-60 kcal/mol: a linear relation then gives a NEGATIVE barrier in one direction of a strongly
# exo-/endothermic step (slope*dH + intercept < 0), and the laws hold there as everywhere.  A comparison of the barrier
# with a number is answered at a concrete point (a witness, as the other properties do for T against segment bounds):
# R T = 1 kcal/mol (kb = Na = 1, U<kcal> = 1/500, T = 500 K), slope 0.3, intercept 2 kcal/mol, coefficients 1,
# enthalpies/energies over RT of the species as listed (dH = -30 or +30 kcal/mol).  The unchanged code never asks.
# (zr*, zp*: the species of the second reaction the same relation serves, of the same kind but with its own numbers)
BEP_WITNESSES = (
    ('exothermic, forward barrier below zero', {'r0': -10, 'r1': -12, 'p0': -25, 'p1': -27,
                                                'zr0': -8, 'zr1': -9, 'zp0': -30, 'zp1': -31}),
    ('endothermic, reverse barrier below zero', {'r0': -25, 'r1': -27, 'p0': -10, 'p1': -12,
                                                 'zr0': -30, 'zr1': -31, 'zp0': -8, 'zp1': -9}),
)


def bep_order(species_values):
    ranks = {'kb': Fr(1), 'Na': Fr(1), 'h': Fr(1), 'U<kcal>': Fr(1, 500), 'T': Fr(500), 'P': Fr(1),
             'bep.slope': Fr(3, 10), 'bep.intercept': Fr(2)}

    def fallback(atom):
        if atom.startswith('nu_'):
            return Fr(1)
        if atom.startswith('U<'):
            return Fr(1, 100)        # some positive unit factor: signs do not depend on it
        head, dot, rest = atom.partition('.')
        if dot and head in species_values and rest.startswith('get_'):
            return Fr(species_values[head])
        return None                  # anything else stays undecided (the analysis refuses)
    return RankOrder(ranks, const_ranks=True, fallback=fallback, witness=True)


def bep_rules(run, repo):
    n = 0
    bci = repo.cls('pmutt.reaction.bep.BEP')
    for m_ in ('get_E_act', 'get_EoRT_act', 'get_UoRT', 'get_HoRT'):
        run.fn('pmutt.reaction.bep.BEP.' + m_)
    for desc in DESCRIPTORS:
        # once per ordering of the barrier against zero, then without any ordering (all values at once; a comparison
        # that needs an answer there is outside the fragment and ends the analysis - after the orderings have been
        # decided, so that what they established is reported)
        for label, values in BEP_WITNESSES:
            n += bep_instance(run, repo, bci, desc, bep_order(values), ' [%s]' % label)
        n += bep_instance(run, repo, bci, desc, None, '')
        if run.tier == 'thorough':
            # the relation class of the OpenMKM writers serving reactions of the OpenMKM class (it keeps the reactions
            # of either direction in lists; the getters are the documented ones of the parent class)
            n += bep_instance(run, repo, repo.cls('pmutt.omkm.reaction.BEP'), desc, None,
                              ' [pmutt.omkm.reaction.BEP serving SurfaceReactions]', rqual=SURF)
    n += bep_reassigned(run, repo, bci)
    return n


# Histories of one relation object whose public settings are re-assigned (bep.descriptor = ..., bep.slope = ...,
# bep.intercept = ...) after it has been asked.  Each step: (attribute, value or None for "a new symbol", ask afterwards?).
# The chains cross the delta_* <-> rev_delta_* boundary in both directions with the slope unchanged, stay inside one
# family, leave it for the state descriptors and come back, re-assign twice WITHOUT a question in between, re-assign the
# slope and the intercept, and return to the first setting.
BEP_HISTORIES = (
    ('delta_H', True, (('descriptor', 'rev_delta_H', True), ('descriptor', 'delta_E', False),
                       ('descriptor', 'rev_delta_E', True), ('descriptor', 'products_H', True),
                       ('descriptor', 'delta_H', True), ('slope', None, True), ('descriptor', 'rev_delta_H', True),
                       ('intercept', None, True), ('descriptor', 'delta_E', True))),
    ('rev_delta_E', True, (('descriptor', 'delta_E', True), ('slope', None, False), ('descriptor', 'rev_delta_H', True),
                           ('descriptor', 'reactants_E', False), ('descriptor', 'delta_H', True))),
    # never asked before the first re-assignment
    ('rev_delta_H', False, (('descriptor', 'delta_H', True), ('descriptor', 'rev_delta_H', True))),
)


def bep_reassigned(run, repo, bci, rqual='pmutt.reaction.Reaction'):
    """instance 'settings re-assigned on a relation that was asked before': after any sequence of questions and of
    assignments to the public settings of one BEP object, its barriers (either direction, dimensional and over RT) and
    its transition-state enthalpy are those of a BEP freshly constructed with the settings the object shows now.  A
    memo keyed on everything the answer depends on (or dropped on assignment) satisfies this; nothing is said about
    whether a memo exists"""
    n = 0
    owner, fn = repo.find_method(bci, 'get_E_act')
    from .common import pub
    for first, ask_first, steps in BEP_HISTORIES:
        I = Interp(repo)
        D = I.D
        kw = {'T': D.sym('T'), 'P': D.sym('P')}
        rxn, rs, ps, ts = reaction(I, repo, rqual, nts=0)
        bep = I.construct(bci, [], {'slope': D.sym('bep.slope'), 'intercept': D.sym('bep.intercept'), 'name': 'bep',
                                    'descriptor': first}, name='bep')
        if isinstance(bep, Raised):
            raise Unsupported('BEP(slope, intercept, name, descriptor=%r) raised %s' % (first, bep.exc))
        set_public(I, rxn, 'transition_state', ListV([bep]))
        set_public(I, rxn, 'transition_state_stoich', ListV([C(1)]))

        def answers(obj):
            out = []
            for rev in (False, True):
                out.append(('get_E_act(kcal/mol, rev=%s)' % rev,
                            I.call_method(obj, 'get_E_act', [], dict(kw, units='kcal/mol', reaction=rxn, rev=rev))))
                out.append(('get_EoRT_act(rev=%s)' % rev,
                            I.call_method(obj, 'get_EoRT_act', [], dict(kw, reaction=rxn, rev=rev))))
            out.append(('get_HoRT', I.call_method(obj, 'get_HoRT', [], dict(kw, reaction=rxn))))
            return out

        if ask_first:
            answers(bep)
        history = 'BEP(descriptor=%r)%s' % (first, ', asked' if ask_first else '')
        k = 0
        for attr, value, ask in steps:
            if value is None:
                k += 1
                value = D.sym('bep.%s%d' % (attr, k))
                history += '; %s = another value' % attr
            else:
                history += '; %s = %r' % (attr, value)
            set_public(I, bep, attr, value)
            if not ask:
                continue
            history += ', asked'
            # what a user reads on the object now is what a fresh relation is constructed with
            now = {a: pub(bep, a) for a in ('slope', 'intercept', 'descriptor')}
            fresh = I.construct(bci, [], dict(now, name='bep'), name='fresh')
            if isinstance(fresh, Raised):
                raise Unsupported('BEP(**public settings of the object) raised %s' % fresh.exc)
            got, want = answers(bep), answers(fresh)
            for (what, g), (_w, w) in zip(got, want):
                ok = isinstance(g, Rat) and isinstance(w, Rat) and same(g, w)
                run.check(ok, 'HIST.bep-reassigned', 'BEP.get_E_act',
                          'settings re-assigned on a relation that was asked before | %s | %s' % (history, what),
                          '%s of a BEP object after the history [%s] is %s, but a BEP freshly constructed with the '
                          'settings the object shows now (descriptor=%r) gives %s: forward and reverse barriers must '
                          'follow the descriptor, slope and intercept of the moment they are asked for'
                          % (what, history, show(g, 200), now['descriptor'], show(w, 200)), owner.module, fn)
                n += 1
            if 'delta' in str(now['descriptor']):
                q = 'get_HoRT' if str(now['descriptor']).endswith('_H') else 'get_EoRT'
                Rk = D.sym('kb') * D.sym('Na') * D.sym('U<kcal>')
                dq = expected_delta(I, rxn, q, kw, False, False) * Rk * kw['T']
                Ef, Er = got[0][1], got[2][1]
                run.check(isinstance(Ef, Rat) and isinstance(Er, Rat) and same(Ef - Er, dq), 'ALG.bep-difference',
                          'BEP.get_E_act',
                          'settings re-assigned on a relation that was asked before | %s' % history,
                          'after the history [%s] forward minus reverse barrier is %s, not the reaction %s %s'
                          % (history, show(Ef - Er, 200) if isinstance(Ef, Rat) and isinstance(Er, Rat) else '?',
                             'enthalpy' if q == 'get_HoRT' else 'electronic energy', show(dq, 200)),
                          owner.module, fn)
                n += 1
    return n


def bep_instance(run, repo, bci, desc, order, tag, rqual='pmutt.reaction.Reaction'):
    n = 0
    quick_witness = order is not None and run.tier != 'thorough'
    I = Interp(repo, order=order)
    D = I.D
    T, P = D.sym('T'), D.sym('P')
    rxn, rs, ps, ts = reaction(I, repo, rqual, nts=0)
    # through the public constructor: where the class keeps slope and intercept is its own business; the rule
    # recognises them by the symbols it handed in
    bep = I.construct(bci, [], {'slope': D.sym('bep.slope'), 'intercept': D.sym('bep.intercept'), 'name': 'bep',
                                'descriptor': desc}, name='bep')
    if isinstance(bep, Raised):
        raise Unsupported('BEP(slope, intercept, name, descriptor=%r) raised %s' % (desc, bep.exc))
    set_public(I, rxn, 'transition_state', ListV([bep]))
    set_public(I, rxn, 'transition_state_stoich', ListV([C(1)]))
    kw = {'T': T, 'P': P}
    owner, fn = repo.find_method(bci, 'get_E_act')
    Ef = I.call_method(bep, 'get_E_act', [], dict(kw, units='kcal/mol', reaction=rxn, rev=False))
    Er = I.call_method(bep, 'get_E_act', [], dict(kw, units='kcal/mol', reaction=rxn, rev=True))
    Rk = D.sym('kb') * D.sym('Na') * D.sym('U<kcal>')
    q = 'get_HoRT' if desc.endswith('_H') else 'get_EoRT'
    if 'delta' in desc:
        # forward minus reverse barrier == reaction enthalpy (energy) in the forward direction
        kwq = dict(kw) if q == 'get_HoRT' else dict(kw)
        dq = expected_delta(I, rxn, q, kwq, False, False) * Rk * T
        run.check(same(Ef - Er, dq), 'ALG.bep-difference', 'BEP.get_E_act', 'descriptor:' + desc + tag,
                  'forward minus reverse barrier is %s, not the reaction %s'
                  % (show(Ef - Er, 200), 'enthalpy' if q == 'get_HoRT' else 'electronic energy'),
                  owner.module, fn, sample='BEP[%s]: E_act(fwd) - E_act(rev) == delta %s' % (desc, q[4]))
        n += 1
    # slope bookkeeping on every descriptor x direction
    slope, icpt = D.sym('bep.slope'), D.sym('bep.intercept')
    # the barrier is linear in the slope: its slope-derivative is the descriptor value the relation used
    # (read off the public get_E_act, whatever private helper evaluates it)
    if not (isinstance(Ef, Rat) and isinstance(Er, Rat)):
        run.fail('REF.bep-descriptor', 'BEP.get_E_act', 'descriptor:' + desc + tag,
                 'get_E_act did not produce a value: %s / %s' % (show(Ef, 120), show(Er, 120)), owner.module, fn)
        n += 1
        return n
    dval = D.d(Ef, 'bep.slope')
    # the descriptor named is the quantity evaluated (documented table of descriptors)
    if 'delta' in desc:
        want_d = expected_delta(I, rxn, q, kw, desc.startswith('rev_'), False) * Rk * T
    else:
        kws = dict(kw, include_ZPE=False) if q == 'get_EoRT' else kw
        want_d = expected_state(I, rxn, desc.split('_')[0], q, kws) * Rk * T
    run.check(same(dval, want_d) and same(D.d(Er, 'bep.slope'), want_d), 'REF.bep-descriptor', 'BEP.get_E_act',
              'descriptor:' + desc + tag,
              'descriptor %r enters the barrier as %s (forward) / %s (reverse), expected %s in kcal/mol'
              % (desc, show(dval, 160), show(D.d(Er, 'bep.slope'), 160), show(want_d, 160)),
              owner.module, fn)
    n += 1
    for rev, E in ((False, Ef), (True, Er)):
        if 'rev_delta' in desc:
            adj = slope if rev else slope - 1
        else:
            adj = slope - 1 if rev else slope
        run.check(same(E, adj * dval + icpt), 'REF.bep', 'BEP.get_E_act', 'descriptor:%s rev=%s%s' % (desc, rev, tag),
                  'barrier is %s, expected (slope%s)*descriptor + intercept'
                  % (show(E, 200), '' if same(adj, slope) else ' - 1'), owner.module, fn)
        n += 1
    # the same barrier through the reaction's transition-state enthalpy
    o2, f2 = repo.find_method(bci, 'get_HoRT')
    for rev, E in ((False, Ef), (True, Er)):
        if q != 'get_HoRT' or 'delta' not in desc:
            continue
        via = I.call_method(rxn, 'get_delta_HoRT', [], dict(kw, rev=rev, act=True))
        run.check(same(via, E / (Rk * T)), 'ALG.bep-as-TS', 'BEP.get_HoRT', 'descriptor:%s rev=%s%s' % (desc, rev, tag),
                  'activation enthalpy through the BEP transition state is %s but the relation itself gives %s'
                  % (show(via, 200), show(E / (Rk * T), 200)), o2.module, f2,
                  sample='Reaction(TS=BEP[%s]).get_delta_HoRT(act, rev=%s) == BEP.get_EoRT_act' % (desc, rev))
        n += 1
    # the same relation in the other unit systems of the barrier (the intercept is documented in kcal/mol)
    for u in DIM_UNITS:
        if u == 'kcal/mol' or quick_witness:
            continue
        Ru = gas_constant(I, u)
        Eu = {}
        for rev, E in ((False, Ef), (True, Er)):
            Eu[rev] = I.call_method(bep, 'get_E_act', [], dict(kw, units=u, reaction=rxn, rev=rev))
            wu = (adj_slope(desc, rev, slope) * want_d + icpt) * Ru / Rk
            run.check(isinstance(Eu[rev], Rat) and same(Eu[rev], wu), 'REF.bep', 'BEP.get_E_act',
                      'descriptor:%s rev=%s units=%s%s' % (desc, rev, u, tag),
                      'barrier in %s is %s, expected ((slope%s)*descriptor + intercept) converted from kcal/mol: %s'
                      % (u, show(Eu[rev], 200), '' if same(adj_slope(desc, rev, slope), slope) else ' - 1',
                         show(wu, 200)), owner.module, fn)
            n += 1
        if 'delta' in desc and isinstance(Eu[False], Rat) and isinstance(Eu[True], Rat):
            dqu = expected_delta(I, rxn, q, kw, False, False) * Ru * T
            run.check(same(Eu[False] - Eu[True], dqu), 'ALG.bep-difference', 'BEP.get_E_act',
                      'descriptor:%s units=%s%s' % (desc, u, tag),
                      'forward minus reverse barrier in %s is %s, not the reaction %s %s'
                      % (u, show(Eu[False] - Eu[True], 200), 'enthalpy' if q == 'get_HoRT' else 'electronic energy',
                         show(dqu, 200)), owner.module, fn)
            n += 1
            if q == 'get_HoRT':
                for rev in (False, True):
                    via = I.call_method(rxn, 'get_delta_H', [], dict(kw, units=u, rev=rev, act=True))
                    run.check(same(via, Eu[rev]), 'ALG.bep-as-TS', 'BEP.get_HoRT',
                              'descriptor:%s rev=%s units=%s%s' % (desc, rev, u, tag),
                              'activation enthalpy through the BEP transition state is %s %s but the relation '
                              'itself gives %s' % (show(via, 200), u, show(Eu[rev], 200)), o2.module, f2)
                    n += 1
    # U and H offsets use the same barrier
    o3, f3 = repo.find_method(bci, 'get_UoRT')
    U = I.call_method(bep, 'get_UoRT', [], dict(kw, reaction=rxn))
    H = I.call_method(bep, 'get_HoRT', [], dict(kw, reaction=rxn))
    Ur = expected_state(I, rxn, 'reactants', 'get_UoRT', kw)
    Hr = expected_state(I, rxn, 'reactants', 'get_HoRT', kw)
    run.check(same(U - Ur, H - Hr), 'SIB.bep-offsets', 'BEP.get_UoRT', 'same-barrier' + tag,
              '[descriptor %s] internal-energy offset over the reactants is %s but the enthalpy offset is %s: '
              'they must use the same (forward) barrier' % (desc, show(U - Ur, 160), show(H - Hr, 160)),
              o3.module, f3)
    run.check(same(H - Hr, Ef / (Rk * T)), 'REF.bep', 'BEP.get_HoRT', 'descriptor:' + desc + tag,
              'enthalpy of the BEP transition state is not reactants + forward barrier', o2.module, f2)
    n += 2
    # One relation serves many reactions (a homologous series; pmutt.omkm.reaction.BEP even keeps lists of them): a
    # second reaction with its own species and coefficients, built by the constructor with the SAME relation object as
    # its transition state, is asked at the same conditions, then the first reaction once more.  Every barrier is
    # the relation applied to the descriptor of the reaction that was handed in
    zr = [species(I, 'zr%d' % i) for i in range(2)]
    zp = [species(I, 'zp%d' % i) for i in range(2)]
    rxn2 = make_reaction(I, repo, rqual, zr, [D.sym('nu_zr%d' % i) for i in range(2)],
                         zp, [D.sym('nu_zp%d' % i) for i in range(2)], [bep], [C(1)], name='rxn2',
                         **({'direction': 'cleavage', 'id': 'zrxn'} if rqual == SURF else {}))
    for who, rx in (('second reaction served by the same relation', rxn2),
                    ('first reaction again after the second', rxn)):
        E = {rev: I.call_method(bep, 'get_E_act', [], dict(kw, units='kcal/mol', reaction=rx, rev=rev))
             for rev in (False, True)}
        if 'delta' in desc:
            wd = expected_delta(I, rx, q, kw, desc.startswith('rev_'), False) * Rk * T
        else:
            wd = expected_state(I, rx, desc.split('_')[0], q, dict(kw, include_ZPE=False) if q == 'get_EoRT' else kw) \
                * Rk * T
        for rev in (False, True):
            we = adj_slope(desc, rev, slope) * wd + icpt
            run.check(isinstance(E[rev], Rat) and same(E[rev], we), 'REF.bep', 'BEP.get_E_act',
                      'descriptor:%s rev=%s%s | %s' % (desc, rev, tag, who),
                      'barrier of the %s is %s, expected (slope%s)*descriptor + intercept with the descriptor of the '
                      'reaction handed in: %s' % (who, show(E[rev], 200),
                                                  '' if same(adj_slope(desc, rev, slope), slope) else ' - 1',
                                                  show(we, 200)), owner.module, fn)
            n += 1
        if 'delta' in desc and isinstance(E[False], Rat) and isinstance(E[True], Rat):
            dq2 = expected_delta(I, rx, q, kw, False, False) * Rk * T
            run.check(same(E[False] - E[True], dq2), 'ALG.bep-difference', 'BEP.get_E_act',
                      'descriptor:%s%s | %s' % (desc, tag, who),
                      'forward minus reverse barrier of the %s is %s, not its reaction %s %s'
                      % (who, show(E[False] - E[True], 200), 'enthalpy' if q == 'get_HoRT' else 'electronic energy',
                         show(dq2, 200)), owner.module, fn)
            n += 1
        if quick_witness or not isinstance(E[False], Rat) or (rx is rxn and run.tier != 'thorough'):
            continue
        if q == 'get_HoRT' and 'delta' in desc:
            for rev in (False, True):
                via = I.call_method(rx, 'get_delta_HoRT', [], dict(kw, rev=rev, act=True))
                run.check(isinstance(E[rev], Rat) and same(via, E[rev] / (Rk * T)), 'ALG.bep-as-TS', 'BEP.get_HoRT',
                          'descriptor:%s rev=%s%s | %s' % (desc, rev, tag, who),
                          'activation enthalpy of the %s through the BEP transition state is %s but the relation '
                          'itself gives %s' % (who, show(via, 200), show(E[rev] / (Rk * T), 200)), o2.module, f2)
                n += 1
        U2 = I.call_method(bep, 'get_UoRT', [], dict(kw, reaction=rx))
        H2 = I.call_method(bep, 'get_HoRT', [], dict(kw, reaction=rx))
        Ur2 = expected_state(I, rx, 'reactants', 'get_UoRT', kw)
        Hr2 = expected_state(I, rx, 'reactants', 'get_HoRT', kw)
        wf = (adj_slope(desc, False, slope) * wd + icpt) / (Rk * T)
        run.check(isinstance(U2, Rat) and same(U2 - Ur2, wf), 'REF.bep', 'BEP.get_UoRT',
                  'descriptor:%s%s | %s' % (desc, tag, who),
                  'internal energy of the BEP transition state of the %s is its reactants + %s, expected reactants + '
                  'forward barrier %s' % (who, show(U2 - Ur2, 160), show(wf, 160)), o3.module, f3)
        run.check(isinstance(H2, Rat) and same(H2 - Hr2, wf), 'REF.bep', 'BEP.get_HoRT',
                  'descriptor:%s%s | %s' % (desc, tag, who),
                  'enthalpy of the BEP transition state of the %s is its reactants + %s, expected reactants + forward '
                  'barrier %s' % (who, show(H2 - Hr2, 160), show(wf, 160)), o2.module, f2)
        n += 2
    return n


def preexp(run, repo, classes=('Reaction', 'ChemkinReaction', 'SurfaceReaction')):
    n = 0
    if 'Reaction' in classes:
        n += preexp_reaction(run, repo)
    n += preexp_surface(run, repo, [c_ for c_ in (('ChemkinReaction', CHEM), ('SurfaceReaction', SURF))
                                    if c_[0] in classes])
    return n


def preexp_reaction(run, repo):
    n = 0
    # Reaction.get_A: (kB T/h) exp(dS_act) exp(m) by the entropy route, (kB T/h) q_TS/q_IS exp(m) by the q route
    I = Interp(repo)
    D = I.D
    T, P, m_ = D.sym('T'), D.sym('P'), D.sym('m')
    kb, h = D.sym('kb'), D.sym('h')
    rxn, rs, ps, ts = reaction(I, repo, 'pmutt.reaction.Reaction')
    ci = rxn.ci
    owner, fn = repo.find_method(ci, 'get_A')
    run.fn(owner.qual + '.get_A')
    for rev in (False, True):
        kw = {'T': T, 'P': P}
        got = I.call_method(rxn, 'get_A', [], dict(kw, rev=rev, m=m_, use_q=False))
        dS = expected_delta(I, rxn, 'get_SoR', kw, rev, True)
        want = kb * T / h * D.exp(dS) * D.exp(m_)
        run.check(same(got, want), 'REF.A', 'Reaction.get_A', 'entropy route rev=%s' % rev,
                  'A is %s, expected (kB T/h) exp(dS_act/R) exp(m)' % show(got, 200), owner.module, fn,
                  sample='Reaction.get_A(use_q=False, rev=%s) == kB T/h * exp(dS_act + m)' % rev)
        got = I.call_method(rxn, 'get_A', [], dict(kw, rev=rev, m=m_, use_q=True))
        kwq = dict(kw, ignore_q_elec=True, include_ZPE=False)
        dq = expected_delta(I, rxn, 'get_q', kwq, rev, True)
        run.check(same(got, kb * T / h * dq * D.exp(m_)), 'REF.A', 'Reaction.get_A', 'q route rev=%s' % rev,
                  'A is %s, expected (kB T/h) (q_TS/q_IS) exp(m)' % show(got, 200), owner.module, fn)
        # molecularity left to the reaction (m=None): the sum of the coefficients of the initial state of that direction
        got = I.call_method(rxn, 'get_A', [], dict(kw, rev=rev, m=None, use_q=False))
        ini = get_public(I, rxn, 'products_stoich' if rev else 'reactants_stoich')
        mol = C(0)
        for x_ in ini.items:
            mol = mol + x_
        run.check(same(got, kb * T / h * D.exp(dS) * D.exp(mol)), 'REF.A', 'Reaction.get_A',
                  'molecularity from the stoichiometry rev=%s' % rev,
                  'with m=None A is %s, expected (kB T/h) exp(dS_act/R) exp(sum of the %s coefficients)'
                  % (show(got, 200), 'product' if rev else 'reactant'), owner.module, fn)
        n += 3
    # a transition state whose model has no partition function (a species object without get_q: statistical models
    # raise AttributeError for a mode that lacks the quantity): when get_A answers at all it has taken the entropy
    # route, so the value is (kB T/h) exp(dS_act) exp(m) of the direction asked for
    for where in ('transition state', 'reactant'):
        I = Interp(repo)
        D = I.D
        T, P, m_ = D.sym('T'), D.sym('P'), D.sym('m')
        kb, h = D.sym('kb'), D.sym('h')
        rs = [species(I, 'r%d' % i) for i in range(2)]
        ps = [species(I, 'p%d' % i) for i in range(2)]
        ts = [species(I, 't0')]
        bare = species_without(I, 'noq', ('get_q',))
        if where == 'reactant':
            rs[1] = bare
        else:
            ts[0] = bare
        rxn = make_reaction(I, repo, 'pmutt.reaction.Reaction', rs, [D.sym('nu_r%d' % i) for i in range(2)],
                            ps, [D.sym('nu_p%d' % i) for i in range(2)], ts, [D.sym('nu_t0')])
        for rev in (False, True):
            if where == 'reactant' and rev:
                continue        # the reverse direction does not ask the reactants for anything
            kw = {'T': T, 'P': P}
            got = I.call_method(rxn, 'get_A', [], dict(kw, rev=rev, m=m_))
            if isinstance(got, Raised):
                continue        # no factor produced: nothing promised about it
            dS = expected_delta(I, rxn, 'get_SoR', kw, rev, True)
            want = kb * T / h * D.exp(dS) * D.exp(m_)
            run.check(same(got, want), 'REF.A', 'Reaction.get_A', 'no partition function (%s) rev=%s' % (where, rev),
                      'A is %s, expected (kB T/h) exp(dS_act/R) exp(m) in the direction asked for: %s'
                      % (show(got, 200), show(want, 200)), owner.module, fn)
            n += 1
    return n


def species_without(I, name, missing):
    """a model species (as rxnfix.species) whose object lacks some of the getters"""
    from .rxnfix import SPECIES_METHODS, SPECIES_PARAMS
    o = opaque_obj(I, name, {m: SPECIES_PARAMS for m in SPECIES_METHODS if m not in missing})
    o.attrs.update({'name': name, 'phase': 'G', 'cat_site': None,
                    'elements': DictV({'A': I.D.sym('el_%s' % name)})})
    for m in missing:
        o.missing.add(m)
    return o


# which of the three reactants (coefficients 1, 2, 1) sit on a catalyst site; the others are gas species.  Surface
# species first, gas species first, gas species in the middle: the order in which a step is written is the user's
LAYOUTS = ((), (0,), (0, 1), (1, 2), (0, 2), (2,), (1,))


def surface_step(I, repo, cname, qual, surf_idx, has_ts, stoich, pre='', lower=False):
    """a reaction of class ``qual`` built by its own constructor from three reactants that already carry their phase
    and catalyst site (Chemkin: phase letter + cat_site with a site density; OpenMKM: phase objects).  Returns the
    reaction and the site densities, one per surface reactant molecule, in the order of the reactants.  ``pre``
    prefixes every name (a second step in the same interpreter); ``lower``: the Chemkin phase letters in lower case
    (the package compares them case-insensitively: 's' is a surface species as 'S' is)"""
    D = I.D
    rs, sd = [], []
    for i in range(3):
        sp = species(I, '%sr%d' % (pre, i))
        if i in surf_idx:
            den = D.sym('%ssden%d' % (pre, i))
            if cname == 'ChemkinReaction':
                site = Obj('%ssite%d' % (pre, i), attrs={'site_density': den, 'bulk_specie': 'bulk'})
                sp.attrs.update({'phase': 's' if lower else 'S', 'cat_site': site})
            else:
                sp.attrs['phase'] = Obj('%sphase%d' % (pre, i), repo.cls('pmutt.omkm.phase.InteractingInterface'),
                                        attrs={'site_density': den})
            sd += [den] * int(stoich[i].const_value())
        else:
            if cname == 'ChemkinReaction':
                sp.attrs.update({'phase': 'g' if lower else 'G', 'cat_site': None})
            else:
                ph = Obj('%sgasphase%d' % (pre, i), repo.cls('pmutt.cantera.phase.IdealGas'))
                ph.missing.add('site_density')
                sp.attrs['phase'] = ph
        rs.append(sp)
    ps = [species(I, '%sp%d' % (pre, i)) for i in range(2)]
    ts = [species(I, '%st0' % pre)] if has_ts else None
    rxn = make_reaction(I, repo, qual, rs, stoich, ps, [D.sym('nu_%sp%d' % (pre, i)) for i in range(2)], ts,
                        [D.sym('nu_%st0' % pre)] if has_ts else None, name=pre + 'rxn')
    return rxn, sd


def site_scale(D, cname, sd, op, nsurf):
    """(effective site density)^(n_surf-1): the divisor of every factor a step hands out; ``sd`` the site densities
    (mol/cm2), one per surface reactant molecule"""
    if not sd:
        return C(1)
    if op == 'sum':
        eff = sum(sd[1:], sd[0])
    elif op == 'mean':
        eff = sum(sd[1:], sd[0]) / len(sd)
    else:
        uniq = {repr(x): x for x in sd}
        if len(uniq) == 1:
            eff = sd[0]
        else:
            eff = D.sym('%s{%s}' % (op.upper(), ' | '.join(sorted(uniq))))
    if cname == 'SurfaceReaction':
        # mol/cm2 -> molec/cm2 (default units)
        eff = eff * D.sym('U<molec>')
    return eff.powi(nsurf - 1)


def preexp_surface(run, repo, classes):
    n = 0
    thorough = run.tier == 'thorough'
    # Chemkin / Surface: kB/h without TS (or without entropy), Reaction.get_A/T with; / sden**(n_surf-1)
    for cname, qual in classes:
        ci = repo.cls(qual)
        owner, fn = repo.find_method(ci, 'get_A')
        run.fn(owner.qual + '.get_A')
        # the Chemkin phase letter is a text the user writes: 'S' / 'G' and (accepted alike by the class, its writers
        # and the empirical models) 's' / 'g'
        spellings = (False, True) if cname == 'ChemkinReaction' else (False,)
        for has_ts, surf_idx, lower in [(t_, l_, c_) for t_ in (True, False) for l_ in LAYOUTS for c_ in spellings]:
            n_surf_species = len(surf_idx)
            if cname == 'ChemkinReaction' and surf_idx and surf_idx[0] != 0:
                # a step written with a gas species first: not instantiated for this class (a Chemkin get_A that
                # loses the site densities divides by a literal zero, which the interpreter refuses instead
                # of reporting; the layout with the gas species in the middle decides the same loop)
                continue
            permuted = surf_idx != tuple(range(n_surf_species))
            if lower and not thorough and permuted:
                continue          # quick tier: lower-case letters on the layouts written surface species first
            for op in ('sum', 'min', 'max', 'mean'):
                if permuted and not thorough and op in ('min', 'mean'):
                    continue      # the operation is applied to what was collected: two of them per extra layout
                if lower and not thorough and op != 'sum':
                    continue
                if n_surf_species == 0 and cname == 'SurfaceReaction':
                    continue      # documented: raises without any site density
                I = Interp(repo)
                D = I.D
                T, P = D.sym('T'), D.sym('P')
                kb, h = D.sym('kb'), D.sym('h')
                # the coefficients as Reaction.from_string stores them: Python floats - where the interpreter can tell a
                # float from an int (a number it tags with its Python type); untyped numbers otherwise
                num = getattr(I, 'pyfloat', C)
                stoich = [num(1), num(2), num(1)]
                # nothing is put on the reaction afterwards: what the constructor concludes from the species
                # (gas-phase step or not) is what get_A works with
                rxn, sd = surface_step(I, repo, cname, qual, surf_idx, has_ts, stoich, lower=lower)
                nsurf = sum(int(stoich[i].const_value()) for i in surf_idx)
                got = I.call_method(rxn, 'get_A', [], {'T': T, 'P': P, 'sden_operation': op})
                if cname == 'SurfaceReaction' and op == 'sum' and surf_idx == (0, 1):
                    # the same factor in other unit systems: site densities are mol/cm2, the result is per
                    # (quantity/length^2)^(n_surf-1) of the units asked for (string or Units object)
                    from ..xlate import Frame
                    fr_ = Frame(I, repo.module('pmutt'), {}, None, None)
                    uobj = fr_.apply(repo.cls('pmutt.omkm.units.Units'), [], {'quantity': 'molec', 'length': 'm'},
                                     None)
                    for ulabel, uarg, q_, a_ in (('mol/m2', 'mol/m2', 'mol', 'm2'),
                                                 ('molec/A2', 'molec/A2', 'molec', 'A2'),
                                                 ('Units(molec, m)', uobj, 'molec', 'm2')):
                        gu = I.call_method(rxn, 'get_A', [], {'T': T, 'P': P, 'sden_operation': op,
                                                              'units': uarg})
                        conv = I.unit(q_) / I.unit('mol') / (I.unit(a_) / I.unit('cm2'))
                        effu = sum(sd[1:], sd[0]) * conv
                        if has_ts:
                            kwq_ = {'T': T, 'P': P, 'ignore_q_elec': True, 'include_ZPE': False}
                            bu = kb / h * expected_delta(I, rxn, 'get_q', kwq_, False, True)
                        else:
                            bu = kb / h
                        wu = bu / effu.powi(nsurf - 1)
                        run.check(isinstance(gu, Rat) and same(gu, wu), 'REF.A', cname + '.get_A',
                                  'TS=%s units=%s' % (has_ts, ulabel),
                                  'A in %s is %s, expected (kB/h%s) / (site density converted mol/cm2 -> %s)^%d = %s'
                                  % (ulabel, show(gu, 160), ' * q_TS/q_IS' if has_ts else '', ulabel, nsurf - 1,
                                     show(wu, 160)), owner.module, fn)
                        n += 1

                def q_ratio(rx, Tc, Pc, rev_):
                    kwq = {'T': Tc, 'P': Pc, 'ignore_q_elec': True, 'include_ZPE': False}
                    return expected_delta(I, rx, 'get_q', kwq, rev_, True)
                base = kb / h * q_ratio(rxn, T, P, False) if has_ts else kb / h
                if not permuted:
                    key = 'TS=%s surface species=%d op=%s' % (has_ts, n_surf_species, op)
                else:
                    key = 'TS=%s surface reactants at %s of 3 op=%s' % (has_ts, '+'.join(map(str, surf_idx)), op)
                if lower:
                    key += " phase letters 's'/'g'"
                scale = site_scale(D, cname, sd, op, nsurf)
                want = base / scale
                if isinstance(got, Raised):
                    run.fail('REF.A', cname + '.get_A', key, 'get_A raises %s' % got.exc, owner.module, fn)
                else:
                    run.check(want is not None and same(got, want), 'REF.A', cname + '.get_A', key,
                              'A is %s, expected %s = (kB/h%s) / (effective site density)^(n_surf-1) with '
                              'n_surf=%d%s' % (show(got, 200), show(want, 200), ' * q_TS/q_IS' if has_ts else '',
                                               nsurf, " (the species carry their phase as 's' / 'g')" if lower else ''),
                              owner.module, fn,
                              sample='%s.get_A: %s' % (cname, key) if op == 'sum' and has_ts else None)
                n += 1
                # the same object is asked again, as write_surf / to_cti / to_omkm_yaml do: with the other options
                # of the getter (each combined with more than one surface reactant), in the other direction, by
                # the entropy route with a molecularity, and under other conditions.  Every answer has its own
                # reference; nothing an earlier call left behind may show
                if isinstance(got, Raised) or (not thorough and (permuted or lower or op in ('min', 'mean'))):
                    continue      # quick tier: the layouts written surface species first, one sum and one extremum
                T2, P2, m_ = D.sym('T2'), D.sym('P2'), D.sym('m')
                again = [('include_entropy=False', {'T': T, 'P': P, 'include_entropy': False}, kb / h,
                          'kB/h (no entropy of activation)')]
                if has_ts:
                    kws = {'T': T, 'P': P}
                    again += [
                        ('rev=True', {'T': T, 'P': P, 'rev': True}, kb / h * q_ratio(rxn, T, P, True),
                         'kB/h * q_TS/q_products (reverse direction)'),
                        ('m, use_q=False', {'T': T, 'P': P, 'm': m_, 'use_q': False},
                         kb / h * D.exp(expected_delta(I, rxn, 'get_SoR', kws, False, True)) * D.exp(m_),
                         'kB/h * exp(dS_act/R + m)')]
                    if thorough:
                        again += [
                            ('rev=True, m, use_q=False', {'T': T, 'P': P, 'rev': True, 'm': m_, 'use_q': False},
                             kb / h * D.exp(expected_delta(I, rxn, 'get_SoR', kws, True, True)) * D.exp(m_),
                             'kB/h * exp(dS_act(reverse)/R + m)')]
                again += [('again at (T2, P2)', {'T': T2, 'P': P2},
                           kb / h * q_ratio(rxn, T2, P2, False) if has_ts else kb / h,
                           'kB/h%s at the conditions of this call' % (' * q_TS/q_IS' if has_ts else ''))]
                if thorough:
                    again += [('again at (T, P)', {'T': T, 'P': P}, base, 'the first answer')]
                for label, kwx, bx, text in again:
                    gx = I.call_method(rxn, 'get_A', [], dict(kwx, sden_operation=op))
                    wx = bx / scale
                    if isinstance(gx, Raised):
                        run.fail('REF.A', cname + '.get_A', key + ' | ' + label, 'get_A raises %s' % gx.exc,
                                 owner.module, fn)
                    else:
                        run.check(same(gx, wx), 'REF.A', cname + '.get_A', key + ' | ' + label,
                                  'get_A(%s) on a step asked before is %s, expected %s = (%s) / (effective site '
                                  'density of the surface reactants)^(n_surf-1) with n_surf=%d'
                                  % (label, show(gx, 200), show(wx, 200), text, nsurf), owner.module, fn)
                    n += 1
                # a mechanism has many steps of one class and the writers ask them one after the other at the same
                # conditions: a second step in the same interpreter (its own species, sites and coefficients 2, 1, 1,
                # another number of surface reactants), then the first step once more
                idx2 = (0,) if surf_idx == (0, 1) else (0, 1)
                stoich2 = [num(2), num(1), num(1)]
                lower2 = cname == 'ChemkinReaction' and not lower
                rxn2, sd2 = surface_step(I, repo, cname, qual, idx2, has_ts, stoich2, pre='z', lower=lower2)
                nsurf2 = sum(int(stoich2[i].const_value()) for i in idx2)
                w2 = (kb / h * q_ratio(rxn2, T, P, False) if has_ts else kb / h) / \
                    site_scale(D, cname, sd2, op, nsurf2)
                for label, rx, wx, ns_ in (
                        ('second step of the class (%d surface reactant molecules%s) at the same conditions'
                         % (nsurf2, ", phase letters 's'/'g'" if lower2 else ''), rxn2, w2, nsurf2),
                        ('first step again after a second step of the class', rxn, want, nsurf)):
                    gx = I.call_method(rx, 'get_A', [], {'T': T, 'P': P, 'sden_operation': op})
                    if isinstance(gx, Raised):
                        run.fail('REF.A', cname + '.get_A', key + ' | ' + label, 'get_A raises %s' % gx.exc,
                                 owner.module, fn)
                    else:
                        run.check(same(gx, wx), 'REF.A', cname + '.get_A', key + ' | ' + label,
                                  'get_A of the %s is %s, expected %s = (kB/h%s) / (effective site density of ITS '
                                  'surface reactants)^(n_surf-1) with n_surf=%d'
                                  % (label, show(gx, 200), show(wx, 200), ' * q_TS/q_IS' if has_ts else '', ns_),
                                  owner.module, fn)
                    n += 1
        # include_entropy=False drops the transition-state factor
        I = Interp(repo)
        D = I.D
        rxn, rs, ps, ts = reaction(I, repo, qual, nr=1)
        set_public(I, rxn, 'reactants_stoich', ListV([C(1)]))
        if cname == 'ChemkinReaction':
            rs[0].attrs.update({'phase': 'S', 'cat_site': Obj('site', attrs={'site_density': D.sym('sden'),
                                                                              'bulk_specie': 'bulk'})})
            rxn.attrs['gas_phase'] = False
        else:
            rs[0].attrs['phase'] = Obj('ph', repo.cls('pmutt.omkm.phase.InteractingInterface'),
                                       attrs={'site_density': D.sym('sden')})
            rxn.attrs['A'] = None
        got = I.call_method(rxn, 'get_A', [], {'T': D.sym('T'), 'include_entropy': False})
        run.check(same(got, D.sym('kb') / D.sym('h')), 'REF.A', cname + '.get_A', 'include_entropy=False',
                  'without the entropy route a unimolecular surface step must give kB/h, got %s' % show(got),
                  owner.module, fn)
        n += 1
        if cname == 'SurfaceReaction':
            # documented: a pre-exponential constant given to the constructor is the one handed out
            I = Interp(repo)
            D = I.D
            rxn = other_reaction(I, repo, cname, qual, 'g', True, surface=(0, 1), A=D.sym('A_given'))
            got = I.call_method(rxn, 'get_A', [], {'T': D.sym('T'), 'P': D.sym('P')})
            run.check(same(got, D.sym('A_given')), 'REF.A', cname + '.get_A', 'A given to the constructor',
                      'a step constructed with A=... must hand out that constant, got %s' % show(got), owner.module, fn)
            n += 1
    return n


def check(run, repo):
    run.explanation = (
        'ChemkinReaction, SurfaceReaction and BEP are interpreted abstractly with uninterpreted species. Decided as '
        'identities: get_HoRT_act/get_GoRT_act are max(0, barrier through the transition state if any, reaction '
        'change) with one rev and the same conditions in both classes, both directions, with and without a transition '
        'state (the argument set of the max is compared); for all eight BEP descriptors and both directions the '
        'barrier is (slope or slope-1)*descriptor+intercept, forward minus reverse equals the reaction enthalpy/'
        'energy for the delta descriptors, a BEP used as transition-state species yields the same barrier through '
        'Reaction.get_delta_HoRT(act), and the U and H offsets use the same barrier; get_A is (kB T/h)exp(dS_act)'
        'exp(m) / (kB T/h)(q_TS/q_IS)exp(m), kB/h without transition state, divided by (effective site density)^'
        '(n_surf-1) for sum/min/max/mean over 0-2 surface reactants with stoichiometry 1-2, the reactions built by '
        'their constructors from species that already carry phase and site (nothing is set on the reaction '
        'afterwards) with the gas species last, in the middle and (SurfaceReaction) first. get_H_act/get_G_act are '
        'the dimensionless getters times R(units) T for both classes, both directions and several unit systems; the '
        'BEP laws hold in J/mol and eV as in kcal/mol; a transition state (or reactant) without a partition function '
        'gives the entropy-route factor of the direction asked for. Round 2 of the white-box review: every reaction '
        'object is asked several times (other pressure at the same temperature, other temperature, the first '
        'conditions again) and each answer has the reference of its own call, so that anything remembered between '
        'calls shows; get_A of the two kinetic classes is also asked with include_entropy=False on steps with two and '
        'three surface reactants, in the reverse direction, and by the entropy route with a molecularity (what the '
        'override hands on to Reaction.get_A); the BEP object is built by its constructor, and the BEP laws are '
        'decided once more at two witness points where the linear relation gives a negative barrier (strongly '
        'exothermic: forward, strongly endothermic: reverse), so that a comparison of the barrier with zero has an '
        'answer; dimensional clamps are compared as maxima over argument sets (a positive factor R T may stand inside '
        'or outside the maximum). Round 3: a mechanism has many reactions of one class and one BEP relation serves '
        'many reactions - every interpreter now holds further objects (clamps: an adsorption step, is_adsorption=True, '
        'with a reactant on a site, in the thorough tier also steps with given beta / sticking coefficient / A / Ea / '
        'direction; BEP: a second reaction built with the SAME relation object as transition state; get_A: a second '
        'step with another number of surface reactants), asked at the same conditions after the first object, then '
        'the first object again, each against the reference of the reaction asked; the Chemkin phase letters also in '
        'lower case (accepted by the class); a SurfaceReaction given A hands out that A; thorough tier: '
        'pmutt.omkm.reaction.BEP serving SurfaceReactions.')
    run.assumptions = ['np.max of symbolic scalars is an uninterpreted extremum of the set of its arguments',
                       'T, T2, kB, h, Na and unit factors are positive (a factor of them goes through a maximum)',
                       'BEP witness points: R T = 1 kcal/mol, slope 0.3, intercept 2 kcal/mol, dH = -30 / +30 kcal/mol',
                       'species getters uninterpreted; unit model verified by C12']
    run.undecided = ['positivity of A as a numeric fact', 'which reactants count as surface species for arbitrary '
                     'user phase objects']
    n = clamp(run, repo)
    run.floor('clamp instances', n, 100)
    n = bep_rules(run, repo)
    run.floor('BEP instances', n, 200)
    n = preexp(run, repo)
    # (a getter that raises is reported and its follow-up questions are not asked: the floor is what remains when every
    # get_A of both kinetic classes raises)
    run.floor('pre-exponential instances', n, 100)


B_ = 'pmutt/reaction/bep.py'
R_ = 'pmutt/reaction/__init__.py'
O_ = 'pmutt/omkm/reaction.py'
MUTANTS = [
    {'name': 'clamp lower bound removed', 'expect': ('REF.clamp', 'SurfaceReaction.get_HoRT_act'),
     'edits': [(O_, '        return np.max([\n            0.,\n            super().get_delta_HoRT(rev=rev, act=act, **kwargs),', '        return np.max([\n            super().get_delta_HoRT(rev=rev, act=act, **kwargs),')]},
    {'name': 'adjusted slope: rev_delta branch swapped', 'expect': ('', 'BEP.get_E_act'),
     'edits': [(B_, "            if rev:\n                adj_slope = self.slope\n            else:\n                adj_slope = self.slope - 1.", "            if rev:\n                adj_slope = self.slope - 1.\n            else:\n                adj_slope = self.slope")]},
    {'name': 'Chemkin get_A exponent n_surf', 'expect': ('REF.A', 'ChemkinReaction.get_A'),
     'edits': [(R_, 'A = A / eff_site_den**(n_surf - 1)', 'A = A / eff_site_den**(n_surf)')]},
    {'name': 'Reaction.get_A forgets exp(m)', 'expect': ('REF.A', 'Reaction.get_A'),
     'edits': [(R_, "return c.kb('J/K') * T / c.h('J s') * A * np.exp(m)", "return c.kb('J/K') * T / c.h('J s') * A")]},
    {'name': 'products_H descriptor reads reactants', 'expect': ('', 'BEP'),
     'edits': [(B_, "state='products',\n                                       **kwargs)", "state='reactants',\n                                       **kwargs)", 0, 2)]},
    # white-box review (whitebox/C09_1..5): each instance added for it has its change here
    {'name': 'Chemkin get_A stops collecting site densities at the first gas reactant',
     'expect': ('REF.A', 'ChemkinReaction.get_A'),
     'edits': [(R_, "                    site_den = reactant.cat_site.site_density\n                except AttributeError:\n                    continue", "                    site_den = reactant.cat_site.site_density\n                except AttributeError:\n                    break")]},
    {'name': 'Surface get_A stops collecting site densities at the first gas reactant',
     'expect': ('REF.A', 'SurfaceReaction.get_A'),
     'edits': [(O_, "                    site_den = reactant.phase.site_density\n                except AttributeError:\n                    continue", "                    site_den = reactant.phase.site_density\n                except AttributeError:\n                    break")]},
    {'name': 'a step with one gas reactant is classed as gas phase', 'expect': ('REF.A', 'ChemkinReaction.get_A'),
     'edits': [(R_, "return all([specie.phase.upper() == 'G' for specie in self.reactants])", "return any([specie.phase.upper() == 'G' for specie in self.reactants])")]},
    {'name': 'Chemkin get_H_act drops rev', 'expect': ('TWIN.act-dim', 'ChemkinReaction.get_H_act'),
     'edits': [(R_, "        return self.get_HoRT_act(rev=rev, T=T,\n                                 **kwargs)*c.R('{}/K'.format(units))*T", "        return self.get_HoRT_act(T=T,\n                                 **kwargs)*c.R('{}/K'.format(units))*T")]},
    {'name': 'Surface get_G_act does not hand on its pressure', 'expect': ('TWIN.act-dim', 'SurfaceReaction.get_G_act'),
     'edits': [(O_, "return self.get_GoRT_act(rev=rev, T=T, P=P, **kwargs)*T*c.R(R_units)", "return self.get_GoRT_act(rev=rev, T=T, **kwargs)*T*c.R(R_units)")]},
    {'name': 'BEP barrier converted with the inverse unit ratio', 'expect': ('', 'BEP.get_E_act'),
     'edits': [(B_, "return E_act * c.R('{}/K'.format(units)) / c.R('kcal/mol/K')", "return E_act * c.R('kcal/mol/K') / c.R('{}/K'.format(units))")]},
    {'name': 'entropy fallback of Reaction.get_A forgets rev', 'expect': ('REF.A', 'Reaction.get_A'),
     'edits': [(R_, "                use_q = False\n        if not use_q:\n            A = np.exp(self.get_delta_SoR(rev=rev, act=True, T=T, **kwargs))", "                A = np.exp(self.get_delta_SoR(act=True, T=T, **kwargs))\n        else:\n            A = np.exp(self.get_delta_SoR(rev=rev, act=True, T=T, **kwargs))")]},
    # white-box review, round 2 (whitebox2/C09_A1..A4): the essential edit of each change
    {'name': 'Chemkin get_A names rev and does not hand it on', 'expect': ('REF.A', 'ChemkinReaction.get_A'),
     'edits': [(R_, "              include_entropy=True,\n              T=c.T0('K'),\n              **kwargs):\n        \"\"\"Calculates the preexponential factor in the Chemkin format", "              include_entropy=True,\n              T=c.T0('K'),\n              rev=False,\n              **kwargs):\n        \"\"\"Calculates the preexponential factor in the Chemkin format")]},
    {'name': 'Surface get_A names rev and does not hand it on', 'expect': ('REF.A', 'SurfaceReaction.get_A'),
     'edits': [(O_, "              units='molec/cm2',\n              **kwargs):", "              units='molec/cm2',\n              rev=False,\n              **kwargs):")]},
    {'name': 'Chemkin get_A returns kB/h early without entropy (site densities skipped)',
     'expect': ('REF.A', 'ChemkinReaction.get_A'),
     'edits': [(R_, "        if self.transition_state is None or not include_entropy:\n            A = c.kb('J/K') / c.h('J s')", "        if not include_entropy:\n            return c.kb('J/K') / c.h('J s')\n        if self.transition_state is None:\n            A = c.kb('J/K') / c.h('J s')")]},
    {'name': 'Chemkin get_G_act memoised on (units, T, rev): the pressure is not in the key',
     'expect': ('TWIN.act-dim', 'ChemkinReaction.get_G_act'),
     'edits': [(R_, "        self.gas_phase = self._is_gas_phase()\n", "        self.gas_phase = self._is_gas_phase()\n        self._G_act = {}\n"),
               (R_, "        return self.get_GoRT_act(T=T, rev=rev, **kwargs)*T \\\n               *c.R('{}/K'.format(units))", "        key = (units, T, rev)\n        try:\n            G_act = self._G_act[key]\n        except KeyError:\n            G_act = self.get_GoRT_act(T=T, rev=rev, **kwargs)*T \\\n                    *c.R('{}/K'.format(units))\n            self._G_act[key] = G_act\n        return G_act", 1, 2)]},
    {'name': 'Chemkin get_A keeps its list of site densities on the object (grows with every call)',
     'expect': ('REF.A', 'ChemkinReaction.get_A'),
     'edits': [(R_, "        self.gas_phase = self._is_gas_phase()\n", "        self.gas_phase = self._is_gas_phase()\n        self._site_dens = []\n"),
               (R_, "            site_dens = []\n            for reactant, stoich in zip(self.reactants, self.reactants_stoich):\n                # Skip species without a catalyst site\n                try:\n                    site_den = reactant.cat_site.site_density", "            site_dens = self._site_dens\n            for reactant, stoich in zip(self.reactants, self.reactants_stoich):\n                # Skip species without a catalyst site\n                try:\n                    site_den = reactant.cat_site.site_density")]},
    {'name': 'BEP barrier clipped at zero', 'expect': ('ALG.bep-difference', 'BEP.get_E_act'),
     'edits': [(B_, "        E_act = adj_slope * descriptor_val + self.intercept\n", "        E_act = adj_slope * descriptor_val + self.intercept\n        if E_act < 0.:\n            E_act = 0.\n")]},
    {'name': 'Chemkin get_HoRT_act remembers its first answer per direction',
     'expect': ('REF.clamp', 'ChemkinReaction.get_HoRT_act'),
     'edits': [(R_, "        self.gas_phase = self._is_gas_phase()\n", "        self.gas_phase = self._is_gas_phase()\n        self._HoRT_act = {}\n"),
               (R_, "        return np.max([\n            0.,\n            super().get_delta_HoRT(rev=rev, act=act, **kwargs),\n            super().get_delta_HoRT(rev=rev, act=False, **kwargs)\n        ])", "        try:\n            return self._HoRT_act[rev]\n        except KeyError:\n            pass\n        self._HoRT_act[rev] = np.max([\n            0.,\n            super().get_delta_HoRT(rev=rev, act=act, **kwargs),\n            super().get_delta_HoRT(rev=rev, act=False, **kwargs)\n        ])\n        return self._HoRT_act[rev]")]},
    # white-box review, round 3 (whitebox3/C09_A1..A5): the essential edit of each change
    {'name': 'BEP remembers its descriptor value per conditions, not per reaction',
     'expect': ('ALG.bep-difference', 'BEP.get_E_act'),
     'edits': [(B_, "        self.elements = elements\n        self.notes = notes\n", "        self.elements = elements\n        self.notes = notes\n        self._descriptor_vals = {}\n"),
               (B_, "        # Assign the descriptor to the reaction\n        if self.descriptor == 'delta_H':", "        key = (self.descriptor, frozenset(kwargs.items()))\n        try:\n            return self._descriptor_vals[key]\n        except KeyError:\n            pass\n        if self.descriptor == 'delta_H':"),
               (B_, "            raise ValueError(err_msg)\n        return val", "            raise ValueError(err_msg)\n        self._descriptor_vals[key] = val\n        return val")]},
    {'name': 'Chemkin _get_n_surf compares the phase letter without upper()', 'expect': ('REF.A', 'ChemkinReaction.get_A'),
     'edits': [(R_, "            if specie.phase.upper() != 'S':", "            if specie.phase != 'S':")]},
    # (an all-gas step written 'g' is then taken for a surface step without any site density: the sum over nothing
    # is raised to the power -1, which the interpreter refuses - exit 2, not silent)
    {'name': 'Chemkin _is_gas_phase compares the phase letter without upper()', 'expect': 'error',
     'edits': [(R_, "return all([specie.phase.upper() == 'G' for specie in self.reactants])", "return all([specie.phase == 'G' for specie in self.reactants])")]},
    {'name': 'Chemkin get_HoRT_act: adsorption shortcut without transition state forgets rev',
     'expect': ('REF.clamp', 'ChemkinReaction.get_HoRT_act'),
     'edits': [(R_, "        act = self.transition_state is not None\n        return np.max([\n            0.,\n            super().get_delta_HoRT(rev=rev, act=act, **kwargs),\n            super().get_delta_HoRT(rev=rev, act=False, **kwargs)\n        ])", "        if self.is_adsorption and self.transition_state is None:\n            return np.max([0., super().get_delta_HoRT(act=False, **kwargs)])\n        act = self.transition_state is not None\n        return np.max([\n            0.,\n            super().get_delta_HoRT(rev=rev, act=act, **kwargs),\n            super().get_delta_HoRT(rev=rev, act=False, **kwargs)\n        ])")]},
    {'name': 'Surface get_GoRT_act: adsorption shortcut without transition state forgets rev',
     'expect': ('REF.clamp', 'SurfaceReaction.get_GoRT_act'),
     'edits': [(O_, "        act = self.transition_state is not None\n        return np.max([\n            0.,\n            super().get_delta_GoRT(rev=rev, act=act, **kwargs),\n            super().get_delta_GoRT(rev=rev, act=False, **kwargs)\n        ])", "        if self.is_adsorption and self.transition_state is None:\n            return np.max([0., super().get_delta_GoRT(act=False, **kwargs)])\n        act = self.transition_state is not None\n        return np.max([\n            0.,\n            super().get_delta_GoRT(rev=rev, act=act, **kwargs),\n            super().get_delta_GoRT(rev=rev, act=False, **kwargs)\n        ])")]},
    {'name': 'Chemkin get_GoRT_act memoised in a class-level dict (direction and conditions, not the object)',
     'expect': ('REF.clamp', 'ChemkinReaction.get_GoRT_act'),
     'edits': [(R_, "    def __init__(self,\n                 beta=1.,", "    _GoRT_act_vals = {}\n\n    def __init__(self,\n                 beta=1.,"),
               (R_, "        act = self.transition_state is not None\n        return np.max([\n            0.,\n            super().get_delta_GoRT(rev=rev, act=act, **kwargs),\n            super().get_delta_GoRT(rev=rev, act=False, **kwargs)\n        ])", "        key = (rev, frozenset(kwargs.items()))\n        try:\n            return self._GoRT_act_vals[key]\n        except KeyError:\n            pass\n        act = self.transition_state is not None\n        GoRT_act = np.max([\n            0.,\n            super().get_delta_GoRT(rev=rev, act=act, **kwargs),\n            super().get_delta_GoRT(rev=rev, act=False, **kwargs)\n        ])\n        self._GoRT_act_vals[key] = GoRT_act\n        return GoRT_act")]},
    {'name': 'Surface _get_n_surf remembered in the class body (shared by all steps)',
     'expect': ('REF.A', 'SurfaceReaction.get_A'),
     'edits': [(O_, "    def _get_n_surf(self):\n        \"\"\"Counts the number of surface reactants", "    _n_surf_vals = {}\n\n    def _get_n_surf(self):\n        \"\"\"Counts the number of surface reactants"),
               (O_, "        n_surf = 0\n        for species, stoich in zip(self.reactants, self.reactants_stoich):\n            if isinstance(species.phase, InteractingInterface):\n                n_surf += stoich\n        return n_surf", "        try:\n            return self._n_surf_vals['n_surf']\n        except KeyError:\n            pass\n        n_surf = 0\n        for species, stoich in zip(self.reactants, self.reactants_stoich):\n            if isinstance(species.phase, InteractingInterface):\n                n_surf += stoich\n        self._n_surf_vals['n_surf'] = n_surf\n        return n_surf")]},
]
# whitebox3/C09_A4: the coefficient of a parsed reaction is a Python float (Interp.pyfloat); repeating a list by it is a
# TypeError
MUTANTS += [
    {'name': 'Chemkin get_A repeats the site density by the coefficient itself (a float for parsed reactions)',
     'expect': ('REF.A', 'ChemkinReaction.get_A'),
     'edits': [(R_, "                    continue\n                site_dens.extend([site_den] * int(stoich))", "                    continue\n                site_dens.extend([site_den] * stoich)")]},
    {'name': 'Surface get_A repeats the site density by the coefficient itself (a float for parsed reactions)',
     'expect': ('REF.A', 'SurfaceReaction.get_A'),
     'edits': [(O_, "                    continue\n                site_dens.extend([site_den] * int(stoich))", "                    continue\n                site_dens.extend([site_den] * stoich)")]},
]
# round 7 (black box): the instance 'settings re-assigned on a relation that was asked before' has its change here
MUTANTS += [
    {'name': 'BEP adjusted slope memoised per (rev, slope): the descriptor is not in the key',
     'expect': ('HIST.bep-reassigned', 'BEP.get_E_act'),
     'edits': [(B_, "        self.elements = elements\n        self.notes = notes\n", "        self.elements = elements\n        self.notes = notes\n        self._adj_slopes = {}\n"),
               (B_, "        # If the descriptor is for the reverse reaction, the slope has to\n        # be modified\n        if 'rev_delta' in self.descriptor:", "        try:\n            return self._adj_slopes[(rev, self.slope)]\n        except KeyError:\n            pass\n        if 'rev_delta' in self.descriptor:"),
               (B_, "                adj_slope = self.slope\n        return adj_slope", "                adj_slope = self.slope\n        self._adj_slopes[(rev, self.slope)] = adj_slope\n        return adj_slope")]},
]
PENDING_MUTANTS = []
# behaviour-preserving rewrites of the same round (whitebox2/C09_B1..B3), reduced: must stay silent
EQUIV = [
    {'name': 'clamp as nested maximum: max(0, max(barrier, change))',
     'edits': [(R_, "        return np.max([\n            0.,\n            super().get_delta_HoRT(rev=rev, act=act, **kwargs),\n            super().get_delta_HoRT(rev=rev, act=False, **kwargs)\n        ])", "        barrier = np.max([\n            super().get_delta_HoRT(rev=rev, act=act, **kwargs),\n            super().get_delta_HoRT(rev=rev, act=False, **kwargs)\n        ])\n        return np.max([0., barrier])")]},
    {'name': 'Surface get_H_act as maximum of the dimensional changes',
     'edits': [(O_, "        R_units = '{}/K'.format(units)\n        return self.get_HoRT_act(rev=rev, T=T, **kwargs)*T*c.R(R_units)", "        act = self.transition_state is not None\n        return np.max([\n            0.,\n            super().get_delta_H(units=units, T=T, rev=rev, act=act, **kwargs),\n            super().get_delta_H(units=units, T=T, rev=rev, act=False, **kwargs)\n        ])")]},
    {'name': 'BEP.slope and BEP.intercept as properties over private attributes',
     'edits': [(B_, "    def _get_descriptor_val(self, reaction, **kwargs):", "    @property\n    def slope(self):\n        return self._slope\n\n    @slope.setter\n    def slope(self, val):\n        self._slope = val\n\n    @property\n    def intercept(self):\n        return self._intercept\n\n    @intercept.setter\n    def intercept(self, val):\n        self._intercept = val\n\n    def _get_descriptor_val(self, reaction, **kwargs):")]},
    # round 3: caches that ARE keyed by everything the answer depends on (the further objects of the round-3 instances
    # must not turn a correct memo into a finding)
    {'name': 'Chemkin get_GoRT_act memoised per object on direction and all conditions',
     'edits': [(R_, "        self.gas_phase = self._is_gas_phase()\n", "        self.gas_phase = self._is_gas_phase()\n        self._GoRT_act_vals = {}\n"),
               (R_, "        act = self.transition_state is not None\n        return np.max([\n            0.,\n            super().get_delta_GoRT(rev=rev, act=act, **kwargs),\n            super().get_delta_GoRT(rev=rev, act=False, **kwargs)\n        ])", "        key = (rev, frozenset(kwargs.items()))\n        try:\n            return self._GoRT_act_vals[key]\n        except KeyError:\n            pass\n        act = self.transition_state is not None\n        GoRT_act = np.max([\n            0.,\n            super().get_delta_GoRT(rev=rev, act=act, **kwargs),\n            super().get_delta_GoRT(rev=rev, act=False, **kwargs)\n        ])\n        self._GoRT_act_vals[key] = GoRT_act\n        return GoRT_act")]},
    {'name': 'Chemkin _get_n_surf through a helper that keeps upper()',
     'edits': [(R_, "            # Skip non-surface species\n            if specie.phase.upper() != 'S':\n                continue\n", "            # Skip non-surface species\n            if not _is_surface_phase(specie.phase):\n                continue\n"),
               (R_, "def _get_molecularity(stoich):", "def _is_surface_phase(phase):\n    return phase.upper() == 'S'\n\n\ndef _get_molecularity(stoich):")]},
]
