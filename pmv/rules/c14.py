"""C14 - reaction strings print and parse as inverses; the balance check is exact."""
import itertools
from fractions import Fraction as Fr

from ..absstr import SegStr
from ..nf import Rat, C
from ..source import Unsupported, AnchorError
from ..xlate import Interp, Obj, ListV, DictV, Raised, RankOrder
from .common import same, show
from .rxnfix import make_reaction, get_public, set_public

RX = 'pmutt.reaction'
Z = '\x00'


def named_species(I, names, tag=''):
    """a species dictionary with symbolic names; ``tag`` tells the objects of several dictionaries with the same names
    apart (they are different objects to the interpreter as well)"""
    out = {}
    for nm, w in names:
        key = Z + nm
        I.sym_strings[key] = (w, 'text')
        out[key] = Obj(nm + tag, attrs={'name': key, 'elements': DictV({'A': I.D.sym('el_' + nm)})})
    return out


def named_in_message(I, r, whole):
    """the text fields formatted on their own into the message of a raised exception, i.e. outside the copies of the
    whole reaction string (which holds every species); None: the exception carries no message at all"""
    if r.args is None:
        raise Unsupported('the message of the exception has no abstract value')
    if not r.args:
        return None
    msg = r.args[0]
    if isinstance(msg, str):
        msg = I.seg(msg)
    if not isinstance(msg, SegStr):
        raise Unsupported('the message of the exception is %r' % (msg,))
    segs, w = list(msg.segs), list(I.seg(whole).segs)

    def eq(a, b):
        return a.kind == b.kind and (a.text == b.text if a.kind == 'lit' else a.value == b.value)
    out, i = [], 0
    while i < len(segs):
        if w and len(segs) - i >= len(w) and all(eq(a, b) for a, b in zip(segs[i:i + len(w)], w)):
            i += len(w)
            continue
        if segs[i].kind == 'field':
            out.append(segs[i].value)
        i += 1
    return out


def sides_match(I, back, sides, prec=C):
    """the parsed reaction ``back`` read through its public attributes against the sides it was printed from:
    sides = ((attribute, species objects, coefficients or None), ...); returns (ok, why)"""
    for attr, objs, vals in sides:
        got_o = get_public(I, back, attr)
        got_s = get_public(I, back, attr + '_stoich')
        if not vals:
            if got_o is not None:
                return False, '%s should be absent, got %s' % (attr, show(got_o, 60))
            continue
        if not (isinstance(got_o, ListV) and len(got_o) == len(objs) and
                all(a is b for a, b in zip(got_o.items, objs))):
            return False, '%s parsed as %s' % (attr, show(got_o, 80))
        if not (isinstance(got_s, ListV) and len(got_s) == len(vals) and
                all(isinstance(a, Rat) and a.eq(prec(b)) for a, b in zip(got_s.items, vals))):
            return False, '%s coefficients parsed as %s, printed from %s' % (attr, show(got_s, 80), vals)
    return True, ''


def parser_hazards(run, I, label, module, fn):
    """a regular expression of the parser whose match changes with the characters of a species name (names as the
    property allows them: a letter first, then letters, digits, ( ) * _) reads part of that name as something else"""
    seen = set()
    for n_, pat, fld, what, spelled in I.re_hazards:
        if (pat, what) in seen:
            continue
        seen.add((pat, what))
        run.fail('REF.parse', 'Reaction.from_string', 'the outcome of a pattern depends on the spelling of a species name',
                 '[%s] the pattern %r matches differently when a species name has %s (e.g. in %r): a part of the name '
                 'is not read as the name' % (label, pat, what, spelled), module, fn, sig='pattern %s' % pat)
    del I.re_hazards[:]


def check(run, repo):
    run.explanation = (
        'Reaction.to_string/_write_reaction_state and Reaction.from_string/_parse_reaction/_parse_reaction_state are '
        'interpreted over abstract strings: species names are symbolic text fields (assumed to contain no delimiter '
        'and not to start with a digit, as the property restricts them), coefficients are concrete numbers printed '
        'exactly as Python prints them. For every combination of delimiters, coefficient kinds (1, integers, '
        'decimals), optional transition state, stoich_space and coefficient format the parsed reaction is compared '
        'with the printed one; strings with repeated species, decimal and omitted coefficients and surrounding blanks '
        'are parsed; unknown species must raise KeyError. check_element_balance is interpreted with symbolic '
        'compositions on reactions that are balanced / unbalanced by construction (reactants vs products, reactants '
        'vs transition state; an element off by one, missing on the other side, present only on the other side). '
        'Round 2 of the white-box review: every blank-padded delimiter pair is also handed to from_string exactly as it '
        'was printed (and, thorough tier, with one of the two trimmed); print->parse and parse cases with species names '
        'written out (E1, e2, E2S, d3, _1, j, x1, A(g), *, X_1 ...: the literal text goes through the regular '
        'expressions as it stands); a pattern of the parser whose match depends on the spelling of a name is a finding; '
        'repeated species written with and without a blank after the coefficient; balance cases with compositions '
        'written out that are off by 0.004 ... 1e-6 (a tolerance is not "exact"), symbolic totals off by 1/1000 and '
        '1e-6, compositions that list an element with the count 0, the check called again after the reaction was '
        'changed and on a second reaction; parse_formula called again after the caller modified the first result. '
        'Round 3: the RING delimiters padded with blanks (\' . \'/\' >> \': the one pair that means something else once '
        'its blanks are gone, and the one way to use \'.\' next to decimal coefficients) in every print->parse table; one '
        'text parsed again and again in one process with other dictionaries, classes, delimiters and options, and the RING '
        'file read again with a second dictionary (nothing is remembered from an earlier call); one reaction printed '
        'again and again with other delimiters and formats and after a change; tabs as whitespace; compositions that '
        'list their elements in another order. '
        'ChemkinReaction.from_string is entered with every delimiter pair; the RING reader also reads a file whose last '
        'line has no newline. parse_formula is interpreted on abstract formulas with repeated symbols, missing and '
        'symbolic counts; the regular expressions are decided on the abstract strings by pmv/absre.py.')
    run.assumptions = ['species names contain neither the delimiters nor blanks and do not start with a digit',
                       'collections.Counter addition: totals that are identically zero are dropped, symbolic totals are '
                       'taken as positive' if counter_model_drops_zero(repo) else
                       'collections.Counter addition modelled as key-wise sum (its dropping of non-positive totals '
                       'is not modelled)']
    run.undecided = ['arbitrary user delimiters that occur inside names', 'coefficient precision beyond the printed '
                     'digits', 'float rounding in the balance comparison']
    m = repo.module(RX)
    ci = repo.cls(RX + '.Reaction')
    run.fn(RX + '.Reaction.to_string', RX + '.Reaction.from_string', RX + '.Reaction.check_element_balance',
           'pmutt.parse_formula')
    owner_ts, fn_ts = repo.find_method(ci, 'to_string')
    owner_fs, fn_fs = repo.find_method(ci, 'from_string')
    n = n_padded = 0
    # (' . ', ' >> '): the RING delimiters padded with blanks - the one way to use '.' next to decimal coefficients, and the
    # one pair that means something else once its blanks are gone
    delims = [('+', '='), ('+', '<=>'), ('.', '>>'), (' + ', ' = '), ('+', ' <=> '), (' & ', '->'), (' . ', ' >> ')]
    stoichs = [
        ([1, 1], [1], None),
        ([2, 1], [3], [1]),
        ([Fr(1, 2), 1], [Fr(3, 2)], [1]),
        ([Fr(1, 4), 2, 1], [1, Fr(5, 2)], None),
        ([4], [Fr(1, 4), 1, 1, 2], [1, 1]),
        # coefficients that are an integer up to floating-point noise (0.1*3*10), from below and from above
        ([2 - Fr(1, 10 ** 13), 1], [3 + Fr(1, 10 ** 13)], [1 - Fr(1, 10 ** 14)]),
        # coefficients near, but visibly not at, an integer
        ([Fr('1.995'), 1], [Fr('2.004')], [Fr('0.996')]),
        # coefficients with more than one digit before the decimal point, integer and not
        ([Fr(25, 2), 1], [Fr(41, 4)], [1]),
        ([12, 10], [120], None),
    ]
    fmts = ['.2f', '.3f']
    for (sd, rd), (rs, ps, ts), space, fmt in itertools.product(delims, stoichs, (False, True), fmts):
        if fmt == '.3f' and not any(isinstance(x, Fr) for x in rs + ps):
            continue
        if fmt == '.3f' and sd == ' . ' and run.tier != 'thorough':
            continue        # (quick tier: the call as printed is made for the default format only, see below)
        I = Interp(repo)
        names = [('r%d' % i, 1 + 3 * i) for i in range(len(rs))] + [('p%d' % i, 2 + i) for i in range(len(ps))] + \
            [('t%d' % i, 6) for i in range(len(ts or []))]
        sp = named_species(I, names)
        keys = list(sp)
        R_ = [sp[k] for k in keys[:len(rs)]]
        P_ = [sp[k] for k in keys[len(rs):len(rs) + len(ps)]]
        T_ = [sp[k] for k in keys[len(rs) + len(ps):]]
        rxn = make_reaction(I, repo, ci, R_, [C(x) for x in rs], P_, [C(x) for x in ps],
                            T_ if ts else None, [C(x) for x in ts] if ts else None)
        label = 'delims=%r/%r stoich=%s|%s|%s space=%s fmt=%s' % (sd, rd, rs, ps, ts, space, fmt)
        txt = I.call_method(rxn, 'to_string', [], {'species_delimiter': sd, 'reaction_delimiter': rd,
                                                   'stoich_space': space, 'stoich_format': fmt})
        n += 1
        # (quick tier: as printed, for the default format; thorough: every format, each delimiter trimmed on its own)
        calls = {(sd, rd)} if fmt == '.2f' or run.tier == 'thorough' else set()
        if run.tier == 'thorough':
            calls |= {(sd.strip(), rd), (sd, rd.strip())}
        calls = sorted(calls - {(sd.strip(), rd.strip())})
        n_padded += len(calls)
        if isinstance(txt, Raised):
            run.fail('TABLE.print', 'Reaction.to_string', 'raises', '[%s] printing raises %s' % (label, txt.exc),
                     owner_ts.module, fn_ts)
            continue
        back = I.call_function(owner_fs.module, fn_fs, [], {'reaction_str': txt, 'species': DictV(dict(sp)),
                                                          'species_delimiter': sd.strip() or sd,
                                                          'reaction_delimiter': rd.strip() or rd},
                               self_obj=ci, owner=owner_fs)

        def clash(d):
            # the species delimiter of the call occurs inside a coefficient as it is printed (the recorded finding)
            return any(isinstance(x, Fr) and x.denominator != 1 and d in format(float(x), fmt)
                       for x in rs + ps + (ts or []))

        def prec(x):
            # coefficients survive to the printed precision
            if isinstance(x, Fr) and x != 1 and x.denominator != 1:
                return C(Fr(format(float(x), fmt)))
            return C(x)
        if any(isinstance(x, Fr) and x.denominator > 10 ** 6 for x in rs + ps + (ts or [])):
            label += ' [integer up to rounding noise]'
        sides = (('reactants', R_, rs), ('products', P_, ps), ('transition_state', T_, ts))
        if not isinstance(back, Obj):
            run.fail('TABLE.parse', 'Reaction.from_string',
                     'delimiter occurs inside a printed coefficient' if clash(sd.strip() or sd) else 'round trip',
                     '[%s] parsing the printed reaction %s gives %s' % (label, show(txt, 120), show(back, 80)),
                     owner_fs.module, fn_fs)
            if not (clash(sd.strip() or sd) and not clash(sd)):
                continue
            # (the blanks around the delimiter keep it apart from the decimal points: the calls with blanks go on)
        else:
            ok, why = sides_match(I, back, sides, prec)
            run.check(ok, 'TABLE.roundtrip', 'Reaction.from_string', 'print->parse',
                      '[%s] printed %s; %s' % (label, show(txt, 160), why), owner_fs.module, fn_fs,
                      sample='[%s] %s parses back to the same reaction' % (label, show(txt, 120))
                      if n % 23 == 0 else None)
        # the delimiters of the call written exactly as they were printed - blanks included - and each of the two
        # trimmed on its own: 'A + B'.split(' + ') is as good a call as 'A + B'.split('+')
        for k_call, (csd, crd) in enumerate(calls):
            back2 = I.call_function(owner_fs.module, fn_fs, [], {'reaction_str': txt, 'species': DictV(dict(sp)),
                                                               'species_delimiter': csd, 'reaction_delimiter': crd},
                                    self_obj=ci, owner=owner_fs)
            if not isinstance(back2, Obj) and clash(csd):
                run.fail('TABLE.parse', 'Reaction.from_string', 'delimiter occurs inside a printed coefficient',
                         '[%s] parsing the printed reaction %s with species_delimiter=%r gives %s'
                         % (label, show(txt, 120), csd, show(back2, 80)), owner_fs.module, fn_fs)
                continue
            ok, why = (False, 'gives %s' % show(back2, 80)) if not isinstance(back2, Obj) else \
                sides_match(I, back2, sides, prec)
            run.check(ok, 'TABLE.roundtrip', 'Reaction.from_string', 'print->parse, delimiters of the call with blanks',
                      '[%s] printed %s and parsed with species_delimiter=%r reaction_delimiter=%r; %s'
                      % (label, show(txt, 160), csd, crd, why), owner_fs.module, fn_fs,
                      sample='[%s] %s parsed with the delimiters %r/%r' % (label, show(txt, 100), csd, crd)
                      if (n + k_call) % 41 == 0 else None)
        parser_hazards(run, I, label, owner_fs.module, fn_fs)
    run.floor('print/parse cases', n, 60)
    run.floor('print/parse cases with blank-padded delimiters in the call', n_padded, 50)
    # printed without its transition state, a reaction parses back to the same reactants and products and no
    # transition state
    for sd, rd in (('+', '='), (' & ', '->')):
        I = Interp(repo)
        sp = named_species(I, [('r0', 2), ('p0', 3), ('p1', 2), ('t0', 4)])
        k = list(sp)
        rxn = make_reaction(I, repo, ci, [sp[k[0]]], [C(2)], [sp[k[1]], sp[k[2]]], [C(1), C(3)], [sp[k[3]]], [C(1)])
        txt = I.call_method(rxn, 'to_string', [], {'species_delimiter': sd, 'reaction_delimiter': rd,
                                                   'include_TS': False})
        back = None
        if not isinstance(txt, Raised):
            back = I.call_function(owner_fs.module, fn_fs, [], {'reaction_str': txt, 'species': DictV(dict(sp)),
                                                                'species_delimiter': sd.strip(),
                                                                'reaction_delimiter': rd.strip()},
                                   self_obj=ci, owner=owner_fs)
        ok = isinstance(back, Obj) and sides_match(I, back, (('reactants', [sp[k[0]]], [2]),
                                                             ('products', [sp[k[1]], sp[k[2]]], [1, 3]),
                                                             ('transition_state', [], None)))[0]
        run.check(ok, 'TABLE.roundtrip', 'Reaction.to_string', 'include_TS=False delims=%r/%r' % (sd, rd),
                  'printed without its transition state as %s the reaction parses back to %s'
                  % (show(txt, 120), show(back, 80)), owner_ts.module, fn_ts)

    # the Chemkin reaction has a from_string of its own: the delimiters of the call are the delimiters of the text
    ck = repo.cls(RX + '.ChemkinReaction')
    owner_ck, fn_ck = repo.find_method(ck, 'from_string')
    run.fn(RX + '.ChemkinReaction.from_string')
    for (sd, rd), (rs, ps, ts) in itertools.product(
            (('+', '='), (' & ', '->'), ('.', '>>'), ('+', '<=>'), (' + ', ' <=> '), (' . ', ' >> ')),
            (([2, 12], [3], [1]), ([Fr(1, 2), 1], [Fr(5, 4), 10], None))):
        decimals = any(isinstance(x, Fr) for x in rs + ps)
        if sd == '.' and decimals:
            continue        # the known clash of '.' with decimal points is reported above
        I = Interp(repo)
        sp = named_species(I, [('r0', 2), ('r1', 3), ('p0', 4), ('p1', 2), ('t0', 5)])
        for o in sp.values():
            o.attrs['phase'] = 'G'
        k = list(sp)
        R_, P_, T_ = [sp[k[0]], sp[k[1]]], [sp[x] for x in k[2:2 + len(ps)]], [sp[k[4]]]
        rxn = make_reaction(I, repo, ck, R_, [C(x) for x in rs], P_, [C(x) for x in ps],
                            T_ if ts else None, [C(x) for x in ts] if ts else None)
        txt = I.call_method(rxn, 'to_string', [], {'species_delimiter': sd, 'reaction_delimiter': rd})
        for csd, crd in sorted({(sd.strip(), rd.strip()), (sd, rd)}):
            if csd == '.' and decimals:
                continue    # (padded with blanks the delimiter is kept apart from the decimal points)
            back = None
            if not isinstance(txt, Raised):
                back = I.call_function(owner_ck.module, fn_ck, [], {'reaction_str': txt, 'species': DictV(dict(sp)),
                                                                    'species_delimiter': csd, 'reaction_delimiter': crd},
                                       self_obj=ck, owner=owner_ck)
            ok = isinstance(back, Obj)
            if ok:
                ok = sides_match(I, back, (('reactants', R_, rs), ('products', P_, ps), ('transition_state', T_, ts)))[0]
            run.check(ok, 'TABLE.roundtrip', 'ChemkinReaction.from_string',
                      'print->parse delims=%r/%r stoich=%s|%s|%s' % (sd, rd, rs, ps, ts) +
                      ('' if (csd, crd) == (sd.strip(), rd.strip()) else ', delimiters of the call with blanks'),
                      'a Chemkin reaction printed as %s and parsed with species_delimiter=%r reaction_delimiter=%r gives %s'
                      % (show(txt, 120), csd, crd, show(back.attrs if isinstance(back, Obj) else back, 160)),
                      owner_ck.module, fn_ck,
                      sample='ChemkinReaction print->parse delims=%r/%r' % (csd, crd) if ts else None)
        parser_hazards(run, I, 'ChemkinReaction delims=%r/%r' % (sd, rd), owner_ck.module, fn_ck)

    # ---- parsing: repeated species, omitted/decimal/integer coefficients, blanks, unknown species ----------
    I = Interp(repo)
    sp = named_species(I, [('A', 2), ('B', 3), ('TS', 4)])
    kA, kB, kT = list(sp)
    A, B, TSn = (SegStr.field(k, I.sym_strings[k][0], 'text') for k in (kA, kB, kT))
    cases = [
        ('repeated species merged', A + ' + ' + A + ' = ' + B, ([kA], [2], [kB], [1], None, None)),
        ('repeated with coefficients', '2' + A + '+0.5' + A + '=' + B, ([kA], [Fr(5, 2)], [kB], [1], None, None)),
        ('blanks everywhere', '  ' + A + '  +   3 ' + B + '   =  ' + TSn + ' = 1.5' + B + '  ',
         ([kA, kB], [1, 3], [kB], [Fr(3, 2)], [kT], [1])),
        ('tabs and blanks', '\t' + A + '\t+ 3\t' + B + ' \t=\t1.5 \t' + TSn + '\t=' + B + '\t ',
         ([kA, kB], [1, 3], [kB], [1], [kT], [Fr(3, 2)])),
        ('integer written as decimal', '2.0' + A + '=' + B, ([kA], [2], [kB], [1], None, None)),
        # the repeat goes to the species' own entry, not to whatever was collected last
        ('repeated species with another in between', A + ' + 0.5' + B + ' + 2' + A + ' = ' + B,
         ([kA, kB], [3, Fr(1, 2)], [kB], [1], None, None)),
        ('coefficients of several digits, integer and decimal', '12.5' + A + ' + 10' + B + ' = 100.25 ' + B + '+ 205' + A,
         ([kA, kB], [Fr(25, 2), 10], [kB, kA], [Fr(401, 4), 205], None, None)),
        ('two species repeated alternately', A + '+' + B + '+' + A + '+3' + B + '=' + TSn + '=' + B + '+' + A + '+' + B,
         ([kA, kB], [2, 4], [kB, kA], [2, 1], [kT], [1])),
        # a blank between coefficient and name is one more spelling of the same species
        ('repeated species, a blank after the coefficient of the second', A + ' + 2 ' + A + ' = ' + B,
         ([kA], [3], [kB], [1], None, None)),
        ('repeated species, a blank after the coefficient of the first', '2 ' + A + '+' + A + '=' + B,
         ([kA], [3], [kB], [1], None, None)),
        ('repeated species with and without a blank after the coefficient, on every side',
         '0.5  ' + A + ' + 1.5' + A + ' = 1.5 ' + TSn + ' + 0.5' + TSn + ' = 2 ' + B + ' + ' + B + '+1 ' + A + '+ 3' + A,
         ([kA], [2], [kB, kA], [3, 4], [kT], [2])),
        ('three spellings of one species', '2' + A + '+2 ' + A + '+' + A + ' +  0.25  ' + A + '=' + B,
         ([kA], [Fr(21, 4)], [kB], [1], None, None)),
    ]
    for label, s_, want in cases:
        # through the public constructor: the parsed species are the objects of the dictionary
        r = I.call_function(owner_fs.module, fn_fs, [], {'reaction_str': s_, 'species': DictV(dict(sp)),
                                                         'species_delimiter': '+', 'reaction_delimiter': '='},
                            self_obj=ci, owner=owner_fs)
        ok = isinstance(r, Obj)
        if ok:
            got6 = [get_public(I, r, k_) for k_ in ('reactants', 'reactants_stoich', 'products', 'products_stoich',
                                                    'transition_state', 'transition_state_stoich')]
            for got, w in zip(got6, want):
                if w is None:
                    ok = ok and got is None
                elif isinstance(got, ListV) and len(got) == len(w):
                    for g, x in zip(got.items, w):
                        if isinstance(x, str):
                            ok = ok and g is sp[x]
                        else:
                            ok = ok and isinstance(g, Rat) and g.eq(C(x))
                else:
                    ok = False
        run.check(ok, 'REF.parse', 'Reaction.from_string', label,
                  '%s: %s parses to %s' % (label, show(s_, 120), show(r.attrs if isinstance(r, Obj) else r, 200)),
                  owner_fs.module, fn_fs, sample='%s: %s' % (label, show(s_, 100)))
    parser_hazards(run, I, 'parse cases', owner_fs.module, fn_fs)
    # unknown species -> KeyError whose message names the species that was not found (and none that was found),
    # wherever it stands
    kY, kX = Z + 'Y', Z + 'X'
    I.sym_strings[kY] = (3, 'text')
    I.sym_strings[kX] = (2, 'text')
    Y = SegStr.field(kY, 3, 'text')
    for label, s_, have, missing in (
            ('product', A + '=' + B, [kA], [kB]), ('reactant', A + '=' + B, [kB], [kA]),
            ('second product', A + '=' + B + '+' + Y, [kA, kB], [kY]),
            ('second reactant', A + '+' + Y + '=' + B, [kA, kB], [kY]),
            ('first product of two', A + '=' + Y + '+' + B, [kA, kB], [kY]),
            ('product, after a transition state', A + '=' + TSn + '=' + Y, [kA, kT], [kY])):
        r = I.call_function(owner_fs.module, fn_fs, [], {'reaction_str': s_, 'species': DictV({k_: sp[k_] for k_ in have})},
                            self_obj=ci, owner=owner_fs)
        ok = isinstance(r, Raised) and r.exc == 'KeyError'
        why = 'got %s' % show(r)
        if ok:
            named = named_in_message(I, r, s_)
            ok = named is not None and set(missing) <= set(named) and not (set(have) & set(named))
            why = 'the message names %s' % ('nothing' if not named else sorted(x.strip(Z + '~') for x in set(named)))
        run.check(ok, 'PATH.unknown-species', 'Reaction.from_string', label,
                  'parsing %s with only %s in the dictionary must raise KeyError naming the species that is missing '
                  '(%s) and no species that was found; %s'
                  % (show(s_, 80), [x.strip(Z) for x in have], [x.strip(Z + '~') for x in missing], why),
                  owner_fs.module, fn_fs)
    # a transition state that cannot be found, under the documented options: an error naming it by default; with
    # raise_error=False the reaction is built without a transition state (no partial one, no stray coefficients),
    # announced by a warning unless raise_warning=False - wherever the unknown species stands in the transition state
    X = SegStr.field(kX, 2, 'text')
    for ts_label, ts_txt in (('TS = X', X), ('TS = X + B', X + '+' + B), ('TS = B + X', B + '+' + X)):
        for re_, rw_ in ((True, True), (False, True), (False, False)):
            nw = len(I.warnings)
            r = I.call_function(owner_fs.module, fn_fs, [], {
                'reaction_str': A + '=' + ts_txt + '=' + B, 'species': DictV({kA: sp[kA], kB: sp[kB]}),
                'raise_error': re_, 'raise_warning': rw_}, self_obj=ci, owner=owner_fs)
            key = 'unknown transition state, %s, raise_error=%s raise_warning=%s' % (ts_label, re_, rw_)
            if re_:
                ok = isinstance(r, Raised) and r.exc == 'KeyError'
                why = 'must raise KeyError naming the species, got %s' % show(r, 100)
                if ok:
                    named = named_in_message(I, r, A + '=' + ts_txt + '=' + B)
                    ok = named is not None and kX in named and not ({kA, kB} & set(named))
                    why = 'must raise KeyError naming the species; the message names %s' % (
                        'nothing' if not named else sorted(x.strip(Z + '~') for x in set(named)))
            else:
                ok = isinstance(r, Obj)
                why = 'must give a reaction, got %s' % show(r, 100)
                if ok:
                    ts_, tss_ = get_public(I, r, 'transition_state'), get_public(I, r, 'transition_state_stoich')
                    warned = len(I.warnings) > nw
                    ok = ts_ is None and tss_ is None and warned == rw_ and \
                        sides_match(I, r, (('reactants', [sp[kA]], [1]), ('products', [sp[kB]], [1])))[0]
                    why = 'must give the reaction without a transition state%s: transition_state=%s, ' \
                          'transition_state_stoich=%s, %s' % (' and warn' if rw_ else ', silently', show(ts_, 60),
                                                              show(tss_, 60), 'warned' if warned else 'no warning')
            run.check(ok, 'PATH.unknown-species', 'Reaction.from_string', key,
                      'A = %s = B with X missing from the dictionary %s' % (ts_label[5:], why), owner_fs.module, fn_fs)
    # species given as a list
    r = I.call_function(owner_fs.module, fn_fs, [], {'reaction_str': A + '=' + B,
                                                     'species': ListV([sp[kA], sp[kB]])}, self_obj=ci, owner=owner_fs)
    run.check(isinstance(r, Obj) and sides_match(I, r, (('reactants', [sp[kA]], [1]), ('products', [sp[kB]], [1]),
                                                      ('transition_state', [], None)))[0],
              'REF.parse', 'Reaction.from_string',
              'species list', 'a list of species is not accepted (%s)' % show(r), owner_fs.module, fn_fs)

    parse_history(run, repo, ci, owner_fs, fn_fs)
    print_history(run, repo, ci, owner_ts, fn_ts, owner_fs, fn_fs)
    literal_names(run, repo, ci, owner_fs, fn_fs)
    ring_reader(run, repo, ci)
    balance(run, repo, ci)
    formulas(run, repo)


def parse_history(run, repo, ci, owner_fs, fn_fs):
    """the parser answers the call it is given: the species come from the dictionary of *this* call, the delimiters and
    options are those of *this* call - whatever was parsed before in the same process, with the same text"""
    ck = repo.cls(RX + '.ChemkinReaction')
    owner_ck, fn_ck = repo.find_method(ck, 'from_string')
    for kind in ('names written out', 'symbolic names'):
        I = Interp(repo)
        if kind == 'symbolic names':
            keys = list(named_species(I, [('A', 2), ('B', 3), ('C', 2), ('TS', 4)]))
            f_ = {k: SegStr.field(k, I.sym_strings[k][0], 'text') for k in keys}
            kA, kB, kC, kT = keys
            text = f_[kA] + ' + 0.5' + f_[kB] + ' = ' + f_[kT] + ' = ' + f_[kC]
            swapped = f_[kA] + '+' + f_[kB] + '=' + f_[kC] + '+' + f_[kT] + '=' + f_[kA]

            def mk(tag):
                return named_species(I, [('A', 2), ('B', 3), ('C', 2), ('TS', 4)], tag)
        else:
            kA, kB, kC, kT = keys = ['H2', 'O2', 'H2O', 'H2O_TS']
            text = 'H2 + 0.5O2 = H2O_TS = H2O'
            swapped = 'H2+O2=H2O+H2O_TS=H2'

            def mk(tag):
                return {nm: Obj(nm + tag, attrs={'name': nm, 'elements': DictV({'A': C(1)})}) for nm in keys}
        d1, d2, d3 = mk(' (1)'), mk(' (2)'), mk(' (3)')
        for d_ in (d1, d2, d3):
            for o in d_.values():
                o.attrs['phase'] = 'G'

        def parse(species, cls=ci, owner=owner_fs, fn=fn_fs, s_=text, **kw):
            return I.call_function(owner.module, fn, [], dict(kw, reaction_str=s_, species=species),
                                   self_obj=cls, owner=owner)

        def sides(d_):
            return (('reactants', [d_[kA], d_[kB]], [1, Fr(1, 2)]), ('products', [d_[kC]], [1]),
                    ('transition_state', [d_[kT]], [1]))

        def outcome(r, d_, cls=ci):
            if not isinstance(r, Obj):
                return False, 'gives %s' % show(r, 80)
            if r.ci is not cls:
                return False, 'gives an object of the class %s' % getattr(r.ci, 'name', r.ci)
            ok, why = sides_match(I, r, sides(d_))
            if not ok:
                for nm_, o_ in (('first', d1), ('second', d2), ('third', d3)):
                    if o_ is not d_ and sides_match(I, r, sides(o_))[0]:
                        why += ' (these are the species of the %s dictionary)' % nm_
            return ok, why
        steps = []
        r1 = parse(DictV(dict(d1)))
        steps.append(('first dictionary',) + outcome(r1, d1))
        r2 = parse(DictV(dict(d2)))
        ok, why = outcome(r2, d2)
        steps.append(("a second dictionary with other objects under the same names", ok, why))
        r = parse(DictV({k: v for k, v in d2.items() if k != kB}))
        ok = isinstance(r, Raised) and r.exc == 'KeyError'
        why = 'must raise KeyError, got %s' % show(r, 80)
        if ok and kind == 'symbolic names':
            named = named_in_message(I, r, text)
            ok = named is not None and kB in named and not ({kA, kC, kT} & set(named))
            why = 'must raise KeyError naming the species; the message names %s' % (
                'nothing' if not named else sorted(x.strip(Z + '~') for x in set(named)))
        steps.append(('a dictionary that lacks the second reactant', ok, why))
        steps.append(('the first dictionary again',) + outcome(parse(DictV(dict(d1))), d1))
        steps.append(('the species of a third dictionary given as a list',) + outcome(parse(ListV(list(d3.values()))), d3))
        steps.append(('ChemkinReaction.from_string, second dictionary',) +
                     outcome(parse(DictV(dict(d2)), ck, owner_ck, fn_ck), d2, ck))
        steps.append(('Reaction.from_string after ChemkinReaction.from_string, third dictionary',) +
                     outcome(parse(DictV(dict(d3))), d3))
        # every result is a reaction of its own: what the caller does to one is not seen in the next
        ra = parse(DictV(dict(d1)))
        if isinstance(ra, Obj):
            set_public(I, ra, 'products_stoich', ListV([C(7)]))
        rb = parse(DictV(dict(d1)))
        ok, why = outcome(rb, d1)
        steps.append(('first dictionary, after the caller changed the coefficients of the reaction parsed before',
                      ok, why))
        # the delimiters are those of the call: '=' between the species and '+' between the states is a custom choice
        r = parse(DictV(dict(d1)), s_=swapped)
        ok = isinstance(r, Obj) and sides_match(I, r, (('reactants', [d1[kA], d1[kB]], [1, 1]), ('products', [d1[kA]], [1]),
                                                     ('transition_state', [d1[kC], d1[kT]], [1, 1])))[0]
        steps.append(("A+B=C+TS=A with the delimiters '+'/'='", ok, 'gives %s' % show(r.attrs if isinstance(r, Obj) else r, 160)))
        r = parse(DictV(dict(d1)), s_=swapped, species_delimiter='=', reaction_delimiter='+')
        ok = isinstance(r, Obj) and sides_match(I, r, (('reactants', [d1[kA]], [1]), ('products', [d1[kT], d1[kA]], [1, 1]),
                                                     ('transition_state', [d1[kB], d1[kC]], [1, 1])))[0]
        steps.append(("the same text with the delimiters '='/'+': A | B=C | TS=A", ok,
                      'gives %s' % show(r.attrs if isinstance(r, Obj) else r, 160)))
        # the options are those of the call: the same text with a transition state that is not in the dictionary
        no_ts = DictV({k: v for k, v in d1.items() if k != kT})
        want_no_ts = (('reactants', [d1[kA], d1[kB]], [1, Fr(1, 2)]), ('products', [d1[kC]], [1]),
                      ('transition_state', [], None))
        for re_, rw_ in ((False, False), (False, True), (True, True), (False, True), (False, False)):
            nw = len(I.warnings)
            r = parse(no_ts, raise_error=re_, raise_warning=rw_)
            if re_:
                ok, why = isinstance(r, Raised) and r.exc == 'KeyError', 'must raise KeyError, got %s' % show(r, 80)
            else:
                warned = len(I.warnings) > nw
                ok = isinstance(r, Obj) and sides_match(I, r, want_no_ts)[0] and warned == rw_
                why = 'must give the reaction without a transition state%s; got %s, %s' % (
                    ' and warn' if rw_ else ', silently', show(r.attrs if isinstance(r, Obj) else r, 120),
                    'warned' if warned else 'no warning')
            steps.append(('transition state missing from the dictionary, raise_error=%s raise_warning=%s' % (re_, rw_), ok, why))
        steps.append(('the full first dictionary after that',) + outcome(parse(DictV(dict(d1))), d1))
        for k_step, (what, ok, why) in enumerate(steps):
            run.check(ok, 'EFFECT.parse-state', 'Reaction.from_string',
                      'one text parsed again and again, %s: step %d, %s' % (kind, k_step + 1, what),
                      '%s parsed %d times in one process with different dictionaries, classes, delimiters and options; '
                      'call %d (%s): %s' % (show(text, 80), len(steps), k_step + 1, what,
                                            why or 'the species of the dictionary of this call'),
                      owner_fs.module, fn_fs,
                      sample='from_string history (%s), call %d: %s' % (kind, k_step + 1, what) if k_step in (1, 3) else None)
        parser_hazards(run, I, 'parse history', owner_fs.module, fn_fs)


def print_history(run, repo, ci, owner_ts, fn_ts, owner_fs, fn_fs):
    """the printer prints the reaction as it is now with the delimiters and the format of the call, whatever it printed
    before: one reaction object printed (and parsed back) with one setting after the other, then changed through its
    public attributes and printed again; a second reaction in between"""
    I = Interp(repo)
    sp = named_species(I, [('r0', 2), ('r1', 3), ('p0', 4), ('t0', 5)])
    k = list(sp)
    R_, P_, T_ = [sp[k[0]], sp[k[1]]], [sp[k[2]]], [sp[k[3]]]
    rxn = make_reaction(I, repo, ci, R_, [C(2), C(Fr(1, 2))], P_, [C(Fr(5, 4))], T_, [C(1)])
    other = make_reaction(I, repo, ci, P_, [C(3)], R_, [C(1), C(Fr(3, 2))], None, None)
    sides_now = [('reactants', R_, [2, Fr(1, 2)]), ('products', P_, [Fr(5, 4)]), ('transition_state', T_, [1])]
    sides_other = (('reactants', P_, [3]), ('products', R_, [1, Fr(3, 2)]), ('transition_state', [], None))
    steps = [(rxn, {}, None), (rxn, {'species_delimiter': ' & ', 'reaction_delimiter': '->'}, None),
             (rxn, {'species_delimiter': ' . ', 'reaction_delimiter': ' >> ', 'stoich_space': True}, None),
             (rxn, {'stoich_format': '.3f'}, None),
             (other, {}, None), (rxn, {}, None),
             (rxn, {}, ('products_stoich', [Fr(7, 2)])), (rxn, {'species_delimiter': ' & ', 'reaction_delimiter': '->'}, None),
             (rxn, {'include_TS': False}, None), (other, {'species_delimiter': ' & ', 'reaction_delimiter': '->'}, None),
             (rxn, {}, ('reactants_stoich', [1, Fr(1, 4)]))]
    for k_step, (obj, kw, change) in enumerate(steps):
        if change:
            set_public(I, obj, change[0], ListV([C(x) for x in change[1]]))
            sides_now = [(a, o, change[1] if a + '_stoich' == change[0] else v) for a, o, v in sides_now]
        want = tuple(sides_now) if obj is rxn else sides_other
        if kw.get('include_TS') is False:
            want = want[:2] + (('transition_state', [], None),)
        fmt = kw.get('stoich_format', '.2f')

        def prec(x, fmt=fmt):
            return C(Fr(format(float(x), fmt))) if isinstance(x, Fr) and x.denominator != 1 else C(x)
        txt = I.call_method(obj, 'to_string', [], dict(kw))
        back = txt
        if not isinstance(txt, Raised):
            back = I.call_function(owner_fs.module, fn_fs, [], {
                'reaction_str': txt, 'species': DictV(dict(sp)), 'species_delimiter': kw.get('species_delimiter', '+'),
                'reaction_delimiter': kw.get('reaction_delimiter', '=')}, self_obj=ci, owner=owner_fs)
        ok, why = (False, 'gives %s' % show(back, 80)) if not isinstance(back, Obj) else sides_match(I, back, want, prec)
        what = '%s reaction%s printed with %s' % ('the first' if obj is rxn else 'a second',
                                                 ', %s set to %s,' % (change[0], [str(x) for x in change[1]]) if change else '',
                                                 ', '.join('%s=%r' % kv for kv in sorted(kw.items())) or 'the defaults')
        run.check(ok, 'EFFECT.print-state', 'Reaction.to_string', 'one reaction printed again and again: step %d, %s'
                  % (k_step + 1, what),
                  'step %d of %d in one process: %s gives %s, which must parse (with the delimiters of this step) to the '
                  'reaction as it is now; %s' % (k_step + 1, len(steps), what, show(txt, 120), why), owner_ts.module, fn_ts,
                  sample='to_string history, step %d: %s' % (k_step + 1, what) if k_step in (2, 6) else None)


# species names written out: every kind of character the property allows (letters, digits after the first character,
# parentheses, asterisks, underscores), among them the beginnings that other notations of a number would claim - an
# exponent (E1, e2, E2S, d3), a digit separator (_1), an imaginary unit (j), a hexadecimal/octal/binary prefix (x1, o7, b1)
LITERAL_REACTIONS = [
    (['E1', 'S'], [2, 1], ['E1S'], [Fr(3, 2)], None, None),
    (['E2S'], [2], ['P', 'S'], [1, 2], ['TS_1'], [1]),
    (['S', 'e2'], [1, Fr(1, 2)], ['P'], [1], None, None),
    (['H2', 'O2'], [1, Fr(1, 2)], ['H2O'], [1], ['H2O_TS'], [1]),
    (['e10', 'E5'], [10, Fr(5, 2)], ['d3', 'D2O'], [3, Fr(1, 4)], ['eTS*', 'E(S)'], [2, Fr(1, 2)]),
    (['CO2', 'A(g)', '*'], [2, 3, Fr(5, 4)], ['X_1', 'CH3*', 'N2(S)', 'j'], [12, Fr(1, 2), 2, 4], None, None),
    (['_1', 'x1'], [2, 3], ['o7', 'b1', 'inf', 'nan'], [2, 10, 3, Fr(1, 2)], ['L', 'l'], [3, 2]),
]


def literal_names(run, repo, ci, owner_fs, fn_fs):
    """print->parse with concrete species names: the text goes through the regular expressions as it stands"""
    n = 0
    for (rn, rs, pn, ps, tn, ts), (sd, rd), space in itertools.product(
            LITERAL_REACTIONS, (('+', '='), (' + ', ' <=> '), ('.', '>>'), (' & ', '->'), (' . ', ' >> ')), (False, True)):
        if sd == ' & ' and run.tier != 'thorough':
            continue
        decimals = any(isinstance(x, Fr) for x in rs + ps + (ts or []))
        if sd == '.' and decimals:
            continue                # the known clash of '.' with decimal points is reported by the symbolic rows
        I = Interp(repo)
        sp = {nm: Obj(nm, attrs={'name': nm, 'elements': DictV({'A': C(1)})}) for nm in rn + pn + (tn or [])}
        R_, P_, T_ = [sp[x] for x in rn], [sp[x] for x in pn], [sp[x] for x in tn or []]
        rxn = make_reaction(I, repo, ci, R_, [C(x) for x in rs], P_, [C(x) for x in ps],
                            T_ if tn else None, [C(x) for x in ts] if tn else None)
        label = 'names=%s|%s|%s stoich=%s|%s|%s delims=%r/%r space=%s' % (
            rn, pn, tn, [str(x) for x in rs], [str(x) for x in ps], [str(x) for x in ts or []], sd, rd, space)
        txt = I.call_method(rxn, 'to_string', [], {'species_delimiter': sd, 'reaction_delimiter': rd,
                                                   'stoich_space': space})
        n += 1
        sides = (('reactants', R_, rs), ('products', P_, ps), ('transition_state', T_, ts))
        for csd, crd in sorted({(sd.strip(), rd.strip()), (sd, rd)}):
            if csd == '.' and decimals:
                continue            # (padded with blanks the delimiter is kept apart from the decimal points)
            back = txt
            if not isinstance(txt, Raised):
                back = I.call_function(owner_fs.module, fn_fs, [], {'reaction_str': txt, 'species': DictV(dict(sp)),
                                                                  'species_delimiter': csd, 'reaction_delimiter': crd},
                                       self_obj=ci, owner=owner_fs)
            ok, why = (False, 'gives %s' % show(back, 200)) if not isinstance(back, Obj) else sides_match(I, back, sides)
            run.check(ok, 'TABLE.roundtrip', 'Reaction.from_string', 'print->parse, species names written out',
                      '[%s] printed %s and parsed with species_delimiter=%r reaction_delimiter=%r; %s'
                      % (label, show(txt, 160), csd, crd, why), owner_fs.module, fn_fs,
                      sample='[%s] %s parses back to the same reaction' % (label, show(txt, 120)) if n % 11 == 0 else None)
    run.floor('print/parse cases with species names written out', n, 30)
    # strings as a user writes them: repeated species with and without a blank after the coefficient, odd blanks
    I = Interp(repo)
    sp = {nm: Obj(nm, attrs={'name': nm, 'elements': DictV({'A': C(1)})})
          for nm in ('H2', 'O2', 'H2O', 'H2O_TS', 'E1', 'e2', 'E2S', 'E1S', 'S', 'P')}
    for s_, want in (
            ('H2+2 H2=H2O', (['H2'], [3], ['H2O'], [1], None, None)),
            ('H2 + 0.5 O2 + 1.5 H2 + 0.75O2 = H2O_TS = 2.5 H2O', (['H2', 'O2'], [Fr(5, 2), Fr(5, 4)], ['H2O'], [Fr(5, 2)],
                                                                ['H2O_TS'], [1])),
            ('2 H2O=1.5 H2O_TS + 0.5H2O_TS=H2O + 1 H2O', (['H2O'], [2], ['H2O'], [2], ['H2O_TS'], [2])),
            ('2E1+S=1.50E1S', (['E1', 'S'], [2, 1], ['E1S'], [Fr(3, 2)], None, None)),
            ('S+0.50e2=P', (['S', 'e2'], [1, Fr(1, 2)], ['P'], [1], None, None)),
            ('2E2S + 3 E2S  =  P+2S+ S', (['E2S'], [5], ['P', 'S'], [1, 3], None, None)),
            (' 10E1 + 0.25 e2=E2S=2.5 P ', (['E1', 'e2'], [10, Fr(1, 4)], ['P'], [Fr(5, 2)], ['E2S'], [1])),
            # the RING delimiters padded with blanks, as one has to write them next to decimal coefficients
            (('0.5 H2 . 0.25 O2 >> 0.5 H2O', ' . ', ' >> '), (['H2', 'O2'], [Fr(1, 2), Fr(1, 4)], ['H2O'], [Fr(1, 2)],
                                                             None, None)),
            (('H2 . 0.50O2 . 1.5 H2 >> H2O_TS >> 2.50H2O', ' . ', ' >> '),
             (['H2', 'O2'], [Fr(5, 2), Fr(1, 2)], ['H2O'], [Fr(5, 2)], ['H2O_TS'], [1])),
            # tabs are whitespace as blanks are
            ('\tH2 +\t0.5\tO2\t=  H2O_TS\t=\tH2O \t', (['H2', 'O2'], [1, Fr(1, 2)], ['H2O'], [1], ['H2O_TS'], [1]))):
        kw_d = {}
        if isinstance(s_, tuple):
            s_, kw_d['species_delimiter'], kw_d['reaction_delimiter'] = s_
        r = I.call_function(owner_fs.module, fn_fs, [], dict(kw_d, reaction_str=s_, species=DictV(dict(sp))),
                            self_obj=ci, owner=owner_fs)
        ok = isinstance(r, Obj)
        if ok:
            ok = sides_match(I, r, (('reactants', [sp[x] for x in want[0]], want[1]),
                                    ('products', [sp[x] for x in want[2]], want[3]),
                                    ('transition_state', [sp[x] for x in want[4] or []], want[5])))[0]
        run.check(ok, 'REF.parse', 'Reaction.from_string', 'written out: %s' % s_.replace('\t', '\\t'),
                  '%r%s must parse to %s, got %s' % (s_, ' (delimiters %r/%r)' % (kw_d['species_delimiter'],
                                                                                kw_d['reaction_delimiter']) if kw_d else '',
                                                     want, show(r.attrs if isinstance(r, Obj) else r, 200)),
                  owner_fs.module, fn_fs, sample='%r parses to %s' % (s_, want))


FILE_PROBES = '''
def one_shot(filename):
    with open(filename, 'r') as f_ptr:
        first = [line for line in f_ptr]
        second = [line for line in f_ptr]
    return [len(first), len(second)]


def lazy(filename):
    with open(filename, 'r') as f_ptr:
        gen = (line for line in f_ptr)
    try:
        rest = list(gen)
    except ValueError:
        return 'closed'
    return len(rest)
'''


def file_model(repo):
    """what the interpreter's model of a text file knows, asked of the model itself with two lines of Python (not of the
    code under analysis): 'one_shot' - a file is its own iterator, what was read is gone; 'lazy' - a generator expression
    over a file runs when it is consumed, and a file is closed when its with-block ends. The changes that need these
    facts (the RING reader looking through the file before reading it; building its reactions lazily and listing them
    after the block) are seeded only when the model has them, and the gap is listed as undecided until then"""
    import ast
    from ..source import Module
    m = Module('pmv_c14_file_probes', '<c14 probes>', 'pmv_c14_file_probes.py', FILE_PROBES)
    for st in m.tree.body:
        if isinstance(st, ast.FunctionDef):
            m.functions[st.name] = st
    want = {'one_shot': lambda r: isinstance(r, ListV) and len(r) == 2 and all(
                isinstance(x, Rat) and x.eq(C(v)) for x, v in zip(r.items, (3, 0))),
            'lazy': lambda r: r == 'closed'}
    out = {}
    from ..xlate import VISITED
    before = set(VISITED)
    for name, good in want.items():
        I = Interp(repo)
        I.files['probe.txt'] = [SegStr.lit('a\n'), SegStr.lit('b\n'), SegStr.lit('c\n')]
        try:
            out[name] = bool(good(I.call_function(m, m.functions[name], ['probe.txt'], {})))
        except Unsupported:
            out[name] = False
    VISITED.intersection_update(before)         # the probes are not functions of the analysed package
    return out


def ring_reader(run, repo, ci):
    """pmutt.io.ring.read_reactions: every line that holds the reaction delimiter is parsed with the delimiters and
    the options of the call, the other lines are skipped, the order is kept"""
    m = repo.module('pmutt.io.ring')
    fn = m.functions.get('read_reactions')
    if fn is None:
        raise AnchorError('pmutt.io.ring.read_reactions not found')
    run.fn('pmutt.io.ring.read_reactions')
    knows = file_model(repo)
    for fact, mutant, gap in (
            ('one_shot', FILE_PEEK_MUTANT, 'a RING reader that iterates over the open file more than once (the model of a '
                                           'file has no read position)'),
            ('lazy', FILE_LAZY_MUTANT, 'a RING reader that reads the file after its with-block has ended (the model of a file '
                                       'is never closed; generator expressions are evaluated where they are written)')):
        if knows[fact] and mutant not in MUTANTS:
            MUTANTS.append(mutant)
        elif not knows[fact]:
            run.undecided.append(gap)
    for (sd, rd), final_newline in itertools.product((('.', '>>'), ('+', '=')), (True, False)):
        I = Interp(repo)
        sp = named_species(I, [('A', 2), ('B', 3), ('C', 4), ('TS', 4)])
        kA, kB, kC, kT = list(sp)
        A, B, Cc, TSn = (SegStr.field(k, I.sym_strings[k][0], 'text') for k in (kA, kB, kC, kT))
        X = SegStr.field('~X', 2, 'text')
        lines = [SegStr.lit('Reactions generated by RING\n'),
                 A + sd + '2' + B + rd + Cc + '\n',
                 SegStr.lit('\n'),
                 Cc + rd + TSn + rd + A + sd + B + '\n',
                 A + rd + X + rd + B + ('\n' if final_newline else '')]
        I.files['ring.txt'] = lines
        kw = {'filename': 'ring.txt', 'species': DictV(dict(sp)), 'species_delimiter': sd, 'reaction_delimiter': rd}
        out = I.call_function(m, fn, [], dict(kw))
        label = 'delims=%r/%r' % (sd, rd) + ('' if final_newline else ', no newline at the end of the file')
        # the last line names a transition state that is not in the dictionary: an error by default
        run.check(isinstance(out, Raised) and out.exc == 'KeyError', 'PATH.unknown-species', 'io.ring.read_reactions',
                  label + ' unknown transition state', '[%s] a line whose transition state is not in the species '
                  'dictionary must raise KeyError by default, got %s' % (label, show(out, 80)), m, fn)

        def read(sp, **opts):
            nw = len(I.warnings)
            out = I.call_function(m, fn, [], dict(kw, species=DictV(dict(sp)), **opts))
            rx = get_public(I, out, 'reactions') if isinstance(out, Obj) else None
            ok = isinstance(rx, ListV) and len(rx) == 3 and all(isinstance(r_, Obj) for r_ in rx.items) and \
                (len(I.warnings) > nw) == opts.get('raise_warning', True)
            why = 'result %s, %s' % (show(rx if rx is not None else out, 120),
                                     'warned' if len(I.warnings) > nw else 'no warning')
            if ok:
                want = [(('reactants', [sp[kA], sp[kB]], [1, 2]), ('products', [sp[kC]], [1]), ('transition_state', [], None)),
                        (('reactants', [sp[kC]], [1]), ('products', [sp[kA], sp[kB]], [1, 1]),
                         ('transition_state', [sp[kT]], [1])),
                        (('reactants', [sp[kA]], [1]), ('products', [sp[kB]], [1]), ('transition_state', [], None))]
                for k_, (r_, w_) in enumerate(zip(rx.items, want)):
                    ok_, why_ = sides_match(I, r_, w_)
                    if not ok_:
                        ok, why = False, 'reaction %d differs from its line: %s' % (k_ + 1, why_)
                        break
            return ok, why
        ok, why = read(sp, raise_error=False, raise_warning=False)
        run.check(ok, 'REF.parse', 'io.ring.read_reactions', label,
                  '[%s] three of the five lines hold the reaction delimiter: they must come back as three reactions, in '
                  'order, parsed with the delimiters and options of the call (raise_error=False, raise_warning=False: '
                  'the unknown transition state is dropped silently); %s' % (label, why), m, fn,
                  sample='ring.read_reactions [%s]: 5 lines -> 3 reactions' % label)
        # the same file read again in the same process: with a second dictionary that holds other objects under the
        # same names (the reactions are made of those), warning about the unknown transition state this time, and
        # with the first dictionary once more
        sp2 = named_species(I, [('A', 2), ('B', 3), ('C', 4), ('TS', 4)], ' (2)')
        for k_, (what, sp_, opts) in enumerate((
                ('a second dictionary with other objects under the same names', sp2, {'raise_warning': False}),
                ('the second dictionary, raise_warning=True', sp2, {'raise_warning': True}),
                ('the first dictionary again', sp, {'raise_warning': False}))):
            ok, why = read(sp_, raise_error=False, **opts)
            run.check(ok, 'EFFECT.parse-state', 'io.ring.read_reactions', '%s, file read again: %s' % (label, what),
                      '[%s] the file read again in the same process (%s): three reactions made of the species of the '
                      'dictionary of this call%s; %s' % (label, what, ', and a warning about the transition state that is '
                                                         'not in it' if opts['raise_warning'] else '', why), m, fn,
                      sample='ring.read_reactions [%s] read again: %s' % (label, what) if k_ == 0 else None)


def balance(run, repo, ci):
    owner, fn = repo.find_method(ci, 'check_element_balance')
    balance_written_out(run, repo, ci, owner, fn)
    balance_twice(run, repo, ci, owner, fn)
    offsets = {'products off by one': 1, 'products off by a thousandth': Fr(1, 1000),
               'products off by a millionth': Fr(-1, 10 ** 6), 'unbalanced': -1,
               'transition state off by a thousandth': Fr(-1, 1000),
               'transition state off by a millionth': Fr(1, 10 ** 6)}
    # (the order in which a composition lists its elements says nothing about the reaction)
    balanced_cases = ('balanced', 'the product lists its elements in another order')
    balanced_ts = (None, 'balanced', 'the transition state lists its elements in another order')
    if counter_model_drops_zero(repo):
        # an element listed with the count 0 (a spreadsheet column) is an element that is not there
        balanced_cases += ('a reactant lists an element with the count zero', 'the product lists an element with the count zero')
        balanced_ts += ('the transition state lists an element with the count zero',)
    for case, ts_mode in itertools.product(balanced_cases[:1] + ('products off by one', 'products off by a thousandth',
                                                                'products off by a millionth', 'element missing in products',
                                                                'element only in products') + balanced_cases[1:],
                                           balanced_ts[:2] + ('unbalanced', 'transition state off by a thousandth',
                                                              'transition state off by a millionth',
                                                              'element only in transition state',
                                                              'element missing in transition state') + balanced_ts[2:]):
        I = Interp(repo)
        # the coefficients and compositions are generic numbers: totals that are not identically equal are unequal
        I.generic_point = True
        D = I.D
        n1, n2, n3, n4 = (D.sym(k) for k in ('nu1', 'nu2', 'nu3', 'nu4'))
        a1, a2, b1 = D.sym('a1'), D.sym('a2'), D.sym('b1')
        r1 = Obj('r1', attrs={'elements': DictV({'A': a1, 'B': b1})})
        r2 = Obj('r2', attrs={'elements': DictV({'A': a2})})
        if case == 'a reactant lists an element with the count zero':
            r2.attrs['elements'] = DictV({'Z': C(0), 'A': a2, 'Y': C(0)})
        totA = n1 * a1 + n2 * a2
        totB = n1 * b1
        pA = totA / n3
        if case in offsets:
            pA = (totA + C(offsets[case])) / n3
        pel = {'A': pA, 'B': totB / n3}
        if case == 'element missing in products':
            del pel['B']
        if case == 'element only in products':
            pel['E'] = D.sym('e1')
        if case == 'the product lists an element with the count zero':
            pel['Z'] = C(0)
        if case == 'the product lists its elements in another order':
            pel = dict(reversed(list(pel.items())))
        p1 = Obj('p1', attrs={'elements': DictV(pel)})
        t_side = None
        if ts_mode:
            tA = (totA + C(offsets.get(ts_mode, 0))) / n4
            tel = {'A': tA, 'B': totB / n4}
            if ts_mode == 'element only in transition state':
                tel['E'] = D.sym('e2')
            if ts_mode == 'element missing in transition state':
                del tel['B']
            if ts_mode == 'the transition state lists an element with the count zero':
                tel['Z'] = C(0)
            if ts_mode == 'the transition state lists its elements in another order':
                tel = dict(reversed(list(tel.items())))
            t1 = Obj('t1', attrs={'elements': DictV(tel)})
            t_side = [t1]
        rxn = make_reaction(I, repo, ci, [r1, r2], [n1, n2], [p1], [n3], t_side, [n4] if t_side else None)
        r = I.call_method(rxn, 'check_element_balance', [], {})
        should_raise = case not in balanced_cases or ts_mode not in balanced_ts
        run.check(isinstance(r, Raised) == should_raise and (not should_raise or r.exc == 'ValueError'),
                  'REF.balance', 'Reaction.check_element_balance', '%s / TS %s' % (case, ts_mode),
                  'reaction (%s, transition state %s) must %s; got %s'
                  % (case, ts_mode, 'be refused with ValueError' if should_raise else 'be accepted', show(r)),
                  owner.module, fn, sample='balance: %s / TS %s -> %s' % (case, ts_mode,
                                                                          'ValueError' if should_raise else 'accepted'))


def counter_model_drops_zero(repo):
    """collections.Counter: a + b keeps positive totals only. Whether the interpreter's model of Counter does that is
    asked of the model itself (not of the code under analysis); until it does, compositions that list an element with
    the count 0 cannot be told from a plain dict: the instances that need it are not run and are listed as undecided"""
    from ..xlate import CounterV
    I = Interp(repo)
    a, b = CounterV(), CounterV()
    a.d['X'] = C(0)
    b.d['Y'] = C(2)
    try:
        out = I.binop('+', a, b)
    except Unsupported:
        return False
    return isinstance(out, CounterV) and set(out.d) == {'Y'}


# element compositions written out (counts as read_excel stores them: every elements.X column, a 0 included)
FORMULAS = {'H2': {'H': 2}, 'O2': {'O': 2}, 'H2O': {'H': 2, 'O': 1}, 'H2O_TS': {'H': 2, 'O': 1}, 'OH': {'O': 1, 'H': 1},
            'H': {'H': 1}, 'C3H6': {'C': 3, 'H': 6}, 'CH2': {'C': 1, 'H': 2},
            'H2 (all columns)': {'C': 0, 'H': 2, 'O': 0}, 'H2O (all columns)': {'C': 0, 'H': 2, 'O': 1, 'N': 0}}
BALANCE_WRITTEN_OUT = [
    # (reactants, products, transition state, balanced?)
    ((('H2', 1), ('O2', Fr(1, 2))), (('H2O', 1),), None, True),
    ((('H2', 1), ('O2', Fr(1, 2))), (('H2O', 1),), (('H2O_TS', 1),), True),
    ((('H2', Fr(1, 2)), ('OH', 1)), (('H2O', 1),), (('H2O_TS', 1),), True),
    ((('C3H6', Fr(1, 3)),), (('CH2', 1),), None, True),
    ((('H2', 1), ('O2', 1)), (('H2O', 1),), None, False),
    ((('H2', 1),), (('H', 1),), None, False),
    # off by less than the two decimals a coefficient is usually written with, and by less than a part in 10^5
    ((('H2', 1), ('O2', Fr(1, 2))), (('H2O', Fr('1.004')),), None, False),
    ((('C3H6', Fr('0.333')),), (('CH2', 1),), None, False),
    ((('H2', 1), ('O2', Fr('0.497'))), (('H2O', 1),), None, False),
    ((('H2', 1), ('O2', Fr(1, 2))), (('H2O', 1),), (('H2O_TS', Fr('0.998')),), False),
    ((('C3H6', Fr('0.333333')),), (('CH2', 1),), None, False),
    ((('H2', 1), ('O2', Fr(1, 2))), (('H2O', 1),), (('H2O_TS', Fr('1.000002')),), False),
    ((('H2', 1000), ('O2', 500)), (('H2O', Fr('1000.001')),), None, False),
    # the elements come in another order on the other side (O, H against H, O)
    ((('OH', 1), ('H', 1)), (('H2O', 1),), None, True),
    ((('H', 1), ('OH', 1)), (('OH', 1), ('H', 1)), (('H2O_TS', 1),), True),
    ((('OH', 1), ('H', 1)), (('H2O', Fr('1.0001')),), None, False),
    # an element listed with the count 0 is an element that is not there
    ((('H2 (all columns)', 1),), (('H', 2),), None, True),
    ((('H2 (all columns)', 1), ('O2', Fr(1, 2))), (('H2O', 1),), None, True),
    ((('H2', 1), ('O2', Fr(1, 2))), (('H2O (all columns)', 1),), None, True),
    ((('H2', Fr(1, 2)), ('OH', 1)), (('H2O', 1),), (('H2O (all columns)', 1),), True),
    ((('H2 (all columns)', 1),), (('H', 1),), None, False),
]


def balance_written_out(run, repo, ci, owner, fn):
    n = 0
    drops = counter_model_drops_zero(repo)
    if drops and ZERO_COUNT_MUTANT not in MUTANTS:
        MUTANTS.append(ZERO_COUNT_MUTANT)
    for rs, ps, ts, balanced in BALANCE_WRITTEN_OUT:
        names = [x for x, _ in rs + ps + (ts or ())]
        if any('all columns' in x for x in names) and not drops:
            continue
        I = Interp(repo)
        mk = lambda side: [Obj(x, attrs={'name': x, 'elements': DictV({k: C(v) for k, v in FORMULAS[x].items()})})
                           for x, _ in side]
        rxn = make_reaction(I, repo, ci, mk(rs), [C(v) for _, v in rs], mk(ps), [C(v) for _, v in ps],
                            mk(ts) if ts else None, [C(v) for _, v in ts] if ts else None)
        r = I.call_method(rxn, 'check_element_balance', [], {})
        text = ' = '.join(' + '.join('%s %s' % (float(v), x) for x, v in side) for side in (rs, ts, ps) if side)
        n += 1
        run.check((r is None) if balanced else (isinstance(r, Raised) and r.exc == 'ValueError'),
                  'REF.balance', 'Reaction.check_element_balance', 'written out: %s' % text,
                  '%s (compositions %s) must be %s; got %s'
                  % (text, {x: FORMULAS[x] for x in names}, 'accepted' if balanced else 'refused with ValueError', show(r)),
                  owner.module, fn, sample='balance: %s -> %s' % (text, 'accepted' if balanced else 'ValueError'))
    run.floor('balance cases with compositions written out', n, 16)
    if not drops:
        run.undecided.append('compositions that list an element with the count 0 (the model of collections.Counter '
                             'does not drop totals that are zero)')


def balance_twice(run, repo, ci, owner, fn):
    """the check looks at the reaction as it is now: nothing is remembered from an earlier call, on this object or
    another (H2 + 0.5 O2 = H2O and H2 = H with their compositions written out)"""
    def fresh(I, unbalanced=False):
        mk = lambda *names: [Obj(x, attrs={'name': x, 'elements': DictV({k: C(v) for k, v in FORMULAS[x].items()})})
                             for x in names]
        if unbalanced:
            return make_reaction(I, repo, ci, mk('H2'), [C(1)], mk('H'), [C(1)], None, None), C(1)
        return make_reaction(I, repo, ci, mk('H2', 'O2'), [C(1), C(Fr(1, 2))], mk('H2O'), [C(1)], None, None), C(1)

    def verdict(r):
        return 'accepted' if r is None else 'refused (%s)' % r.exc if isinstance(r, Raised) else show(r)
    for first in ('balanced', 'unbalanced'):
        I = Interp(repo)
        rxn, n3 = fresh(I, unbalanced=(first == 'unbalanced'))
        got = [verdict(I.call_method(rxn, 'check_element_balance', [], {}))]
        got.append(verdict(I.call_method(rxn, 'check_element_balance', [], {})))
        # the products' coefficient doubled through the public attribute
        set_public(I, rxn, 'products_stoich', ListV([n3 * 2]))
        got.append(verdict(I.call_method(rxn, 'check_element_balance', [], {})))
        set_public(I, rxn, 'products_stoich', ListV([n3]))
        got.append(verdict(I.call_method(rxn, 'check_element_balance', [], {})))
        # a second reaction of the other kind, then the first again
        other, _ = fresh(I, unbalanced=(first == 'balanced'))
        got.append(verdict(I.call_method(other, 'check_element_balance', [], {})))
        got.append(verdict(I.call_method(rxn, 'check_element_balance', [], {})))
        a_, r_ = 'accepted', 'refused (ValueError)'
        # H2 + 0.5 O2 = 2 H2O is unbalanced, H2 = 2 H is balanced
        want = [a_, a_, r_, a_, r_, a_] if first == 'balanced' else [r_, r_, a_, r_, a_, r_]
        run.check(got == want, 'EFFECT.balance-state', 'Reaction.check_element_balance',
                  'called again after a change, %s first' % first,
                  'a reaction (%s) checked, checked again, checked with the coefficient of its product doubled, with the '
                  'coefficient restored, then a second reaction (%s), then the first again: expected %s, got %s'
                  % (first, 'unbalanced' if first == 'balanced' else 'balanced', want, got), owner.module, fn,
                  sample='balance: %s reaction checked again after changes: %s' % (first, got))


def formulas(run, repo):
    pm = repo.module('pmutt')
    fn = pm.functions.get('parse_formula')
    if fn is None:
        raise AnchorError('pmutt.parse_formula not found')
    I = Interp(repo)
    D = I.D
    for k, w in (('C', 1), ('H', 1), ('Pt', 2), ('O', 1)):
        I.sym_strings[Z + k] = (w, 'alpha')

    def el(k):
        return SegStr.field(Z + k, I.sym_strings[Z + k][0], 'alpha')
    n1 = D.sym('n1')
    I.num_widths[repr(n1)] = 3
    cases = [
        ('repeated symbols summed, missing counts are one', el('C') + el('H') + '3' + el('C') + el('H') + '2' + el('O') + el('H'),
         {Z + 'C': C(2), Z + 'H': C(6), Z + 'O': C(1)}),
        ('two-letter symbol and multi-digit count', el('Pt') + '12' + el('O') + '2', {Z + 'Pt': C(12), Z + 'O': C(2)}),
        ('symbolic count', el('C') + SegStr.field(n1, 3, 'num', 'd') + el('C') + '2', {Z + 'C': n1 + 2}),
        ('literal formula', 'CH3CH2OH', {'C': C(2), 'H': C(6), 'O': C(1)}),
        ('literal formula with two-letter symbols', 'Al2O3', {'Al': C(2), 'O': C(3)}),
        # every decimal digit may stand at every place of a count except a leading zero
        ('counts with the digit zero', el('C') + '10' + el('H') + '205' + el('Pt') + '100' + el('C') + '90',
         {Z + 'C': C(100), Z + 'H': C(205), Z + 'Pt': C(100)}),
        ('literal formulas with the digit zero in a count', 'C10H22', {'C': C(10), 'H': C(22)}),
        ('literal formula with all digits', 'Al20O30C456H789Pt1', {'Al': C(20), 'O': C(30), 'C': C(456), 'H': C(789),
                                                                  'Pt': C(1)}),
    ]
    for label, formula, want in cases:
        r = I.call_function(pm, fn, [], {'formula': formula})
        ok = isinstance(r, DictV) and set(r.d) == set(want) and all(isinstance(r.d[k], Rat) and r.d[k].eq(want[k])
                                                                  for k in want)
        run.check(ok, 'REF.formula', 'pmutt.parse_formula', label,
                  '%s: %s parses to %s' % (label, show(formula, 100), show(r.d if isinstance(r, DictV) else r, 120)),
                  pm, fn, sample='parse_formula: ' + label)
    # every call gives the caller a dictionary of its own: what the caller does to it is not seen by the next call
    for formula, want in (('CH3CH2OH', {'C': C(2), 'H': C(6), 'O': C(1)}),
                          (el('C') + el('H') + '4', {Z + 'C': C(1), Z + 'H': C(4)})):
        r1 = I.call_function(pm, fn, [], {'formula': formula})
        if isinstance(r1, DictV):
            for k in list(r1.d):
                r1.d[k] = C(99)
            r1.d['Xx'] = C(1)
        r2 = I.call_function(pm, fn, [], {'formula': formula})
        ok = isinstance(r1, DictV) and isinstance(r2, DictV) and r2 is not r1 and set(r2.d) == set(want) and \
            all(isinstance(r2.d[k], Rat) and r2.d[k].eq(want[k]) for k in want)
        run.check(ok, 'EFFECT.formula-state', 'pmutt.parse_formula', 'second call after the first result was modified',
                  '%s parsed, the returned dictionary modified by the caller, parsed again: the second result is %s'
                  % (show(formula, 60), show(r2.d if isinstance(r2, DictV) else r2, 120)), pm, fn,
                  sample='parse_formula: second call independent of the first result')


R_ = 'pmutt/reaction/__init__.py'
MUTANTS = [
    {'name': 'RING reader parses with its default species delimiter', 'expect': ('REF.parse', 'ring.read_reactions'),
     'edits': [('pmutt/io/ring.py', "                                       species_delimiter=species_delimiter,", "                                       species_delimiter='.',")]},
    {'name': 'RING reader always raises on an unknown transition state', 'expect': ('REF.parse', 'ring.read_reactions'),
     'edits': [('pmutt/io/ring.py', "                                       raise_error=raise_error,", "                                       raise_error=True,")]},
    {'name': 'transition state dropped only when the warning is raised', 'expect': ('PATH.unknown-species', 'from_string'),
     'edits': [(R_, '''                        warn(warn_msg, RuntimeWarning)
                    # Reinitialize without the transition state
                    ts = None
                    ts_stoich = None
                    break''', '''                        warn(warn_msg, RuntimeWarning)
                        ts = None''')]},
    {'name': 'repeated species overwrite instead of sum', 'expect': ('REF.parse', 'from_string'),
     'edits': [(R_, '            stoichiometry[i] += specie_stoich', '            stoichiometry[i] = specie_stoich')]},
    {'name': 'products parsed from the middle state', 'expect': ('', 'from_string'),
     'edits': [(R_, '    products_state = reaction_states[-1]', '    products_state = reaction_states[1]')]},
    {'name': 'balance ignores the transition state', 'expect': ('REF.balance', 'check_element_balance'),
     'edits': [(R_, '            if reactant_elements != TS_elements:', '            if False and reactant_elements != TS_elements:')]},
    {'name': 'formula count default 0', 'expect': ('REF.formula', 'parse_formula'),
     'edits': [('pmutt/__init__.py', "int(coefficient or '1')", "int(coefficient or '0')")]},
    {'name': 'printer drops the space option for the first species only', 'expect': ('', ''),
     'edits': [(R_, "                specie_str = '{}{}'.format(stoich_val, specie_key)", "                specie_str = '{}{}'.format(specie_key, stoich_val)")]},
    {'name': 'to_string writes products before transition state', 'expect': ('TABLE', 'from_string'),
     'edits': [(R_, "        if include_TS and self.transition_state is not None:\n            reaction_str += _write_reaction_state(\n                species=self.transition_state,\n                stoich=self.transition_state_stoich,",
                "        if include_TS and self.transition_state is not None:\n            reaction_str += _write_reaction_state(\n                species=self.products,\n                stoich=self.products_stoich,")]},
    {'name': 'coefficient regex takes one digit before the decimal point', 'expect': ('TABLE', 'Reaction.from_string'),
     'edits': [(R_, r"re.search(r'^\d+\.?\d*', specie)", r"re.search(r'^\d\.?\d*', specie)")]},
    {'name': 'a zero digit ends the count of an element', 'expect': ('REF.formula', 'parse_formula'),
     'edits': [('pmutt/__init__.py', r"r'([A-Z][a-z]*)(\d*)'", r"r'([A-Z][a-z]*)([1-9]*)'")]},
    {'name': 'balance looks only at the elements of the reactants (products)', 'expect': ('REF.balance', 'check_element_balance'),
     'edits': [(R_, '        if reactant_elements != product_elements:\n',
                '        for element, count in reactant_elements.items():\n'
                '          if product_elements.get(element) != count:\n')]},
    {'name': 'balance looks only at the elements of the transition state', 'expect': ('REF.balance', 'check_element_balance'),
     'edits': [(R_, '            if reactant_elements != TS_elements:\n',
                '            for element, count in TS_elements.items():\n'
                '              if reactant_elements.get(element) != count:\n')]},
    {'name': 'balance looks only at the elements of the reactants (transition state)', 'expect': ('REF.balance', 'check_element_balance'),
     'edits': [(R_, '            if reactant_elements != TS_elements:\n',
                '            for element, count in reactant_elements.items():\n'
                '              if TS_elements.get(element) != count:\n')]},
    {'name': 'Chemkin from_string parses with the default species delimiter', 'expect': ('TABLE.roundtrip', 'ChemkinReaction.from_string'),
     'edits': [(R_, "        rxn = super().from_string(reaction_str=reaction_str,\n                                  species=species,\n                                  species_delimiter=species_delimiter,",
                "        rxn = super().from_string(reaction_str=reaction_str,\n                                  species=species,")]},
    {'name': 'RING reader cuts the last character instead of the newline', 'expect': ('', 'ring.read_reactions'),
     'edits': [('pmutt/io/ring.py', "line.replace('\\n', '')", "line[:-1]")]},
    {'name': 'message for an unknown product names the first reactant', 'expect': ('PATH.unknown-species', 'from_string'),
     'edits': [(R_, "''.format(name, reaction_str))", "''.format(react_names[0], reaction_str))", 1, 2)]},
    {'name': 'message for an unknown reactant holds the reaction string only', 'expect': ('PATH.unknown-species', 'from_string'),
     'edits': [(R_, "''.format(name, reaction_str))", "''.format(reaction_str, reaction_str))", 0, 2)]},
    {'name': 'unknown transition state raises without a message', 'expect': ('PATH.unknown-species', 'from_string'),
     'edits': [(R_, "                        raise KeyError(err_msg)", "                        raise KeyError")]},
    # ---- white-box review, round 2 -------------------------------------------------------------------------------
    {'name': 'balance of reactants and products compared to two decimals', 'expect': ('REF.balance', 'check_element_balance'),
     'edits': [(R_, '        if reactant_elements != product_elements:\n',
                '        if set(reactant_elements) != set(product_elements) or not all(\n'
                '                np.isclose(reactant_elements[e], product_elements[e], rtol=0., atol=1.e-2)\n'
                '                for e in reactant_elements):\n')]},
    {'name': 'balance of reactants and transition state compared with the default tolerances of np.isclose',
     'expect': ('REF.balance', 'check_element_balance'),
     'edits': [(R_, '            if reactant_elements != TS_elements:\n',
                '            if set(reactant_elements) != set(TS_elements) or not all(\n'
                '                    np.isclose(reactant_elements[e], TS_elements[e]) for e in reactant_elements):\n')]},
    {'name': 'balance check remembers that the reaction was balanced', 'expect': ('EFFECT.balance-state', 'check_element_balance'),
     'edits': [(R_, '        reactant_elements = _count_elements(self.reactants,\n'
                    '                                            self.reactants_stoich)\n',
                '        if getattr(self, "_elements_balanced", False):\n            return\n'
                '        reactant_elements = _count_elements(self.reactants,\n'
                '                                            self.reactants_stoich)\n'),
               (R_, "                           ''.format(reactant_elements, TS_elements))\n                raise ValueError(err_msg)\n",
                "                           ''.format(reactant_elements, TS_elements))\n                raise ValueError(err_msg)\n"
                "        self._elements_balanced = True\n")]},
    {'name': 'repeated species looked up before the blank after the coefficient is stripped', 'expect': ('REF.parse', 'from_string'),
     'edits': [(R_, '            specie = specie[trim_len:].strip()\n', '            specie = specie[trim_len:]\n'),
               (R_, '            species.append(specie)\n            stoichiometry.append(specie_stoich)',
                '            species.append(specie.strip())\n            stoichiometry.append(specie_stoich)')]},
    {'name': 'coefficient regex accepts an exponent', 'expect': ('TABLE.roundtrip', 'Reaction.from_string'),
     'edits': [(R_, r"re.search(r'^\d+\.?\d*', specie)", r"re.search(r'^\d+\.?\d*(?:[eE][+-]?\d+)?', specie)")]},
    {'name': 'parser removes all blanks and trims the species delimiter only', 'expect': ('TABLE.roundtrip', 'from_string'),
     'edits': [(R_, '    # Separate states of reaction\n    reaction_states = reaction_str.split(reaction_delimiter)\n',
                "    reaction_str = reaction_str.replace(' ', '')\n    species_delimiter = species_delimiter.strip()\n"
                '    reaction_states = reaction_str.split(reaction_delimiter)\n')]},
    {'name': 'parser removes all blanks and trims the reaction delimiter only', 'expect': ('TABLE.roundtrip', 'from_string'),
     'edits': [(R_, '    # Separate states of reaction\n    reaction_states = reaction_str.split(reaction_delimiter)\n',
                "    reaction_str = reaction_str.replace(' ', '')\n    reaction_delimiter = reaction_delimiter.strip()\n"
                '    reaction_states = reaction_str.split(reaction_delimiter)\n')]},
]
MUTANTS.append(
    {'name': 'parse_formula remembers its results', 'expect': ('EFFECT.formula-state', 'parse_formula'),
     'edits': [('pmutt/__init__.py', "    elements_tuples = re.findall(r'([A-Z][a-z]*)(\\d*)', formula)\n    elements = {}\n",
                "    if formula in _FORMULAS:\n        return _FORMULAS[formula]\n"
                "    elements_tuples = re.findall(r'([A-Z][a-z]*)(\\d*)', formula)\n"
                "    elements = _FORMULAS[formula] = {}\n"),
               ('pmutt/__init__.py', "def parse_formula(formula):\n", "_FORMULAS = {}\n\n\ndef parse_formula(formula):\n")]})
# ---- white-box review, round 3 -----------------------------------------------------------------------------------
MUTANTS += [
    {'name': 'parser trims the delimiters of the call', 'expect': ('TABLE.roundtrip', 'from_string'),
     'edits': [(R_, '    # Separate states of reaction\n    reaction_states = reaction_str.split(reaction_delimiter)\n',
                '    species_delimiter = species_delimiter.strip()\n    reaction_delimiter = reaction_delimiter.strip()\n'
                '    reaction_states = reaction_str.split(reaction_delimiter)\n')]},
    {'name': 'parser trims the species delimiter of the call', 'expect': ('TABLE.roundtrip', 'from_string'),
     'edits': [(R_, '    species_str = reaction_str.split(species_delimiter)\n',
                '    species_str = reaction_str.split(species_delimiter.strip())\n')]},
    {'name': 'from_string remembers its reactions whatever the species dictionary',
     'expect': ('EFFECT.parse-state', 'Reaction.from_string'),
     'edits': [(R_, 'class Reaction(_pmuttBase):\n', '_FROM_STRING_CACHE = {}\n\n\nclass Reaction(_pmuttBase):\n'),
               (R_, '            species = pmutt_list_to_dict(species)\n\n        (react_names, react_stoich,',
                '            species = pmutt_list_to_dict(species)\n\n'
                '        cache_key = (cls, reaction_str, species_delimiter, reaction_delimiter,\n'
                '                     raise_error, raise_warning)\n'
                '        if cache_key in _FROM_STRING_CACHE:\n            return _FROM_STRING_CACHE[cache_key]\n\n'
                '        (react_names, react_stoich,'),
               (R_, '        return cls(reactants=reactants,\n                   reactants_stoich=react_stoich,\n'
                    '                   products=products,\n                   products_stoich=prod_stoich,\n'
                    '                   transition_state=ts,\n                   transition_state_stoich=ts_stoich,\n'
                    '                   notes=notes)\n',
                '        rxn = _FROM_STRING_CACHE[cache_key] = cls(reactants=reactants,\n'
                '                   reactants_stoich=react_stoich,\n'
                '                   products=products,\n                   products_stoich=prod_stoich,\n'
                '                   transition_state=ts,\n                   transition_state_stoich=ts_stoich,\n'
                '                   notes=notes)\n        return rxn\n')]},
    {'name': 'from_string remembers its reactions per species dictionary, whatever the delimiters and options',
     'expect': ('EFFECT.parse-state', 'Reaction.from_string'),
     'edits': [(R_, 'class Reaction(_pmuttBase):\n', '_FROM_STRING_CACHE = {}\n\n\nclass Reaction(_pmuttBase):\n'),
               (R_, '            species = pmutt_list_to_dict(species)\n\n        (react_names, react_stoich,',
                '            species = pmutt_list_to_dict(species)\n\n'
                '        cache_key = (cls, reaction_str, tuple(species.values()))\n'
                '        if cache_key in _FROM_STRING_CACHE:\n            return _FROM_STRING_CACHE[cache_key]\n\n'
                '        (react_names, react_stoich,'),
               (R_, '        return cls(reactants=reactants,\n                   reactants_stoich=react_stoich,\n'
                    '                   products=products,\n                   products_stoich=prod_stoich,\n'
                    '                   transition_state=ts,\n                   transition_state_stoich=ts_stoich,\n'
                    '                   notes=notes)\n',
                '        rxn = _FROM_STRING_CACHE[cache_key] = cls(reactants=reactants,\n'
                '                   reactants_stoich=react_stoich,\n'
                '                   products=products,\n                   products_stoich=prod_stoich,\n'
                '                   transition_state=ts,\n                   transition_state_stoich=ts_stoich,\n'
                '                   notes=notes)\n        return rxn\n')]},
    {'name': 'RING reader remembers the reactions of a file', 'expect': ('EFFECT.parse-state', 'ring.read_reactions'),
     'edits': [('pmutt/io/ring.py', '    rxns = []\n    with open(filename',
                '    if (filename, species_delimiter, reaction_delimiter, raise_error) in _FILES:\n'
                '        return _FILES[filename, species_delimiter, reaction_delimiter, raise_error]\n'
                '    rxns = []\n    with open(filename'),
               ('pmutt/io/ring.py', '    return Reactions(reactions=rxns)\n',
                '    out = _FILES[filename, species_delimiter, reaction_delimiter, raise_error] = Reactions(reactions=rxns)\n'
                '    return out\n'),
               ('pmutt/io/ring.py', 'def read_reactions(filename,', '_FILES = {}\n\n\ndef read_reactions(filename,')]},
    {'name': 'to_string remembers the text it printed', 'expect': ('EFFECT.print-state', 'to_string'),
     'edits': [(R_, '        # Write reactants\n        reaction_str = _write_reaction_state(\n'
                    '            species=self.reactants,\n            stoich=self.reactants_stoich,\n'
                    '            species_delimiter=species_delimiter,\n            stoich_format=stoich_format,\n',
                '        if getattr(self, "_printed", None) is not None:\n            return self._printed\n'
                '        reaction_str = _write_reaction_state(\n'
                '            species=self.reactants,\n            stoich=self.reactants_stoich,\n'
                '            species_delimiter=species_delimiter,\n            stoich_format=stoich_format,\n'),
               (R_, '            stoich_space=stoich_space,\n            key=key)\n        return reaction_str\n',
                '            stoich_space=stoich_space,\n            key=key)\n        self._printed = reaction_str\n'
                '        return reaction_str\n')]},
    {'name': 'to_string remembers the text per delimiters and format', 'expect': ('EFFECT.print-state', 'to_string'),
     'edits': [(R_, '        # Write reactants\n        reaction_str = _write_reaction_state(\n'
                    '            species=self.reactants,\n            stoich=self.reactants_stoich,\n'
                    '            species_delimiter=species_delimiter,\n            stoich_format=stoich_format,\n',
                '        memo_key = (species_delimiter, reaction_delimiter, stoich_format, include_TS, stoich_space, key)\n'
                '        if not hasattr(self, "_printed"):\n            self._printed = {}\n'
                '        if memo_key in self._printed:\n            return self._printed[memo_key]\n'
                '        reaction_str = _write_reaction_state(\n'
                '            species=self.reactants,\n            stoich=self.reactants_stoich,\n'
                '            species_delimiter=species_delimiter,\n            stoich_format=stoich_format,\n'),
               (R_, '            stoich_space=stoich_space,\n            key=key)\n        return reaction_str\n',
                '            stoich_space=stoich_space,\n            key=key)\n        self._printed[memo_key] = reaction_str\n'
                '        return reaction_str\n')]},
    {'name': 'repeated species added to a (name, coefficient) tuple', 'expect': ('REF.parse', 'from_string'),
     'edits': [(R_, '        try:\n            i = species.index(specie)\n        except ValueError:\n'
                    '            species.append(specie)\n            stoichiometry.append(specie_stoich)\n'
                    '        else:\n            stoichiometry[i] += specie_stoich\n    return (species, stoichiometry)',
                '        for term in terms:\n            if term[0] == specie:\n                term[1] += specie_stoich\n'
                '                break\n        else:\n            terms.append((specie, specie_stoich))\n'
                '    species = [term[0] for term in terms]\n    stoichiometry = [term[1] for term in terms]\n'
                '    return (species, stoichiometry)'),
               (R_, '    species = []\n    stoichiometry = []\n    for specie in species_str:',
                '    terms = []\n    for specie in species_str:')]},
    {'name': 'element totals compared in the order of their first occurrence', 'expect': ('REF.balance', 'check_element_balance'),
     'edits': [(R_, '        if reactant_elements != product_elements:\n',
                '        if list(reactant_elements.items()) != list(product_elements.items()):\n')]},
    {'name': 'element totals of the transition state compared in the order of their first occurrence',
     'expect': ('REF.balance', 'check_element_balance'),
     'edits': [(R_, '            if reactant_elements != TS_elements:\n',
                '            if list(reactant_elements.items()) != list(TS_elements.items()):\n')]},
    {'name': 'parser strips blanks only, not tabs', 'expect': ('REF.parse', 'from_string'),
     'edits': [(R_, "        # Strip spaces for easier searching\n        specie = specie.strip()\n",
                "        specie = specie.strip(' ')\n"),
               (R_, '            specie = specie[trim_len:].strip()\n', "            specie = specie[trim_len:].strip(' ')\n")]},
]
# armed when the interpreter's model of a file knows what they break (see file_model)
FILE_PEEK_MUTANT = {
    'name': 'RING reader looks through the open file before it reads it', 'expect': ('REF.parse', 'ring.read_reactions'),
    'edits': [('pmutt/io/ring.py', "    with open(filename, 'r') as f_ptr:\n        for line in f_ptr:\n",
               "    with open(filename, 'r') as f_ptr:\n"
               "        if not any(reaction_delimiter in line for line in f_ptr):\n"
               "            print('no reaction in', filename)\n        for line in f_ptr:\n")]}
FILE_LAZY_MUTANT = {
    'name': 'RING reader builds its reactions lazily and lists them after the file was closed',
    'expect': ('', 'ring.read_reactions'),
    'edits': [('pmutt/io/ring.py', "        for line in f_ptr:\n            # Skip lines that do not have a reaction\n"
                                   "            if reaction_delimiter not in line:\n                continue\n"
                                   "            reaction_str = line.replace('\\n', '')\n"
                                   "            rxn = Reaction.from_string(reaction_str=reaction_str,\n",
               "        lines = (line for line in f_ptr if reaction_delimiter in line)\n"
               "    if True:\n        for line in lines:\n"
               "            reaction_str = line.replace('\\n', '')\n"
               "            rxn = Reaction.from_string(reaction_str=reaction_str,\n")]}
# armed together with the instances it needs (see counter_model_drops_zero)
ZERO_COUNT_MUTANT = {
    'name': 'element totals kept in a plain dict (a count of zero survives)', 'expect': ('REF.balance', 'check_element_balance'),
    'edits': [(R_, '    element_count = Counter()\n', '    element_count = {}\n'),
              (R_, '            element_count += Counter({element: coeff * stoich_specie})\n',
               '            element_count[element] = (element_count.get(element, 0.)\n'
               '                                      + coeff * stoich_specie)\n')]}
# behaviour-preserving refactorings of the white-box review, round 3 (reduced to their essential edits): no new finding
EQUIV = [
    {'name': 'coefficient and name read through named groups and match.groupdict()',
     'edits': [(R_, "        stoich_search = re.search(r'^\\d+\\.?\\d*', specie)\n        if stoich_search is None:\n",
                "        term = re.match(r'(?s)(?P<stoich>\\d+\\.?\\d*)?(?P<name>.*)', specie).groupdict()\n"
                "        if term['stoich'] is None:\n"),
               (R_, '            specie_stoich = stoich_search.group()\n            trim_len = len(specie_stoich)\n'
                    '            specie = specie[trim_len:].strip()\n            specie_stoich = float(specie_stoich)\n',
                "            specie = term['name'].strip()\n            specie_stoich = float(term['stoich'])\n")]},
    {'name': 'parse_formula totals in a defaultdict(int), returned as a dict',
     'edits': [('pmutt/__init__.py', '    elements = {}\n', '    from collections import defaultdict\n'
                                                                '    elements = defaultdict(int)\n'),
               ('pmutt/__init__.py', "        elements[element] = elements.get(element, 0) + int(coefficient or '1')\n"
                                     "    return elements\n",
                "        elements[element] += int(coefficient or '1')\n    return dict(elements)\n")]},
    {'name': 'printer joins coefficient, name and delimiter with the % operator',
     'edits': [(R_, "                specie_str = '{} {}'.format(stoich_val, specie_key)", "                specie_str = '%s %s' % (stoich_val, specie_key)"),
               (R_, "                specie_str = '{}{}'.format(stoich_val, specie_key)", "                specie_str = '%s%s' % (stoich_val, specie_key)"),
               (R_, "            reaction_str += '{}{}'.format(species_delimiter, specie_str)",
                "            reaction_str += '%s%s' % (species_delimiter, specie_str)")]},
]
