"""C05 - thermdat files written by pMuTT read back to the same species.

write_thermdat and read_thermdat are interpreted over abstract strings
(literal text + symbolic fields of known width): the writer's output for
symbolic species is fed to the reader and the species it builds are compared
attribute by attribute with the originals, for every enumerated combination
of field widths.
"""
import itertools

from ..absstr import SegStr, spec_sigdigits
from ..nf import Rat, C
from ..source import Unsupported, AnchorError
from ..xlate import Interp, Obj, ListV, DictV, Raised, RankOrder
from .common import same, show

TD = 'pmutt.io.thermdat'
Z = '\x00'


def make_species(I, idx, name_w, notes, elements, temps_w, phase_w=1):
    """elements: list of (symbol width, count digits or 0 for a zero-count entry)"""
    D = I.D
    tag = 's%d' % idx
    if isinstance(name_w, str):
        name = name_w                   # a concrete name
    else:
        name = Z + tag + '.name'
        I.sym_strings[name] = (name_w, 'text')
    phase = Z + tag + '.phase'
    I.sym_strings[phase] = (phase_w, 'text')
    if notes is None or notes == '':
        nv = notes
    else:
        nv = Z + tag + '.notes'
        I.sym_strings[nv] = (notes, 'text')
    el = DictV()
    for k, (sw, digits) in enumerate(elements):
        sym = Z + '%s.el%d' % (tag, k)
        I.sym_strings[sym] = (sw, 'alpha')
        cnt = D.sym('%s.n%d' % (tag, k))
        I.order.ranks['%s.n%d' % (tag, k)] = 5 * 10 ** (digits - 1) if digits else 0   # a witness with that many digits
        I.int_syms.add('%s.n%d' % (tag, k))           # element counts are whole numbers
        if digits:
            I.num_widths[repr(cnt)] = digits
        el.d[sym] = cnt
    attrs = {'name': name, 'notes': nv, 'phase': phase, 'elements': el}
    for tn, w in zip(('T_low', 'T_high', 'T_mid'), temps_w):
        t = D.sym('%s.%s' % (tag, tn))
        I.num_widths[repr(t)] = w
        attrs[tn] = t
    for vn in ('a_low', 'a_high'):
        v = ListV([D.sym('%s.%s[%d]' % (tag, vn, i)) for i in range(7)])
        v.is_array = True
        attrs[vn] = v
    return Obj(tag, attrs=attrs)


def printed_ok(spec, need):
    """does a number printed with ``spec`` come back within the tolerance the property states?  need: 'T' (0.1 K:
    fixed notation with at least one decimal) or 'coef' (nine significant digits)"""
    import re as _re
    mm = _re.match(r'^%?[ +\-#0]*\d*(?:\.(\d+))?([a-zA-Z])$', spec or '')
    if not mm:
        return False
    prec, typ = mm.group(1), mm.group(2)
    prec = int(prec) if prec is not None else 6
    if need == 'T':
        return (typ in 'fF' and prec >= 1) or (typ in 'eE' and prec >= 5)
    if need == 'coef':
        return typ in 'eE' and prec >= 8
    return False


def val_eq(I, a, b, need=None):
    a, b = I.plain(a), I.plain(b)
    if isinstance(a, Rat) and isinstance(b, Rat):
        if a.eq(b):
            return True
        # a number read back from its printed form: the printed value, if the format keeps the stated precision
        ats = list(a.atoms())
        if len(ats) == 1 and ats[0] in I.printed and a.eq(Rat.atom(ats[0])):
            spec, v = I.printed[ats[0]]
            return v.eq(b) and printed_ok(spec, need)
        return False
    if isinstance(a, ListV) and isinstance(b, ListV):
        return len(a) == len(b) and all(val_eq(I, x, y, need) for x, y in zip(a.items, b.items))
    if isinstance(a, DictV) and isinstance(b, DictV):
        return set(a.d) == set(b.d) and all(val_eq(I, a.d[k], b.d[k], need) for k in a.d)
    if isinstance(a, (Rat, ListV, DictV, SegStr)) or isinstance(b, (Rat, ListV, DictV, SegStr)):
        return False
    return a == b


def roundtrip(run, repo, label, specs, write_date=False, as_dict=False, fmt='list', supp=None, order=None,
              to_file=False, sign=None):
    m = repo.module(TD)
    wfn, rfn = m.functions.get('write_thermdat'), m.functions.get('read_thermdat')
    if wfn is None or rfn is None:
        raise AnchorError('write_thermdat/read_thermdat not found')
    I = Interp(repo, order=RankOrder({}, const_ranks=True))
    I.track_print_precision = True      # what is read back is the number as printed, not the number that was printed
    I.sign_policy = sign                # None: any sign; 'nonnegative' / 'negative': all numbers of this run
    built = []

    def nasa_stub(I_, fr, args, kwargs):
        o = Obj('read#%d' % len(built), attrs=dict(kwargs))
        built.append(o)
        return o
    I.opaque_classes['pmutt.empirical.nasa.Nasa'] = nasa_stub

    def now(I_, fr, args, kwargs, n):
        o = Obj('now')
        def strftime(I2, o2, a, k):
            fmt_ = a[0] if a else k.get('format')
            if not isinstance(fmt_, str):
                raise Unsupported('strftime with a symbolic format')
            widths = {'Y': 4, 'm': 2, 'd': 2, 'H': 2, 'M': 2, 'S': 2, 'y': 2, 'j': 3, 'f': 6, '%': 1}
            w, i_ = 0, 0
            while i_ < len(fmt_):
                if fmt_[i_] == '%' and i_ + 1 < len(fmt_):
                    if fmt_[i_ + 1] not in widths:
                        raise Unsupported('strftime directive %%%s' % fmt_[i_ + 1])
                    w += widths[fmt_[i_ + 1]]
                    i_ += 2
                else:
                    w += 1
                    i_ += 1
            return SegStr.field('date', w, 'num')
        o.opaque_methods['strftime'] = strftime
        return o
    I.native['datetime.datetime.now'] = now
    species = [make_species(I, i, *sp) for i, sp in enumerate(specs)]
    if order is not None:
        species = [species[i] for i in order]          # a sequence may hold the same species (name) more than once
    coll = DictV({sp.attrs['name']: sp for sp in species}) if as_dict else ListV(list(species))
    wkw = {'nasa_species': coll, 'write_date': write_date}
    expect = list(species)
    if supp is not None:
        # supplementary entries: records of another species as write_thermdat itself lays them out, and a comment
        # block; both with and without a final newline (documented options, any combination)
        data_nl, txt, txt_nl = supp
        extra = make_species(I, 9, 5, None, [(1, 1), (1, 2)], (5, 6, 6))
        if data_nl is not None:
            t0 = I.call_function(m, wfn, [], {'nasa_species': ListV([extra]), 'write_date': False})
            if isinstance(t0, Raised) or not isinstance(t0, (SegStr, str)):
                return {'I': I, 'species': species, 'text': t0, 'read': None, 'built': built, 'write_error': t0}
            recs = I.seg(t0).splitlines()[2:6]
            sd = SegStr([])
            for r_ in recs:
                sd = sd + r_
            if not data_nl:
                sd = sd.strip('rstrip', '\n')
            wkw['supp_data'] = sd
            expect = [extra] + expect
        if txt:
            wkw['supp_txt'] = '! species fitted in this work' + ('\n' if txt_nl else '')
    if to_file:
        # the file branch of the writer: what ends up in the file is what a reader gets
        wkw['filename'] = 'thermdat'
    text = I.call_function(m, wfn, [], wkw)
    species = expect
    res = {'I': I, 'species': species, 'text': text, 'read': None, 'built': built}
    if to_file:
        if isinstance(text, Raised):
            res['write_error'] = text
            return res
        res['lines'] = list(I.files.get('thermdat', []))
        if not res['lines']:
            res['write_error'] = 'nothing was written to the file'
            return res
    else:
        if isinstance(text, Raised) or not isinstance(text, (SegStr, str)):
            res['write_error'] = text
            return res
        text = I.seg(text)
        res['lines'] = text.splitlines()
        I.files['thermdat'] = res['lines']
    I.hazards = []
    I.cuts = []
    out = I.call_function(m, rfn, [], {'filename': 'thermdat', 'format': fmt})
    res['read'] = out
    return res


def layout_rules(run, repo, res, label):
    m = repo.module(TD)
    I = res['I']
    lines = res['lines']
    n_sp = len(res['species'])
    # header (2 lines), 4 records per species, END
    rec = lines[2:2 + 4 * n_sp]
    ok_n = len(lines) == 3 + 4 * n_sp
    wfn = m.functions['write_thermdat']
    run.check(ok_n, 'TABLE.records', 'thermdat.write_thermdat', 'record count',
              '[%s] %d lines written for %d species, expected a 2-line header, 4 records per species and END'
              % (label, len(lines), n_sp), m, wfn)
    if not ok_n:
        return
    for k, line in enumerate(rec):
        num = k % 4 + 1
        fn = m.functions.get('_write_line%d' % num, wfn)     # where to point the report; the rule does not depend on it
        ok_len = len(line) == 81
        digit = None
        if ok_len:
            try:
                d_ = line.slice(79, 80)
                digit = d_.literal() if d_.is_literal() else None
            except Exception:
                digit = None
        run.check(ok_len and digit == str(num), 'TABLE.col80', 'thermdat.write_thermdat record %d' % num, 'record digit',
                  '[%s] record %d is %d characters long with %r in column 80; the Chemkin layout needs the record '
                  'number %d in column 80 of an 80-column line' % (label, num, len(line) - 1, digit, num), m, fn)
        if num > 1 and ok_len:
            nf = 5 if num < 4 else 4
            ok = True
            for j in range(nf):
                try:
                    f = line.slice(15 * j, 15 * j + 15).single_field()
                except Exception:
                    f = None
                ok = ok and f is not None and f.cls == 'num'
                if f is not None and f.spec is not None:
                    sd = spec_sigdigits(f.spec)
                    run.check(sd is not None and sd >= 9, 'TABLE.precision', 'thermdat.write_thermdat record %d' % num,
                              'coefficient precision', 'coefficients are written with %s significant digits, the '
                              'property needs nine (spec %r)' % (sd, f.spec), m, fn)
            run.check(ok, 'TABLE.fields', 'thermdat.write_thermdat record %d' % num, 'five 15-column fields',
                      '[%s] record %d does not consist of %d coefficient fields of 15 characters: %s'
                      % (label, num, nf, show(line, 200)), m, fn)
        if num == 1 and ok_len:
            fn1 = m.functions.get('_write_line1', wfn)
            sp = res['species'][k // 4]
            # composition cells: symbols start at columns 25/30/35/40, counts end at 29/34/39/44, phase column 45
            cell = 0
            good = True
            why = ''
            for sym, cnt in sp.attrs['elements'].d.items():
                if I.order.ranks.get(list(cnt.atoms())[0], 1) <= 0:
                    continue
                a = 24 + 5 * cell
                try:
                    c5 = line.slice(a, a + 5)
                    segs = [s for s in c5.segs if not (s.kind == 'lit' and s.text.strip() == '')]
                    starts_ok = c5.segs and c5.segs[0].kind == 'field' and c5.segs[0].value == sym
                    ends_ok = c5.segs and c5.segs[-1].kind == 'field' and isinstance(c5.segs[-1].value, Rat) \
                        and c5.segs[-1].value.eq(cnt)
                    if not (len(segs) == 2 and starts_ok and ends_ok):
                        good = False
                        why = 'cell %d (columns %d-%d) holds %s' % (cell + 1, a + 1, a + 5, show(c5, 80))
                except Exception as e:
                    good = False
                    why = 'cell %d: %s' % (cell + 1, e)
                cell += 1
            try:
                ph = line.slice(44, 45).single_field()
                if ph is None or ph.value != sp.attrs['phase']:
                    good = False
                    why = 'column 45 holds %s, not the phase' % show(line.slice(44, 45), 60)
            except Exception as e:
                good = False
                why = 'column 45: %s' % e
            run.check(good, 'TABLE.line1', 'thermdat.write_thermdat record 1', 'composition/phase columns',
                      '[%s] element symbols must start at columns 25/30/35/40, counts end at 29/34/39/44 and the phase '
                      'sit in column 45: %s' % (label, why), m, fn1)


def compare_species(run, repo, res, label, key_suffix=''):
    m = repo.module(TD)
    I = res['I']
    rfn = m.functions['read_thermdat']
    out = res['read']
    species = res['species']
    if isinstance(out, Raised):
        where = out.node
        run.fail('TABLE.readback', 'thermdat.read_thermdat', 'raises' + key_suffix,
                 '[%s] reading back the file pMuTT wrote raises %s' % (label, out.exc), m,
                 where if hasattr(where, 'lineno') else rfn)
        return False
    if isinstance(out, DictV):
        items = list(out.d.values())
        keys_ok = [I.plain(k) for k in out.d] == [sp.attrs['name'] for sp in species]
        run.check(keys_ok, 'TABLE.readback', 'thermdat.read_thermdat', 'dict keys' + key_suffix,
                  '[%s] dictionary keys are not the species names in order' % label, m, rfn)
    elif isinstance(out, ListV):
        items = out.items
    else:
        run.fail('TABLE.readback', 'thermdat.read_thermdat', 'result' + key_suffix,
                 '[%s] unexpected result %s' % (label, show(out)), m, rfn)
        return False
    ok = run.check(len(items) == len(species), 'TABLE.readback', 'thermdat.read_thermdat', 'species count' + key_suffix,
                   '[%s] %d species written, %d read back (dropped, duplicated or merged)'
                   % (label, len(species), len(items)), m, rfn)
    if not ok:
        return False
    good = True
    for sp, rd in zip(species, items):
        for attr in ('name', 'phase', 'elements', 'T_low', 'T_high', 'T_mid', 'a_low', 'a_high'):
            want = sp.attrs[attr]
            if attr == 'elements':
                want = DictV({k: v for k, v in want.d.items()
                              if I.order.ranks.get(list(v.atoms())[0], 1) > 0})
            got = rd.attrs.get(attr)
            fnr = m.functions.get('_read_line1' if attr in ('name', 'phase', 'elements', 'T_low', 'T_high', 'T_mid')
                                  else '_read_line2', rfn)       # where to point the report only
            need = 'T' if attr.startswith('T_') else ('coef' if attr.startswith('a_') else None)
            if not run.check(val_eq(I, got, want, need), 'TABLE.readback', 'thermdat.read_thermdat', 'attr:' + attr + key_suffix,
                             '[%s] %s of species %s reads back as %s, written from %s'
                             % (label, attr, sp.name, show(I.plain(got), 120), show(want, 120)), m, fnr,
                             sample='[%s] %s.%s survives write->read' % (label, sp.name, attr)
                             if attr in ('elements', 'a_high') and sp.name == 's0' else None):
                good = False
    return good


def check(run, repo):
    run.explanation = (
        'write_thermdat and read_thermdat (with _write_line1-4, _insert_space, _read_line1-4, _get_fields, '
        '_is_temperature_header, _read_line_num) are interpreted over abstract strings: literal text plus symbolic '
        'fields of known width (names, notes, element symbols, phases as user text; counts, temperatures and '
        'coefficients as formatted numbers). For every enumerated combination of field widths (name 1/8/15, notes '
        'absent/5/8 or date, 1-4 elements with 1-2 letter symbols and 1-3 digit counts plus zero-count entries, '
        'temperatures of 3-6 characters, 1-3 species, list and dict input, list/tuple/dict output) the writer\'s '
        'abstract output is checked against the Chemkin column layout and fed to the reader; the species it builds '
        'must equal the originals attribute by attribute and in order. Operations that cut through a field, '
        'conversions of text that is not exactly one number, and substring tests whose outcome depends on user-'
        'controlled text on a record line are reported.')
    run.assumptions = ['E-format numbers with |exponent| < 100 have a value-independent width (coefficients of '
                       'magnitude 1e-30..1e30)', 'user text fields contain no blanks (property: non-blank characters)']
    run.undecided = ['float()/int() on concrete digit strings and file I/O', 'values of 3-digit exponents']
    thorough = run.tier == 'thorough'
    n_cases = 0
    temps = [(5, 6, 6), (3, 5, 4)]
    names = [1, 8, 15]
    notes = [None, '', 5, 8]
    el_cfgs = []
    for n in (1, 2, 3, 4):
        el_cfgs.append([(1, 1)] * n)
        el_cfgs.append([(2, 2)] * n)
        el_cfgs.append([(1, 3)] * n)
        el_cfgs.append([(2, 1)] * n)
        if n > 1:
            el_cfgs.append([(1, 1), (2, 2), (1, 3), (2, 1)][:n])
            el_cfgs.append([(2, 1), (1, 0), (1, 2), (2, 2)][:n])     # with a zero-count entry
    el_cfgs.append([(2, 3)])                                            # two-letter symbol, three-digit count
    el_cfgs.append([(1, 1), (2, 3), (1, 1)])
    cases = []
    for ec in el_cfgs:
        cases.append((names[len(cases) % 3], notes[len(cases) % 4], ec, temps[len(cases) % 2]))
    if thorough:
        for nw, nt, tw in itertools.product(names, notes, temps):
            for ec in el_cfgs[:10]:
                cases.append((nw, nt, ec, tw))
    # concrete names that are not in alphabetical order (nor in reverse): the order of the collection is kept
    named = [('ZRO2', 5, [(1, 1), (2, 2)], (5, 6, 6)), ('AR', None, [(1, 2)], (3, 5, 4)),
             ('CH4(S)', 5, [(1, 1), (1, 1)], (5, 6, 6))]
    for as_dict, fmt in ((True, 'dict'), (True, 'list'), (False, 'list')):
        label = 'concrete names ZRO2, AR, CH4(S) input=%s format=%s' % ('dict' if as_dict else 'list', fmt)
        res = roundtrip(run, repo, label, named, as_dict=as_dict, fmt=fmt)
        n_cases += 1
        if 'write_error' in res:
            run.fail('TABLE.write', 'thermdat.write_thermdat', 'raises', '[%s] writing raises %s'
                     % (label, show(res['write_error'])), repo.module(TD), repo.module(TD).functions['write_thermdat'])
            continue
        compare_species(run, repo, res, label, ' [concrete names]')
    hazards_seen = {}
    for case in cases:
        label = 'name=%d notes=%s elements=%s temps=%s' % (case[0], case[1], case[2], case[3])
        res = roundtrip(run, repo, label, [case])
        n_cases += 1
        if 'write_error' in res:
            run.fail('TABLE.write', 'thermdat.write_thermdat', 'raises', '[%s] writing raises %s'
                     % (label, show(res['write_error'])), repo.module(TD), repo.module(TD).functions['write_thermdat'])
            continue
        layout_rules(run, repo, res, label)
        wide = any(sw == 2 and dg == 3 for sw, dg in case[2])
        compare_species(run, repo, res, label, ' [2-letter symbol with 3-digit count]' if wide else '')
        for node, txt in res['I'].hazards:
            hazards_seen.setdefault(getattr(node, 'lineno', 0), (node, txt))
    # several species, mixed; dict input; output formats; date stamp
    multi = [(8, 5, [(1, 1), (2, 2), (1, 3)], (5, 6, 6)), (3, None, [(2, 1)], (3, 5, 4)),
             (15, 8, [(1, 2), (1, 1)], (6, 6, 6))]
    for as_dict in (False, True):
        for fmt in ('list', 'tuple', 'dict'):
            for wd in (False, True):
                label = '3 species input=%s format=%s date=%s' % ('dict' if as_dict else 'list', fmt, wd)
                res = roundtrip(run, repo, label, multi, write_date=wd, as_dict=as_dict, fmt=fmt)
                n_cases += 1
                if 'write_error' in res:
                    run.fail('TABLE.write', 'thermdat.write_thermdat', 'raises', '[%s] writing raises %s'
                             % (label, show(res['write_error'])), repo.module(TD),
                             repo.module(TD).functions['write_thermdat'])
                    continue
                layout_rules(run, repo, res, label)
                compare_species(run, repo, res, label)
    # a sequence in which one species (one name) occurs more than once: a sequence is written entry by entry, in order
    for order, fmt in (((0, 1, 0), 'list'), ((0, 0), 'tuple'), ((1, 0, 2, 0, 1), 'list')):
        label = 'sequence with repeated species %s format=%s' % (list(order), fmt)
        res = roundtrip(run, repo, label, multi, fmt=fmt, order=order)
        n_cases += 1
        if 'write_error' in res:
            run.fail('TABLE.write', 'thermdat.write_thermdat', 'raises', '[%s] writing raises %s'
                     % (label, show(res['write_error'])), repo.module(TD), repo.module(TD).functions['write_thermdat'])
            continue
        compare_species(run, repo, res, label, ' [repeated species]')
    # further shapes of the input: names as long as the keywords END / THERMO, five composition entries of which one
    # has the count zero (four remain to be written), notes longer than their field (they are cut, nothing else moves),
    # and the same species written to a file instead of returned
    more = [('name as long as END', [(3, 5, [(1, 1), (2, 2)], (5, 6, 6)), (6, None, [(1, 2)], (3, 5, 4))], {}),
            ('zero count among five composition entries', [(8, 5, [(1, 1), (1, 3), (2, 2), (1, 0), (1, 1)], (5, 6, 6))], {}),
            ('zero count first of five composition entries', [(8, 5, [(2, 0), (1, 3), (2, 2), (1, 1), (1, 2)], (5, 6, 6))], {}),
            ('notes longer than the field', [(8, 12, [(1, 1), (2, 2)], (5, 6, 6)), (3, 20, [(2, 1)], (3, 5, 4))], {}),
            # written to a file, first with the sign of every number fixed (a blank sign column is a blank like any
            # other), then with numbers of any sign
            ('written to a file, numbers not negative', multi, {'to_file': True, 'sign': 'nonnegative'}),
            ('written to a file, numbers negative', multi[:1], {'to_file': True, 'sign': 'negative'}),
            ('written to a file', multi, {'to_file': True}),
            ('written to a file with date', multi, {'to_file': True, 'write_date': True})]
    for label, specs, kw_ in more:
        res = roundtrip(run, repo, label, specs, **kw_)
        n_cases += 1
        if 'write_error' in res:
            run.fail('TABLE.write', 'thermdat.write_thermdat', 'raises', '[%s] writing raises %s'
                     % (label, show(res['write_error'])), repo.module(TD), repo.module(TD).functions['write_thermdat'])
            continue
        if 'notes' not in label:
            layout_rules(run, repo, res, label)
        compare_species(run, repo, res, label, ' [%s]' % label)
        for node, txt in res['I'].hazards:
            hazards_seen.setdefault(getattr(node, 'lineno', 0), (node, txt))
    # supplementary data / comment block in every combination of presence and final newline
    for data_nl, txt, txt_nl in ((True, False, False), (False, False, False), (None, True, True), (None, True, False),
                                 (True, True, True), (False, True, True), (True, True, False), (False, True, False)):
        label = 'supp_data=%s supp_txt=%s' % (
            {None: 'absent', True: 'ends with newline', False: 'no final newline'}[data_nl],
            'absent' if not txt else ('ends with newline' if txt_nl else 'no final newline'))
        res = roundtrip(run, repo, label, [multi[0]], supp=(data_nl, txt, txt_nl))
        n_cases += 1
        if 'write_error' in res:
            run.fail('TABLE.write', 'thermdat.write_thermdat', 'raises', '[%s] writing raises %s'
                     % (label, show(res['write_error'])), repo.module(TD), repo.module(TD).functions['write_thermdat'])
            continue
        # every record keeps a line of its own
        recs = [ln for ln in res['lines'] if len(ln.fields()) and not (ln.segs[0].kind == 'lit' and
                                                                      ln.segs[0].text.startswith('!'))]
        shared = [ln for ln in res['lines'] if '!' in ''.join(s_.text for s_ in ln.segs if s_.kind == 'lit')
                  and len(ln.fields())]
        run.check(not shared, 'TABLE.records', 'thermdat.write_thermdat', 'supplementary blocks on their own lines',
                  '[%s] a record shares its line with the comment block: %s' % (label, show(shared[0], 160) if shared
                                                                               else ''),
                  repo.module(TD), repo.module(TD).functions['write_thermdat'])
        compare_species(run, repo, res, label, ' [%s]' % label)
    run.floor('thermdat cases', n_cases, 39)
    run.extra['cases'] = n_cases
    # record lines must never be classified by a test that depends on user-controlled text
    m = repo.module(TD)
    rfn = m.functions['read_thermdat']
    for f_ in ('read_thermdat', 'write_thermdat'):
        run.fn(TD + '.' + f_)
    for ln, (node, txt) in sorted(hazards_seen.items()):
        from ..source import norm
        if "comparison with '!'" in txt:
            # '!' in column 1 is the Chemkin comment marker: a name starting with it is ambiguous in the file
            # format itself, whatever the reader does
            continue
        run.fail('PATH.record-safe', 'thermdat.read_thermdat', 'skip-test:' + norm(node)[:60],
                 'a species record can be skipped (and the following records merged into the previous species) '
                 'because the line classifier uses %s' % txt[:160], m, node)
    if not hazards_seen:
        run.ok('PATH.record-safe', 'thermdat.read_thermdat')


T_ = 'pmutt/io/thermdat.py'
MUTANTS = [
    {'name': 'date stamp with dashes', 'expect': ('TABLE', 'write_thermdat'),
     'edits': [(T_, "now.strftime('%Y%m%d')", "now.strftime('%Y-%m-%d')")]},
    {'name': 'lower temperature bound written without a decimal', 'expect': ('TABLE.readback', 'read_thermdat'),
     'edits': [(T_, "'%.1f' % nasa_specie.T_low", "'%.0f' % nasa_specie.T_low")]},
    {'name': 'notes written in full', 'expect': ('TABLE', ''),
     'edits': [(T_, "notes = nasa_specie.notes[:8]", "notes = nasa_specie.notes")]},
    {'name': 'one coefficient with 7 decimals', 'expect': ('TABLE', 'write_thermdat record'),
     'edits': [(T_, "line = ('{: 2.8E}{: 2.8E}{: 2.8E}{: 2.8E}{: 2.8E}    2\\n'", "line = ('{: 2.8E}{: 2.7E}{: 2.8E}{: 2.8E}{: 2.8E}    2\\n'")]},
    {'name': 'line 3 swaps a_high[5] and a_high[6]', 'expect': ('TABLE.readback', 'read_thermdat'),
     'edits': [(T_, "nasa_specie.a_high[5], nasa_specie.a_high[6], nasa_specie.a_low[0],", "nasa_specie.a_high[6], nasa_specie.a_high[5], nasa_specie.a_low[0],")]},
    {'name': 'phase written one column later', 'expect': ('TABLE', ''),
     'edits': [(T_, '        44,  # Phase\n        45,  # T_low', '        45,  # Phase\n        46,  # T_low')]},
    {'name': 'reader offset 14', 'expect': ('TABLE.readback', 'read_thermdat'),
     'edits': [(T_, "    positions = [0, 15, 30, 45, 60]\n    offset = 15\n\n    nasa_data['a_high'] = np.zeros(7)", "    positions = [0, 15, 30, 45, 60]\n    offset = 14\n\n    nasa_data['a_high'] = np.zeros(7)")]},
    {'name': 'species appended on record 3', 'expect': ('TABLE.readback', 'read_thermdat'),
     'edits': [(T_, "                nasa_data = _read_line3(line, nasa_data)\n", "                nasa_data = _read_line3(line, nasa_data)\n                species.append(Nasa(**nasa_data))\n")]},
    {'name': 'reader swaps T_high and T_mid', 'expect': ('TABLE.readback', 'read_thermdat'),
     'edits': [(T_, "    nasa_data['T_high'] = float(fields[1])\n    nasa_data['T_mid'] = float(fields[2])", "    nasa_data['T_high'] = float(fields[2])\n    nasa_data['T_mid'] = float(fields[1])")]},
    {'name': 'elements dictionary shared between species', 'expect': ('TABLE.readback', 'read_thermdat'),
     'edits': [(T_, "    nasa_data['elements'] = {}\n", "    nasa_data['elements'] = _ELEMENTS\n"),
               (T_, "def _read_line1(line):", "_ELEMENTS = {}\n\n\ndef _read_line1(line):")]},
    {'name': 'file branch strips every line (the blank sign column of a non-negative coefficient goes)', 'expect': ('TABLE', ''),
     'edits': [(T_, "            f_ptr.write(lines_out)", "            for line in lines_out.splitlines():\n                f_ptr.write(line.strip() + newline)")]},
    {'name': 'dictionary input written in alphabetical order', 'expect': ('TABLE.readback', 'read_thermdat'),
     'edits': [(T_, "        nasa_iter = nasa_species.values()", "        nasa_iter = [nasa_species[key] for key in sorted(nasa_species)]")]},
]
EQUIV = [
    {'name': 'reader positions computed', 'edits': [(T_, "    positions = [0, 15, 30, 45]\n    offset = 15\n\n    j = 3", "    offset = 15\n    positions = [offset * k for k in range(4)]\n\n    j = 3")]},
]
