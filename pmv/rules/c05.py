"""C05 - thermdat files written by pMuTT read back to the same species.

write_thermdat and read_thermdat are interpreted over abstract strings
(literal text + symbolic fields of known width): the writer's output for
symbolic species is fed to the reader and the species it builds are compared
attribute by attribute with the originals, for every enumerated combination
of field widths.

Where the reader or the writer takes a decision that depends on how the user
spelled a text (a value-dependent test met on a record line / on a species),
the instance is repeated with concrete spellings that make the test come out
the other way: both outcomes must give back the species that were written.
What the symbolic run cannot vary - which character a name begins with, which
letter the phase is, how an element symbol is capitalised, how many decimals a
temperature has, the sign and magnitude of a coefficient - is enumerated with
species that are spelled out completely.
"""
import ast
import itertools
import re
from fractions import Fraction

from ..absstr import SegStr
from ..nf import Rat, C
from ..source import Unsupported, AnchorError, norm, params
from ..xlate import Interp, Obj, ListV, DictV, Raised, RankOrder, _RaisedExc
from .common import same, show

TD = 'pmutt.io.thermdat'
Z = '\x00'
FILL = 'Q'          # padding of a spelled-out text: no chemical meaning, in no keyword of the format
# the value that stands for a count with d digits when the code compares it: inside the class, its smallest and its
# largest member (a threshold that is off by one at a power of ten is decided differently at the two ends)
WITNESS = {'mid': lambda d: 5 * 10 ** (d - 1), 'lo': lambda d: 10 ** (d - 1), 'hi': lambda d: 10 ** d - 1}


def make_species(I, idx, name_w, notes, elements, temps_w, phase_w=1, coefs=None, counts='mid'):
    """elements: list of (symbol width or the symbol itself, count digits or 0 for a zero-count entry); name, notes and
    phase: a width (the text is symbolic) or the text itself; temperatures: a printed width (the number is symbolic) or
    the number itself (a Fraction / float); coefs: None (fourteen symbols) or (a_low, a_high) as numbers"""
    D = I.D
    tag = 's%d' % idx
    if isinstance(name_w, str):
        name = name_w                   # a concrete name
    else:
        name = Z + tag + '.name'
        I.sym_strings[name] = (name_w, 'text')
    if isinstance(phase_w, str):
        phase = phase_w
    else:
        phase = Z + tag + '.phase'
        I.sym_strings[phase] = (phase_w, 'text')
    if notes is None or isinstance(notes, str):
        nv = notes
    else:
        nv = Z + tag + '.notes'
        I.sym_strings[nv] = (notes, 'text')
    el = DictV()
    for k, (sw, digits) in enumerate(elements):
        if isinstance(sw, str):
            sym = sw                    # a concrete symbol
        else:
            sym = Z + '%s.el%d' % (tag, k)
            I.sym_strings[sym] = (sw, 'alpha')
        cnt = D.sym('%s.n%d' % (tag, k))
        I.order.ranks['%s.n%d' % (tag, k)] = WITNESS[counts](digits) if digits else 0   # a witness with that many digits
        I.int_syms.add('%s.n%d' % (tag, k))           # element counts are whole numbers
        if digits:
            I.num_widths[repr(cnt)] = digits
        el.d[sym] = cnt
    attrs = {'name': name, 'notes': nv, 'phase': phase, 'elements': el}
    for tn, w in zip(('T_low', 'T_high', 'T_mid'), temps_w):
        if isinstance(w, (Fraction, float)):
            t = C(Fraction(w))          # a concrete temperature: printed and read back as Python does it
        else:
            t = D.sym('%s.%s' % (tag, tn))
            I.num_widths[repr(t)] = w
        attrs[tn] = t
    for j, vn in enumerate(('a_low', 'a_high')):
        if coefs is not None:
            v = ListV([C(Fraction(x)) for x in coefs[j]])
        else:
            v = ListV([D.sym('%s.%s[%d]' % (tag, vn, i)) for i in range(7)])
        v.is_array = True
        attrs[vn] = v
    return Obj(tag, attrs=attrs)


_SPEC = re.compile(r'^%?(?:.?[<>=^])?[ +\-#0]*\d*[,_]?(?:\.(\d+))?([a-zA-Z])$')


def printed_ok(spec, need):
    """does a number printed with ``spec`` (%-style or format-style) come back within the tolerance the property
    states?  need: 'T' (0.1 K at up to 9999.9 K: fixed notation with a decimal, or six significant digits) or 'coef'
    (nine significant digits)"""
    mm = _SPEC.match(spec or '')
    if not mm:
        return False
    prec, typ = mm.group(1), mm.group(2)
    prec = int(prec) if prec is not None else 6
    if need == 'T':
        return (typ in 'fF' and prec >= 1) or (typ in 'eE' and prec >= 5) or (typ in 'gG' and prec >= 6)
    if need == 'coef':
        return (typ in 'eE' and prec >= 8) or (typ in 'gG' and prec >= 9)
    return False


def val_eq(I, a, b, need=None):
    a, b = I.plain(a), I.plain(b)
    if isinstance(a, Rat) and isinstance(b, Rat):
        if a.eq(b):
            return True
        if need == 'T' and all(x.is_const() or x.iszero() for x in (a, b)):
            # concrete temperatures: the tolerance the property states
            num = lambda x: Fraction(0) if x.iszero() else Fraction(x.const_value())
            return abs(num(a) - num(b)) <= Fraction(1, 10)
        if need == 'coef' and all(x.is_const() or x.iszero() for x in (a, b)):
            # concrete coefficients: nine significant digits (half a unit of the ninth)
            num = lambda x: Fraction(0) if x.iszero() else Fraction(x.const_value())
            return abs(num(a) - num(b)) <= abs(num(b)) * Fraction(5, 10 ** 9)
        # a number read back from its printed form (or through any other step that rounds, which the interpreter
        # records the same way): the value that went in, if every step keeps the stated precision
        ats = list(a.atoms())
        if len(ats) == 1 and ats[0] in I.printed and a.eq(Rat.atom(ats[0])):
            spec, v = I.printed[ats[0]]
            return printed_ok(spec, need) and val_eq(I, v, b, need)
        return False
    if isinstance(a, ListV) and isinstance(b, ListV):
        return len(a) == len(b) and all(val_eq(I, x, y, need) for x, y in zip(a.items, b.items))
    if isinstance(a, DictV) and isinstance(b, DictV):
        return set(a.d) == set(b.d) and all(val_eq(I, a.d[k], b.d[k], need) for k in a.d)
    if isinstance(a, (Rat, ListV, DictV, SegStr)) or isinstance(b, (Rat, ListV, DictV, SegStr)):
        return False
    return a == b


_STRFTIME_W = {'Y': 4, 'm': 2, 'd': 2, 'H': 2, 'M': 2, 'S': 2, 'y': 2, 'j': 3, 'f': 6, '%': 1}


def strftime_text(fmt_):
    """the text strftime makes of a date nobody knows: a field of digits and separators whose width is fixed by the
    directives (those whose width depends on the date or the locale - %B, %A, %c ... - are not modelled)"""
    if not isinstance(fmt_, str) or Z in fmt_:
        raise Unsupported('strftime with a symbolic format')
    w, i_ = 0, 0
    while i_ < len(fmt_):
        if fmt_[i_] == '%' and i_ + 1 < len(fmt_):
            if fmt_[i_ + 1] not in _STRFTIME_W:
                raise Unsupported('strftime directive %%%s' % fmt_[i_ + 1])
            w += _STRFTIME_W[fmt_[i_ + 1]]
            i_ += 2
        else:
            w += 1
            i_ += 1
    return SegStr.field('date', w, 'num')


def clock_stub(kind):
    """a datetime / date / struct_time of an unknown day.  Modelled members: strftime and __format__ (the same thing),
    date() of a datetime; any other member the real object has is outside the model (refused, never an AttributeError
    the program would not see)"""
    o = Obj('now<%s>' % kind, closed=True)

    def strftime(I2, o2, a, k):
        return strftime_text(a[0] if a else k.get('format'))

    def fmt(I2, o2, a, k):
        spec = a[0] if a else ''
        if spec == '':
            raise Unsupported('str() of a date')
        return strftime_text(spec)
    if kind != 'time.struct_time':
        o.opaque_methods['strftime'] = strftime
        o.opaque_methods['__format__'] = fmt
    if kind == 'datetime.datetime':
        o.opaque_methods['date'] = lambda I2, o2, a, k: clock_stub('datetime.date')
    import datetime as _dt
    import time as _time
    real = {'datetime.datetime': _dt.datetime, 'datetime.date': _dt.date, 'time.struct_time': _time.struct_time}[kind]
    for name in dir(real):
        if name not in o.opaque_methods and not name.startswith('__'):
            o.opaque_methods[name] = _refuse('%s.%s' % (kind, name))
    return o


def _refuse(what):
    def f(I2, o2, a, k):
        raise Unsupported('%s (no model)' % what)
    return f


def signed_literals_modelled(repo):
    """does the interpreter convert the text of a negative number the way Python does?"""
    from ..xlate import builtin_call, Frame
    I = Interp(repo)
    fr = Frame(I, repo.module(TD), {}, None, None)
    try:
        v = builtin_call(I, fr, 'float', ['-1.50000000E+00'], {}, None)
    except (Unsupported, _RaisedExc):
        return False
    return isinstance(v, Rat) and v.eq(C(Fraction(-3, 2)))


def new_interp(repo, sign=None):
    I = Interp(repo, order=RankOrder({}, const_ranks=True))
    I.track_print_precision = True      # what is read back is the number as printed, not the number that was printed
    I.sign_policy = sign                # None: any sign; 'nonnegative' / 'negative': all numbers of this run

    # the clock: every way the standard library hands out "today" gives an object (or, for time.strftime, a text) whose
    # printed form has the width the directives of the format add up to, whatever the date is
    for qual in ('datetime.datetime.now', 'datetime.datetime.today', 'datetime.datetime.utcnow', 'datetime.date.today'):
        I.native[qual] = lambda I_, fr, args, kwargs, n, qual=qual: clock_stub(qual.rsplit('.', 1)[0])
    for qual in ('time.localtime', 'time.gmtime'):
        I.native[qual] = lambda I_, fr, args, kwargs, n: clock_stub('time.struct_time')

    def time_strftime(I_, fr, args, kwargs, n):
        if not args or len(args) > 2 or kwargs:
            raise Unsupported('time.strftime with these arguments', n)
        return strftime_text(args[0])
    I.native['time.strftime'] = time_strftime
    return I


NASA = 'pmutt.empirical.nasa.Nasa'


def nasa_stub(repo, built, tag):
    """what the reader builds: the arguments of ``Nasa(...)`` under the names the constructor gives them - positional
    arguments are bound through the signature of the real ``Nasa.__init__`` (its named parameters in order; everything
    else travels on as keyword arguments to the base class, which stores ``name``, ``phase``, ``elements``, ``notes``
    under these names), keyword arguments by name; an argument given twice or one too many is the TypeError it is in
    Python"""
    owner, init = repo.find_method(repo.cls(NASA), '__init__')
    names, defaults, vararg, kwarg = params(init)
    pos_names = [x.arg for x in init.args.posonlyargs + init.args.args][1:]
    required = [n_ for n_ in pos_names if n_ not in defaults]

    def build(I_, fr, args, kwargs):
        attrs = {}
        if len(args) > len(pos_names) and not vararg:
            raise _RaisedExc(Raised('TypeError', init))
        for n_, v in zip(pos_names, args):
            attrs[n_] = v
        for k, v in kwargs.items():
            if k in attrs or (k not in names and not kwarg):
                raise _RaisedExc(Raised('TypeError', init))
            attrs[k] = v
        if any(n_ not in attrs for n_ in required):
            raise _RaisedExc(Raised('TypeError', init))
        o = Obj('%s%d' % (tag, len(built)), attrs=attrs)
        built.append(o)
        return o
    return build


COMMENT = '! species fitted in this work'


def roundtrip(run, repo, label, specs, write_date=False, as_dict=False, fmt='list', supp=None, order=None,
              to_file=False, sign=None, counts='mid', reuse=None, tag0=0):
    """``reuse``: the result of an earlier round trip whose interpreter (program state: caches, module-level
    containers, default arguments, the files written so far) goes on being used; ``tag0`` keeps the symbols apart"""
    m = repo.module(TD)
    wfn, rfn = m.functions.get('write_thermdat'), m.functions.get('read_thermdat')
    if wfn is None or rfn is None:
        raise AnchorError('write_thermdat/read_thermdat not found')
    I = reuse['I'] if reuse is not None else new_interp(repo, sign)
    built = []

    I.opaque_classes[NASA] = nasa_stub(repo, built, 'read#%d.' % tag0)
    I.hazards = []
    species = [make_species(I, tag0 + i, *sp, counts=counts) for i, sp in enumerate(specs)]
    if order is not None:
        species = [species[i] for i in order]          # a sequence may hold the same species (name) more than once
    coll = DictV({sp.attrs['name']: sp for sp in species}) if as_dict else ListV(list(species))
    wkw = {'nasa_species': coll, 'write_date': write_date}
    expect = list(species)
    if supp is not None:
        # supplementary entries: records of another species as write_thermdat itself lays them out, and a comment
        # block (the rule's text, or the one given); both with and without a final newline (documented options, any
        # combination)
        data_nl, txt, txt_nl = supp
        extra = make_species(I, tag0 + 9, 5, None, [(1, 1), (1, 2)], (5, 6, 6))
        if data_nl is not None:
            t0 = I.call_function(m, wfn, [], {'nasa_species': ListV([extra]), 'write_date': False})
            if isinstance(t0, Raised) or not isinstance(t0, (SegStr, str)):
                return {'I': I, 'species': species, 'text': t0, 'read': None, 'built': built, 'write_error': t0}
            recs = I.seg(t0).splitlines()[2:6]
            sd = SegStr([])
            for r_ in recs:
                sd = sd + r_
            if not data_nl:
                sd = sd.strip('rstrip', '\n')
            wkw['supp_data'] = sd
            expect = [extra] + expect
        if txt:
            wkw['supp_txt'] = (txt if isinstance(txt, str) else COMMENT) + ('\n' if txt_nl else '')
    if to_file:
        # the file branch of the writer: what ends up in the file is what a reader gets
        wkw['filename'] = 'thermdat'
    text = I.call_function(m, wfn, [], wkw)
    species = expect
    # tests of the writer whose outcome depends on how the user spelled a text (decided 'no' by the symbolic run)
    res = {'I': I, 'species': species, 'text': text, 'read': None, 'built': built, 'fmt': fmt,
           'write_hazards': list(I.hazards)}
    if to_file:
        if isinstance(text, Raised):
            res['write_error'] = text
            return res
        res['lines'] = list(I.files.get('thermdat', []))
        if not res['lines']:
            res['write_error'] = 'nothing was written to the file'
            return res
    else:
        if isinstance(text, Raised) or not isinstance(text, (SegStr, str)):
            res['write_error'] = text
            return res
        text = I.seg(text)
        res['lines'] = text.splitlines()
        I.files['thermdat'] = res['lines']
    I.hazards = []
    I.cuts = []
    out = I.call_function(m, rfn, [], {'filename': 'thermdat', 'format': fmt})
    res['read'] = out
    res['read_hazards'] = list(I.hazards)
    return res


def read_again(repo, res, fmt):
    """the file as it stands is read once more by the same program"""
    m = repo.module(TD)
    I = res['I']
    built = []

    I.opaque_classes[NASA] = nasa_stub(repo, built, 'again#')
    out = dict(res)
    out['built'] = built
    out['fmt'] = fmt
    out['read'] = I.call_function(m, m.functions['read_thermdat'], [], {'filename': 'thermdat', 'format': fmt})
    return out


def layout_rules(run, repo, res, label):
    m = repo.module(TD)
    I = res['I']
    lines = res['lines']
    n_sp = len(res['species'])
    # header (2 lines), 4 records per species, END
    rec = lines[2:2 + 4 * n_sp]
    ok_n = len(lines) == 3 + 4 * n_sp
    wfn = m.functions['write_thermdat']
    run.check(ok_n, 'TABLE.records', 'thermdat.write_thermdat', 'record count',
              '[%s] %d lines written for %d species, expected a 2-line header, 4 records per species and END'
              % (label, len(lines), n_sp), m, wfn)
    if not ok_n:
        return
    for k, line in enumerate(rec):
        num = k % 4 + 1
        fn = m.functions.get('_write_line%d' % num, wfn)     # where to point the report; the rule does not depend on it
        ok_len = len(line) == 81
        digit = None
        if ok_len:
            try:
                d_ = line.slice(79, 80)
                digit = d_.literal() if d_.is_literal() else None
            except Exception:
                digit = None
        run.check(ok_len and digit == str(num), 'TABLE.col80', 'thermdat.write_thermdat record %d' % num, 'record digit',
                  '[%s] record %d is %d characters long with %r in column 80; the Chemkin layout needs the record '
                  'number %d in column 80 of an 80-column line' % (label, num, len(line) - 1, digit, num), m, fn)
        if num > 1 and ok_len:
            nf = 5 if num < 4 else 4
            ok = True
            for j in range(nf):
                try:
                    f = line.slice(15 * j, 15 * j + 15).single_field()
                except Exception:
                    f = None
                ok = ok and f is not None and f.cls == 'num'
                if f is not None and f.spec is not None:
                    # whichever way the format is spelled ('{: 2.8E}', '% .8E', ...)
                    run.check(printed_ok(f.spec, 'coef'), 'TABLE.precision', 'thermdat.write_thermdat record %d' % num,
                              'coefficient precision', 'coefficients are written with fewer than the nine significant '
                              'digits the property needs (spec %r)' % (f.spec,), m, fn)
            run.check(ok, 'TABLE.fields', 'thermdat.write_thermdat record %d' % num, 'five 15-column fields',
                      '[%s] record %d does not consist of %d coefficient fields of 15 characters: %s'
                      % (label, num, nf, show(line, 200)), m, fn)
        if num == 1 and ok_len:
            fn1 = m.functions.get('_write_line1', wfn)
            sp = res['species'][k // 4]
            # composition cells: symbols start at columns 25/30/35/40, counts end at 29/34/39/44, phase column 45
            cell = 0
            good = True
            why = ''
            for sym, cnt in sp.attrs['elements'].d.items():
                if I.order.ranks.get(list(cnt.atoms())[0], 1) <= 0:
                    continue
                a = 24 + 5 * cell
                try:
                    c5 = line.slice(a, a + 5)
                    segs = [s for s in c5.segs if not (s.kind == 'lit' and s.text.strip() == '')]
                    starts_ok = c5.segs and c5.segs[0].kind == 'field' and c5.segs[0].value == sym
                    ends_ok = c5.segs and c5.segs[-1].kind == 'field' and isinstance(c5.segs[-1].value, Rat) \
                        and c5.segs[-1].value.eq(cnt)
                    if not (len(segs) == 2 and starts_ok and ends_ok):
                        good = False
                        why = 'cell %d (columns %d-%d) holds %s' % (cell + 1, a + 1, a + 5, show(c5, 80))
                except Exception as e:
                    good = False
                    why = 'cell %d: %s' % (cell + 1, e)
                cell += 1
            try:
                ph = I.plain(line.slice(44, 45))
                if ph != sp.attrs['phase']:
                    good = False
                    why = 'column 45 holds %s, not the phase' % show(line.slice(44, 45), 60)
            except Exception as e:
                good = False
                why = 'column 45: %s' % e
            run.check(good, 'TABLE.line1', 'thermdat.write_thermdat record 1', 'composition/phase columns',
                      '[%s] element symbols must start at columns 25/30/35/40, counts end at 29/34/39/44 and the phase '
                      'sit in column 45: %s' % (label, why), m, fn1)


def species_diff(repo, res, label):
    """[(key, message, node, sample)] - an entry per comparison; message None where it holds"""
    m = repo.module(TD)
    I = res['I']
    rfn = m.functions['read_thermdat']
    out = res['read']
    species = res['species']
    if isinstance(out, Raised):
        where = out.node
        return [('raises', '[%s] reading back the file pMuTT wrote raises %s' % (label, out.exc),
                 where if hasattr(where, 'lineno') else rfn, None)]
    diffs = []
    # the documented container per format
    kind = {'list': 'list', 'tuple': 'tuple', 'dict': 'dict'}.get(res.get('fmt'))
    if isinstance(out, DictV):
        items = list(out.d.values())
        keys_ok = [I.plain(k) for k in out.d] == [sp.attrs['name'] for sp in species]
        diffs.append(('dict keys', None if keys_ok else
                      '[%s] dictionary keys are not the species names in order' % label, rfn, None))
    elif isinstance(out, ListV):
        items = out.items
    else:
        return [('result', '[%s] unexpected result %s' % (label, show(out)), rfn, None)]
    if kind is not None:
        diffs.append(('container', None if isinstance(out, DictV) == (kind == 'dict') else
                      '[%s] format=%r returns %s' % (label, res.get('fmt'), type(out).__name__), rfn, None))
    if len(items) != len(species):
        diffs.append(('species count', '[%s] %d species written, %d read back (dropped, duplicated or merged)'
                      % (label, len(species), len(items)), rfn, None))
        return diffs
    diffs.append(('species count', None, rfn, None))
    for sp, rd in zip(species, items):
        if not isinstance(rd, Obj):
            diffs.append(('result', '[%s] entry %s of the result is not a species' % (label, show(rd)), rfn, None))
            continue
        for attr in ('name', 'phase', 'elements', 'T_low', 'T_high', 'T_mid', 'a_low', 'a_high'):
            want = sp.attrs[attr]
            if attr == 'elements':
                want = DictV({k: v for k, v in want.d.items()
                              if I.order.ranks.get(list(v.atoms())[0], 1) > 0})
            got = rd.attrs.get(attr)
            fnr = m.functions.get('_read_line1' if attr in ('name', 'phase', 'elements', 'T_low', 'T_high', 'T_mid')
                                  else '_read_line2', rfn)       # where to point the report only
            need = 'T' if attr.startswith('T_') else ('coef' if attr.startswith('a_') else None)
            okv = val_eq(I, got, want, need)
            diffs.append(('attr:' + attr, None if okv else '[%s] %s of species %s reads back as %s, written from %s'
                          % (label, attr, sp.name, show(I.plain(got), 120), show(want, 120)), fnr,
                          '[%s] %s.%s survives write->read' % (label, sp.name, attr)
                          if attr in ('elements', 'a_high') and sp.name == 's0' else None))
    return diffs


def compare_species(run, repo, res, label, key_suffix=''):
    m = repo.module(TD)
    good = True
    for key, msg, node, sample in species_diff(repo, res, label):
        if not run.check(msg is None, 'TABLE.readback', 'thermdat.read_thermdat', key + key_suffix, msg, m, node,
                         sample=sample):
            good = False
    return good


# ---------------------------------------------------------------------------
# decisions of the reader that depend on how a text is spelled

_QUOTED = re.compile(r'''('(?:[^'\\]|\\.)*'|"(?:[^"\\]|\\.)*")''')


def hazard_literal(txt):
    """the text a value-dependent test looks for in the user's text (what is tested, however the test is written:
    ==, in, startswith, a slice compared ...), or None when the interpreter's record names none that a user text can
    hold"""
    head = txt
    for mark in ('user-controlled text', 'in a line containing'):
        k = head.find(mark)
        if k >= 0:
            head = head[:k]
    mm = _QUOTED.search(head)
    if not mm:
        return None
    try:
        lit = ast.literal_eval(mm.group(1))
    except (ValueError, SyntaxError):
        return None
    if not isinstance(lit, str) or not lit or not all(33 <= ord(c) < 127 for c in lit):
        return None                 # blanks cannot be inside a user text but can follow it: not spelled out here
    if set(lit) <= set('0123456789+-.eE'):
        return None                 # may as well be met inside a formatted number
    return lit


def spellings(width, lit, every):
    """texts of that width that contain ``lit``: at the start, inside, at the end (``every``: at every position)"""
    n = width - len(lit)
    if n < 0:
        return []
    offs = range(n + 1) if every else sorted({0, 1, 2, n // 2, n - 1, n} & set(range(n + 1)))
    return [FILL * o + lit + FILL * (n - o) for o in offs]


def text_fields(specs):
    """(species index, position in the spec tuple, what, width) of every symbolic user text of an instance"""
    out = []
    for i, sp in enumerate(specs):
        if isinstance(sp[0], int):
            out.append((i, 0, 'name', sp[0]))
        if isinstance(sp[1], int) and not isinstance(sp[1], bool):
            out.append((i, 1, 'notes', sp[1]))
        pw = sp[4] if len(sp) > 4 else 1
        if isinstance(pw, int):
            out.append((i, 4, 'phase', pw))
        for k, (sw, _) in enumerate(sp[2]):
            if isinstance(sw, int):
                out.append((i, (2, k), 'element symbol %d' % k, sw))
    return out


def both_outcomes(run, repo, hz, thorough):
    """a test (of the reader on a record line, or of the writer on a species) whose outcome depends on the spelling of
    a user text was decided 'no' by the symbolic run; the same instances with the text spelled so that it says 'yes'
    must give back the same species, in the same order.  The one spelling left out is a name that begins with '!':
    '!' in column 1 is the comment marker of the Chemkin format, a file cannot hold such a name whatever the reader
    does."""
    m = repo.module(TD)
    lit = hz['lit']
    node = hz['node']
    side = hz.get('side', 'read')
    construct = 'thermdat.%s_thermdat' % side
    key = ('skip-test:' if side == 'read' else 'text-test:') + norm(node)[:60]
    hosts = [c for c in hz['seen'] if any(w >= len(lit) and (lit.isalpha() or not what.startswith('element'))
                                          for _, _, what, w in text_fields(c[1]))]
    if not hosts:
        return None
    single = [c for c in hosts if len(c[1]) == 1]
    multi = [c for c in hosts if len(c[1]) > 1]
    width = lambda c: max(w for _, _, what, w in text_fields(c[1]))
    if thorough:
        chosen, sigs = [], set()
        for c in hosts:
            sg = tuple(sorted((what.split()[0], w) for _, _, what, w in text_fields(c[1]))) + \
                tuple(sorted((k_, v_) for k_, v_ in c[2].items() if k_ != 'counts'))
            if sg not in sigs:
                sigs.add(sg)
                chosen.append(c)
    else:
        # quick: the single species with the widest texts (a record that is skipped or cut there leaves nothing to attach
        # the following records to) and one collection of several species (one of them spelled out, the others not:
        # a test that sorts, groups or drops species by their texts shows there); thorough: every shape the test was
        # met in
        chosen = sorted(single, key=width)[-1:] + multi[:1]
    n_w = 0
    for label, specs, kw in chosen:
        many = len(specs) > 1
        for i, pos, what, w in text_fields(specs):
            sps = spellings(w, lit, thorough)
            if what.startswith('element') and not lit.isalpha():
                continue                        # element symbols are letters
            if many and not thorough:
                sps = sps[:1]                   # each text of each species once, the literal at its start
            for sp_ in sps:
                if what == 'name' and sp_.startswith('!'):
                    continue
                spec2 = list(specs[i]) + [1] * (5 - len(specs[i]))
                if isinstance(pos, tuple):
                    spec2[pos[0]] = list(spec2[pos[0]])
                    spec2[pos[0]][pos[1]] = (sp_, spec2[pos[0]][pos[1]][1])
                else:
                    spec2[pos] = sp_
                specs2 = list(specs)
                specs2[i] = tuple(spec2)
                lbl = '%s; %s of species %d spelled %r' % (label, what, i, sp_)
                res = roundtrip(run, repo, lbl, specs2, **kw)
                n_w += 1
                if 'write_error' in res:
                    run.fail('TABLE.write', 'thermdat.write_thermdat', 'raises', '[%s] writing raises %s'
                             % (lbl, show(res['write_error'])), m, m.functions['write_thermdat'])
                    continue
                bad = [d for d in species_diff(repo, res, lbl) if d[1] is not None]
                run.check(not bad, 'PATH.record-safe', construct, key,
                          'the file does not read back as written when a text contains %r, which the %s tests for '
                          'on a species%s (%s): %s' % (lit, 'reader' if side == 'read' else 'writer',
                                                       ' record' if side == 'read' else '', hz['txt'][:100],
                                                       bad[0][1] if bad else ''), m, node)
    return n_w


def check(run, repo):
    run.explanation = (
        'write_thermdat and read_thermdat (with _write_line1-4, _insert_space, _read_line1-4, _get_fields, '
        '_is_temperature_header, _read_line_num) are interpreted over abstract strings: literal text plus symbolic '
        'fields of known width (names, notes, element symbols, phases as user text; counts, temperatures and '
        'coefficients as formatted numbers). For every enumerated combination of field widths (name 1/8/15, notes '
        'absent/5/8 or date, 1-4 elements with 1-2 letter symbols and 1-3 digit counts plus zero-count entries - '
        'comparisons of a count decided with a value inside its digit class and with the smallest and largest one -, '
        'temperatures of 3-6 characters, 1-3 species, list and dict input, list/tuple/dict output) the writer\'s '
        'abstract output is checked against the Chemkin column layout and fed to the reader; the species it builds '
        'must equal the originals attribute by attribute and in order. Concrete names (out of alphabetical order, with '
        'surface and gas phases not grouped; with END, THERMO, a leading digit, \'!\' inside), species spelled out '
        'completely (a name beginning with each printable character that is not a letter or digit - thorough: each '
        'printable character -, every single-character phase, element symbols in upper, lower and mixed case, '
        'temperatures of 1 K, 9999.9 K and with more decimals than are printed such as 1000/3 K, compared to 0.1 K, '
        'coefficients of 1e-30..1e30, zero, of one sign only, compared to nine significant digits), comment blocks '
        'that contain the keywords, and one file name written and read twice by the same program are further '
        'instances. Operations that cut through a field, conversions of text that is not exactly one number are '
        'reported; a test of the reader on a record line or of the writer on a species whose outcome depends on '
        'user-controlled text (name, notes, phase, element symbol) is decided both ways (the text spelled out so '
        'that the test holds, in a single species and in one of several) and both must give back the species '
        'written, in the order written.')
    run.assumptions = ['E-format numbers with |exponent| < 100 have a value-independent width (coefficients of '
                       'magnitude 1e-30..1e30)', 'user text fields contain no blanks (property: non-blank characters)',
                       'no name begins with \'!\' (column 1 \'!\' is the comment marker of the file format)']
    run.undecided = ['float()/int() on concrete digit strings and file I/O', 'values of 3-digit exponents']
    thorough = run.tier == 'thorough'
    m = repo.module(TD)
    state = {'n': 0}
    hazards = {}

    def instance(label, specs, layout=True, suffix=None, collect=True, **kw):
        res = roundtrip(run, repo, label, specs, **kw)
        state['n'] += 1
        if 'write_error' in res:
            run.fail('TABLE.write', 'thermdat.write_thermdat', 'raises', '[%s] writing raises %s'
                     % (label, show(res['write_error'])), m, m.functions['write_thermdat'])
            return None
        if layout:
            layout_rules(run, repo, res, label)
        compare_species(run, repo, res, label, ' [%s]' % label if suffix is None else suffix)
        if collect:
            for side in ('write', 'read'):
                for node, txt in res[side + '_hazards']:
                    lit = hazard_literal(txt)
                    h = hazards.setdefault((id(node), lit), {'node': node, 'txt': txt, 'lit': lit, 'seen': [],
                                                             'side': side})
                    if 'reuse' not in kw and (label, specs, kw) not in h['seen']:
                        h['seen'].append((label, specs, dict(kw)))
        return res

    temps = [(5, 6, 6), (3, 5, 4)]
    names = [1, 8, 15]
    notes = [None, '', 5, 8]
    el_cfgs = []
    for n in (1, 2, 3, 4):
        el_cfgs.append([(1, 1)] * n)
        el_cfgs.append([(2, 2)] * n)
        el_cfgs.append([(1, 3)] * n)
        el_cfgs.append([(2, 1)] * n)
        if n > 1:
            el_cfgs.append([(1, 1), (2, 2), (1, 3), (2, 1)][:n])
            el_cfgs.append([(2, 1), (1, 0), (1, 2), (2, 2)][:n])     # with a zero-count entry
    el_cfgs.append([(2, 3)])                                            # two-letter symbol, three-digit count
    el_cfgs.append([(1, 1), (2, 3), (1, 1)])
    cases = []
    for ec in el_cfgs:
        cases.append((names[len(cases) % 3], notes[len(cases) % 4], ec, temps[len(cases) % 2]))
    if thorough:
        for nw, nt, tw in itertools.product(names, notes, temps):
            for ec in el_cfgs[:10]:
                cases.append((nw, nt, ec, tw))
    # concrete names that are not in alphabetical order (nor in reverse): the order of the collection is kept
    # (with the phases a surface mechanism has, not grouped: a surface species, a gas, a surface species)
    named = [('ZRO2', 5, [(1, 1), (2, 2)], (5, 6, 6), 'S'), ('AR', None, [(1, 2)], (3, 5, 4), 'G'),
             ('CH4(S)', 5, [(1, 1), (1, 1)], (5, 6, 6), 'S')]
    for as_dict, fmt in ((True, 'dict'), (True, 'list'), (False, 'list')):
        label = 'concrete names ZRO2, AR, CH4(S) input=%s format=%s' % ('dict' if as_dict else 'list', fmt)
        instance(label, named, layout=False, suffix=' [concrete names]', collect=False, as_dict=as_dict, fmt=fmt)
    # names "of 1-15 non-blank printable characters": the keywords of the format inside a name, a leading digit,
    # punctuation - '!' (the comment marker, when it is not the first character), '=', '-', ',' - and one-character
    # names; concrete, so every test the reader makes on them is decided exactly
    spelled = [('OH!v=1', 5, [(1, 1), (1, 1)], (5, 6, 6)), ('PENDING', None, [(1, 2)], (3, 5, 4)),
               ('2-THERMO(S)', 5, [(1, 1), (2, 2)], (5, 6, 6)), ('CH2!', '', [(1, 1), (1, 1)], (5, 6, 6)),
               ('ISOTHERMOXEND!1', 8, [(1, 3)], (6, 6, 6)), ('E', None, [(2, 1)], (3, 5, 4)),
               ('END', 5, [(1, 1)], (5, 6, 6)), ('1', None, [(1, 1)], (5, 6, 6)), ('THERMO', 8, [(1, 2)], (5, 6, 6)),
               ('A!', 5, [(1, 1)], (5, 6, 6))]
    for as_dict, fmt, sel in ((False, 'list', spelled[:5]), (True, 'dict', spelled[3:]), (False, 'tuple', spelled[5:])):
        label = 'concrete names %s input=%s format=%s' % (', '.join(s_[0] for s_ in sel),
                                                          'dict' if as_dict else 'list', fmt)
        instance(label, sel, layout=False, suffix=' [names with keywords and punctuation]', collect=False,
                 as_dict=as_dict, fmt=fmt)
    # every text and number spelled out, each species another way: names that begin with each printable character
    # that is not a letter or digit (thorough: with every printable character; '!' excepted, see above), every
    # single-character phase (quick: the lower-case letters, digits, punctuation - the upper-case ones stand in the
    # instances above), one- and two-letter element symbols in upper, lower and mixed case, and temperatures at both
    # ends of the range and with more decimals than are printed (a bound of a fit over a grid: 1000/3 K)
    printable = [chr(c_) for c_ in range(33, 127)]
    firsts = [c_ for c_ in printable if c_ != '!' and (thorough or not c_.isalnum())]
    phases_ = printable if thorough else list('abcdefghijklmnopqrstuvwxyz10*(!')
    symbols = ['PT', 'Cl', 'H', 'pt', 'AR', 'o', 'Zr', 'N']
    tsets = [(Fraction(1000, 3), 3500.0, 1000.0), (1.0, 9999.9, 416.67),
             (Fraction(10000, 7), Fraction(20000, 3), 2500.55), (5, 6, 6)]
    # coefficients of either sign, 1e-30 .. 1e30, exactly zero, with a ninth digit that matters; none negative (the
    # sign column of every field is a blank); none positive
    csets = [None,
             ([1.5, 2.25e-3, 1.00000005e-6, 3.5e-10, 9.99999995e-30, 1.0e30, 0.0],
              [2.5, 0.0, 4.75e-7, 1.23456789e-11, 6.0e-15, 1.2e4, 7.125]),
             ([-1.5, 2.25e-3, -1.00000005e-6, 0.0, -9.99999995e-30, -1.0e30, 3.0],
              [3.25, -8.5e-4, 4.75e-7, -1.23456789e-11, 0.0, -1.2e4, -7.125]),
             None,
             ([-1.5, -2.25e-3, -1.0e-6, -3.5e-10, -1.0e-30, -1.0e30, -3.0],
              [-2.5, -8.5e-4, -4.75e-7, -1.0e-11, -6.0e-15, -1.2e4, -7.125])]
    if not signed_literals_modelled(repo):
        # float('-1.5E+00') is not modelled yet (the model raises ValueError): the sets with negative numbers wait
        csets = [c_ if c_ is None or min(c_[0] + c_[1]) >= 0 else None for c_ in csets]
        run.extra['concrete negative coefficients'] = 'not armed (float() of a signed literal is not modelled)'
    alphabet = []
    for k in range(max(len(firsts), len(phases_))):
        alphabet.append((firsts[k % len(firsts)] + 'N%d' % k, [None, 5, '', 8][k % 4],
                         [(symbols[k % 8], 1 + k % 3), (symbols[(k + 3) % 8], 1 + (k // 3) % 3)][:1 + k % 2],
                         tsets[k % 4], phases_[k % len(phases_)], csets[k % 5]))
    shapes = ((False, 'list'), (True, 'dict'), (False, 'tuple'), (True, 'list'))
    for j in range(0, len(alphabet), 32):
        as_dict, fmt = shapes[(j // 32) % 4]
        sel = alphabet[j:j + 32]
        label = 'species %s ... %s spelled out, input=%s format=%s' % (sel[0][0], sel[-1][0],
                                                                       'dict' if as_dict else 'list', fmt)
        instance(label, sel, layout=False, suffix=' [first characters, phases, symbols, numbers spelled out]',
                 collect=False, as_dict=as_dict, fmt=fmt)
    for case in cases:
        label = 'name=%d notes=%s elements=%s temps=%s' % (case[0], case[1], case[2], case[3])
        wide = any(sw == 2 and dg == 3 for sw, dg in case[2])
        instance(label, [case], suffix=' [2-letter symbol with 3-digit count]' if wide else '')
    # element counts at both ends of their digit class: 1 and 9, 10 and 99, 100 and 999 (the runs above decide
    # comparisons of a count with 5, 50, 500)
    edge_cfgs = el_cfgs if thorough else [[(1, 1)], [(2, 2)], [(1, 3)], [(2, 3)],
                                           [(1, 1), (2, 2), (1, 3), (2, 1)], [(2, 1), (1, 0), (1, 2), (2, 2)]]
    for k, ec in enumerate(edge_cfgs):
        for wit, what in (('lo', 'smallest'), ('hi', 'largest')):
            label = 'counts the %s of their digit class, elements=%s' % (what, ec)
            instance(label, [(names[k % 3], notes[(k + 2) % 4], ec, temps[k % 2])],
                     suffix=' [counts at the %s value of their digit class]' % what, counts=wit)
    # several species, mixed; dict input; output formats; date stamp
    multi = [(8, 5, [(1, 1), (2, 2), (1, 3)], (5, 6, 6)), (3, None, [(2, 1)], (3, 5, 4)),
             (15, 8, [(1, 2), (1, 1)], (6, 6, 6))]
    for as_dict in (False, True):
        for fmt in ('list', 'tuple', 'dict'):
            for wd in (False, True):
                label = '3 species input=%s format=%s date=%s' % ('dict' if as_dict else 'list', fmt, wd)
                # text-dependent tests met here are decided both ways on one list and one dict collection
                instance(label, multi, suffix='', collect=not wd and fmt == ('dict' if as_dict else 'list'),
                         write_date=wd, as_dict=as_dict, fmt=fmt)
    # a sequence in which one species (one name) occurs more than once: a sequence is written entry by entry, in order
    for order, fmt in (((0, 1, 0), 'list'), ((0, 0), 'tuple'), ((1, 0, 2, 0, 1), 'list')):
        label = 'sequence with repeated species %s format=%s' % (list(order), fmt)
        instance(label, multi, layout=False, suffix=' [repeated species]', collect=False, fmt=fmt, order=order)
    # further shapes of the input: names as long as the keywords END / THERMO, five composition entries of which one
    # has the count zero (four remain to be written), notes longer than their field (they are cut, nothing else moves),
    # and the same species written to a file instead of returned
    more = [('name as long as END', [(3, 5, [(1, 1), (2, 2)], (5, 6, 6)), (6, None, [(1, 2)], (3, 5, 4))], {}),
            ('zero count among five composition entries', [(8, 5, [(1, 1), (1, 3), (2, 2), (1, 0), (1, 1)], (5, 6, 6))], {}),
            ('zero count first of five composition entries', [(8, 5, [(2, 0), (1, 3), (2, 2), (1, 1), (1, 2)], (5, 6, 6))], {}),
            ('notes longer than the field', [(8, 12, [(1, 1), (2, 2)], (5, 6, 6)), (3, 20, [(2, 1)], (3, 5, 4))], {}),
            # written to a file, first with the sign of every number fixed (a blank sign column is a blank like any
            # other), then with numbers of any sign
            ('written to a file, numbers not negative', multi, {'to_file': True, 'sign': 'nonnegative'}),
            ('written to a file, numbers negative', multi[:1], {'to_file': True, 'sign': 'negative'}),
            ('written to a file', multi, {'to_file': True}),
            ('written to a file with date', multi, {'to_file': True, 'write_date': True})]
    for label, specs, kw_ in more:
        instance(label, specs, layout='notes' not in label, **kw_)
    # one program, one file name, written and read more than once: what the second read returns is the second
    # collection (nothing of the first call is remembered), whichever format is asked for, and a further read of the
    # unchanged file gives the same species again
    second = [(15, 8, [(1, 2), (1, 1)], (6, 6, 6)), (8, 5, [(2, 2)], (5, 6, 6)), (3, None, [(2, 1), (1, 1)], (3, 5, 4))]
    for to_file in ((True, False) if thorough else (True,)):
        how = 'file' if to_file else 'text'
        first = instance('one file name written twice (%s): first collection' % how, multi[:2], layout=False,
                         suffix=' [first of two collections under one file name]', collect=False, to_file=to_file)
        if first is None:
            continue
        for fmt in (('dict', 'list') if thorough else ('dict',)):
            again = read_again(repo, first, fmt)
            compare_species(run, repo, again, 'first collection read again, format=%s' % fmt,
                            ' [unchanged file read again]')
        res2 = instance('one file name written twice (%s): second collection' % how, second, layout=False,
                        suffix=' [same file name written again]', collect=False, to_file=to_file, reuse=first, tag0=20)
        if res2 is None:
            continue
        for fmt in (('list', 'tuple') if thorough else ('tuple',)):
            again = read_again(repo, res2, fmt)
            compare_species(run, repo, again, 'second collection read again, format=%s' % fmt,
                            ' [same file name written again]')
    # supplementary data / comment block in every combination of presence and final newline; comment blocks whose text
    # contains the keywords of the format (a comment never influences what is read), short and wider than a record
    legend = '! Species fitted in this work\n! LEGEND: G = gas phase, S = surface species'
    thermo = '! THERMO data, RECOMMENDED values'
    long_c = '! ' + 'APPENDIX with the THERMO data of this work - ' * 2 + 'END of the header'
    assert len(long_c) > 81
    for data_nl, txt, txt_nl in ((True, False, False), (False, False, False), (None, True, True), (None, True, False),
                                 (True, True, True), (False, True, True), (True, True, False), (False, True, False),
                                 (None, legend, True), (None, legend, False), (None, thermo, True), (True, thermo, False),
                                 (None, long_c, True), (False, long_c + '\n' + legend, False)):
        label = 'supp_data=%s supp_txt=%s' % (
            {None: 'absent', True: 'ends with newline', False: 'no final newline'}[data_nl],
            'absent' if not txt else ('ends with newline' if txt_nl else 'no final newline'))
        if isinstance(txt, str):
            label += ' comment=%r' % (txt[:24] + '...')
        res = instance(label, [multi[0]], layout=False, collect=False, supp=(data_nl, txt, txt_nl))
        if res is None:
            continue
        # every record keeps a line of its own
        shared = [ln for ln in res['lines'] if '!' in ''.join(s_.text for s_ in ln.segs if s_.kind == 'lit')
                  and len(ln.fields())]
        run.check(not shared, 'TABLE.records', 'thermdat.write_thermdat', 'supplementary blocks on their own lines',
                  '[%s] a record shares its line with the comment block: %s' % (label, show(shared[0], 160) if shared
                                                                               else ''),
                  m, m.functions['write_thermdat'])
    run.floor('thermdat cases', state['n'], 70)
    run.extra['cases'] = state['n']
    # record lines must never be classified by a test that depends on user-controlled text
    for f_ in ('read_thermdat', 'write_thermdat'):
        run.fn(TD + '.' + f_)
    n_wit = 0
    for _, hz in sorted(hazards.items(), key=lambda kv: (getattr(kv[1]['node'], 'lineno', 0), str(kv[1]['lit']))):
        done = both_outcomes(run, repo, hz, thorough) if hz['lit'] is not None else None
        if done is None and hz['side'] == 'write':
            run.fail('PATH.record-safe', 'thermdat.write_thermdat', 'text-test:' + norm(hz['node'])[:60],
                     'what is written for a species depends on how its texts are spelled: the writer uses %s'
                     % hz['txt'][:160], m, hz['node'])
        elif done is None:
            # nothing names a text that could be spelled out: the dependence itself is the finding
            run.fail('PATH.record-safe', 'thermdat.read_thermdat', 'skip-test:' + norm(hz['node'])[:60],
                     'a species record can be skipped (and the following records merged into the previous species) '
                     'because the line classifier uses %s' % hz['txt'][:160], m, hz['node'])
        else:
            n_wit += done
    run.extra['spelled-out instances'] = n_wit
    if not hazards:
        run.ok('PATH.record-safe', 'thermdat.read_thermdat')


T_ = 'pmutt/io/thermdat.py'
MUTANTS = [
    {'name': 'date stamp with dashes', 'expect': ('TABLE', 'write_thermdat'),
     'edits': [(T_, "now.strftime('%Y%m%d')", "now.strftime('%Y-%m-%d')")]},
    {'name': 'lower temperature bound written without a decimal', 'expect': ('TABLE.readback', 'read_thermdat'),
     'edits': [(T_, "'%.1f' % nasa_specie.T_low", "'%.0f' % nasa_specie.T_low")]},
    {'name': 'notes written in full', 'expect': ('TABLE', ''),
     'edits': [(T_, "notes = nasa_specie.notes[:8]", "notes = nasa_specie.notes")]},
    {'name': 'one coefficient with 7 decimals', 'expect': ('TABLE', 'write_thermdat record'),
     'edits': [(T_, "line = ('{: 2.8E}{: 2.8E}{: 2.8E}{: 2.8E}{: 2.8E}    2\\n'", "line = ('{: 2.8E}{: 2.7E}{: 2.8E}{: 2.8E}{: 2.8E}    2\\n'")]},
    {'name': 'line 3 swaps a_high[5] and a_high[6]', 'expect': ('TABLE.readback', 'read_thermdat'),
     'edits': [(T_, "nasa_specie.a_high[5], nasa_specie.a_high[6], nasa_specie.a_low[0],", "nasa_specie.a_high[6], nasa_specie.a_high[5], nasa_specie.a_low[0],")]},
    {'name': 'phase written one column later', 'expect': ('TABLE', ''),
     'edits': [(T_, '        44,  # Phase\n        45,  # T_low', '        45,  # Phase\n        46,  # T_low')]},
    {'name': 'reader offset 14', 'expect': ('TABLE.readback', 'read_thermdat'),
     'edits': [(T_, "    positions = [0, 15, 30, 45, 60]\n    offset = 15\n\n    nasa_data['a_high'] = np.zeros(7)", "    positions = [0, 15, 30, 45, 60]\n    offset = 14\n\n    nasa_data['a_high'] = np.zeros(7)")]},
    {'name': 'species appended on record 3', 'expect': ('TABLE.readback', 'read_thermdat'),
     'edits': [(T_, "                nasa_data = _read_line3(line, nasa_data)\n", "                nasa_data = _read_line3(line, nasa_data)\n                species.append(Nasa(**nasa_data))\n")]},
    {'name': 'reader swaps T_high and T_mid', 'expect': ('TABLE.readback', 'read_thermdat'),
     'edits': [(T_, "    nasa_data['T_high'] = float(fields[1])\n    nasa_data['T_mid'] = float(fields[2])", "    nasa_data['T_high'] = float(fields[2])\n    nasa_data['T_mid'] = float(fields[1])")]},
    {'name': 'elements dictionary shared between species', 'expect': ('TABLE.readback', 'read_thermdat'),
     'edits': [(T_, "    nasa_data['elements'] = {}\n", "    nasa_data['elements'] = _ELEMENTS\n"),
               (T_, "def _read_line1(line):", "_ELEMENTS = {}\n\n\ndef _read_line1(line):")]},
    {'name': 'file branch strips every line (the blank sign column of a non-negative coefficient goes)', 'expect': ('TABLE', ''),
     'edits': [(T_, "            f_ptr.write(lines_out)", "            for line in lines_out.splitlines():\n                f_ptr.write(line.strip() + newline)")]},
    {'name': 'dictionary input written in alphabetical order', 'expect': ('TABLE.readback', 'read_thermdat'),
     'edits': [(T_, "        nasa_iter = nasa_species.values()", "        nasa_iter = [nasa_species[key] for key in sorted(nasa_species)]")]},
    # white-box round 2
    {'name': 'reading stops at the first short line that contains END (a comment with LEGEND)',
     'expect': ('TABLE.readback', 'read_thermdat'),
     'edits': [(T_, "            if not is_record and 'END' in line:\n                continue", "            if not is_record and 'END' in line:\n                break")]},
    {'name': 'a comment line that contains THERMO restarts the species list',
     'expect': ('TABLE.readback', 'read_thermdat'),
     'edits': [(T_, "            if not is_record and 'THERMO' in line:\n                continue", "            if not is_record and 'THERMO' in line:\n                species = []\n                continue")]},
    {'name': 'parsed files memoised by file name (lru_cache on read_thermdat)', 'expect': ('TABLE.readback', 'read_thermdat'),
     'edits': [(T_, "def read_thermdat(filename, format='list', key='name'):", "@lru_cache(maxsize=32)\ndef read_thermdat(filename, format='list', key='name'):"),
               (T_, "from datetime import datetime\n", "from datetime import datetime\nfrom functools import lru_cache\n")]},
    {'name': 'digits of a count from thresholds, wrong at exactly 100', 'expect': ('TABLE', ''),
     'edits': [(T_, "            two_digit = len(str(val)) - 1", "            two_digit = 2 if val > 100 else (1 if val >= 10 else 0)")]},
    {'name': 'digits of a count from thresholds, wrong at 99', 'expect': ('TABLE', ''),
     'edits': [(T_, "            two_digit = len(str(val)) - 1", "            two_digit = 2 if val >= 99 else (1 if val >= 10 else 0)")]},
    {'name': 'everything after a ! is a comment (names that contain one are cut)', 'expect': ('TABLE.readback', 'read_thermdat'),
     'edits': [(T_, "            # Skip header temperatures\n            if _is_temperature_header(line):", "            line = line.split('!')[0]\n            if _is_temperature_header(line):")]},
    {'name': 'coefficient buffers of the reader in single precision (seven digits)', 'expect': ('T', 'thermdat'),
     'edits': [(T_, "    nasa_data['a_high'] = np.zeros(7)", "    nasa_data['a_high'] = np.zeros(7, dtype='float32')")]},
    {'name': 'short lines starting with END or THERMO are keywords, whatever their length (a species named END...)',
     'expect': ('PATH.record-safe', 'read_thermdat'),
     'edits': [(T_, "            is_record = len(line.rstrip()) >= 80\n", "            is_record = not (line.startswith('END') or line.startswith('THERMO'))\n")]},
    # white-box round 3
    {'name': 'lower temperature bound printed with ten significant digits (333.3333333 runs into the next field)',
     'expect': ('TABLE', ''),
     'edits': [(T_, "'%.1f' % nasa_specie.T_low", "'%.10g' % nasa_specie.T_low")]},
    {'name': 'upper temperature bound printed with six decimals (from 1000 K on it runs into the next field)',
     'expect': ('TABLE', ''),
     'edits': [(T_, "'%.1f' % nasa_specie.T_high", "'%.6f' % nasa_specie.T_high")]},
    {'name': 'gas-phase species written first', 'expect': ('PATH.record-safe', 'write_thermdat'),
     'edits': [(T_, "    for nasa_specie in nasa_iter:\n        lines.append(_write_line1(nasa_specie, write_date))",
                "    nasa_iter = list(nasa_iter)\n    nasa_iter = ([x for x in nasa_iter if x.phase == 'G'] +\n"
                "                 [x for x in nasa_iter if x.phase != 'G'])\n"
                "    for nasa_specie in nasa_iter:\n        lines.append(_write_line1(nasa_specie, write_date))")]},
    {'name': 'species of one phase written together (stable sort by phase)', 'expect': ('TABLE.readback', 'read_thermdat'),
     'edits': [(T_, "    for nasa_specie in nasa_iter:\n        lines.append(_write_line1(nasa_specie, write_date))",
                "    nasa_iter = sorted(nasa_iter, key=lambda x: x.phase)\n"
                "    for nasa_specie in nasa_iter:\n        lines.append(_write_line1(nasa_specie, write_date))")]},
    {'name': 'phase g written as G', 'expect': ('TABLE.readback', 'read_thermdat'),
     'edits': [(T_, "        nasa_specie.phase,\n        '%.1f' % nasa_specie.T_low,",
                "        'G' if nasa_specie.phase == 'g' else nasa_specie.phase,\n        '%.1f' % nasa_specie.T_low,")]},
    {'name': 'composition parsed with a regular expression that wants Xx capitalisation (PT reads back as T)',
     'expect': ('TABLE.readback', 'read_thermdat'),
     'edits': [(T_, "from datetime import datetime\n", "import re\nfrom datetime import datetime\n"),
               (T_, "        nasa_data['elements'][element] = coeff\n",
                "        nasa_data['elements'][element] = coeff\n"
                "    nasa_data['elements'] = {el: int(nn) for el, nn in\n"
                "                             re.findall(r'([A-Z][a-z]?) *(\\d+)', line[24:44])}\n")]},
    {'name': '# and * accepted as comment markers (species named *CO or #OH are dropped)',
     'expect': ('TABLE.readback', 'read_thermdat'),
     'edits': [(T_, "            if line[0] == '!':", "            if line[0] in ('!', '#', '*'):")]},
    {'name': 'phase letter normalised through a table when reading (g reads back as G)',
     'expect': ('TABLE.readback', 'read_thermdat'),
     'edits': [(T_, "    nasa_data['phase'] = line[phase_pos]",
                "    nasa_data['phase'] = {'g': 'G', 'l': 'L', 's': 'S'}.get(line[phase_pos], line[phase_pos])")]},
    {'name': 'Nasa built from positional arguments in the order of the file (T_low, T_high, T_mid)',
     'expect': ('TABLE.readback', 'read_thermdat'),
     'edits': [(T_, "species.append(Nasa(**nasa_data))",
                "species.append(Nasa(nasa_data['name'], nasa_data['T_low'], nasa_data['T_high'], nasa_data['T_mid'],\n"
                "                                    nasa_data['a_low'], nasa_data['a_high'], elements=nasa_data['elements'],\n"
                "                                    phase=nasa_data['phase'], notes=nasa_data.get('notes')))")]},
    {'name': 'temperature header test looks at the first three fields only (a record of non-negative coefficients '
             'is skipped)', 'expect': ('TABLE.readback', 'read_thermdat'),
     'edits': [(T_, "    for field in fields:\n        # See if the field is a float",
                "    for field in fields[:3]:\n        # See if the field is a float")]},
]
EQUIV = [
    {'name': 'reader positions computed', 'edits': [(T_, "    positions = [0, 15, 30, 45]\n    offset = 15\n\n    j = 3", "    offset = 15\n    positions = [offset * k for k in range(4)]\n\n    j = 3")]},
    # white-box round 2: other spellings of the same tests and formats
    {'name': 'comment test spelled startswith', 'edits': [(T_, "            if line[0] == '!':", "            if line.startswith('!'):")]},
    {'name': 'comment test spelled with a slice', 'edits': [(T_, "            if line[0] == '!':", "            if line[:1] == '!':")]},
    {'name': 'keyword tests with their operands exchanged',
     'edits': [(T_, "            if not is_record and 'THERMO' in line:", "            if 'THERMO' in line and not is_record:"),
               (T_, "            if not is_record and 'END' in line:", "            if 'END' in line and not is_record:")]},
    {'name': 'record 2 written with %-formatting',
     'edits': [(T_, "    line = ('{: 2.8E}{: 2.8E}{: 2.8E}{: 2.8E}{: 2.8E}    2\\n'\n            ''.format(nasa_specie.a_high[0], nasa_specie.a_high[1],\n                      nasa_specie.a_high[2], nasa_specie.a_high[3],\n                      nasa_specie.a_high[4]))",
                "    line = ''.join(['% .8E' % nasa_specie.a_high[i] for i in range(5)]) + '    2\\n'")]},
    # white-box round 3
    {'name': 'Nasa built from positional arguments in the order of its signature',
     'edits': [(T_, "species.append(Nasa(**nasa_data))",
                "species.append(Nasa(nasa_data['name'], nasa_data['T_low'], nasa_data['T_mid'], nasa_data['T_high'],\n"
                "                                    nasa_data['a_low'], nasa_data['a_high'], elements=nasa_data['elements'],\n"
                "                                    phase=nasa_data['phase'], notes=nasa_data.get('notes')))")]},
    {'name': 'date stamp from datetime.today()',
     'edits': [(T_, "        now = datetime.now()\n        notes = now.strftime('%Y%m%d')",
                "        notes = datetime.today().strftime('%Y%m%d')")]},
    {'name': 'date stamp from time.strftime',
     'edits': [(T_, "from datetime import datetime\n", "import time\nfrom datetime import datetime\n"),
               (T_, "        now = datetime.now()\n        notes = now.strftime('%Y%m%d')",
                "        notes = time.strftime('%Y%m%d')")]},
]
