"""C01 - statistical-mechanical species are thermodynamically self-consistent."""
import ast
import itertools
import re
from fractions import Fraction as Fr

from ..fold import fold_value, fold_num
from ..nf import Rat, C
from ..source import Unsupported, AnchorError, docstring, params
from ..xlate import (Interp, Obj, ListV, Elem, SumV, Raised, RankOrder, DictV, expected_params, FuncRef,
                     BoundOpaque)


_PlainInterp = Interp


class _CharacteristicTemperatures(set):
    """the characteristic temperatures of the crystal models (theta_E, theta_D) are positive quantities: a validating
    setter that asks `value > 0` is decided for the rule's symbols of these two parameters"""

    def __contains__(self, a):
        return set.__contains__(self, a) or (isinstance(a, str) and ('einstein_temperature' in a or
                                                                      'debye_temperature' in a))


def Interp(*args, **kwargs):        # noqa: F811 - every interpreter of this module knows the two positive parameters
    I = _PlainInterp(*args, **kwargs)
    I.positive_syms = _CharacteristicTemperatures(I.positive_syms)
    return I
from .common import same, show, deriv, is_zero, sub, atoms_of, sig, opaque_obj
from .rxnfix import set_public, get_public

SM = 'pmutt.statmech'

QUANT = ('CvoR', 'CpoR', 'UoRT', 'HoRT', 'SoR', 'FoRT', 'GoRT')


# ----------------------------------------------------------------------
def getv(I, obj, mname, avail):
    """call obj.mname passing only the parameters it expects (the contract of
    pmutt._pass_expected_arguments, which is how StatMech calls its modes)."""
    if mname in obj.opaque_methods:
        ps = obj.opaque_params.get(mname, ())
        return obj.opaque_methods[mname](I, obj, [], {k: v for k, v in avail.items() if k in ps})
    owner, fn = I.repo.find_method(obj.ci, mname)
    names, _, _, kwarg = params(fn)
    if kwarg:
        kw = dict(avail)
    else:
        kw = {k: v for k, v in avail.items() if k in names}
    return I.call_method(obj, mname, [], kw), owner, fn


def val(I, obj, mname, avail):
    r = getv(I, obj, mname, avail)
    return r[0] if isinstance(r, tuple) else r


class SignOrder(RankOrder):
    """all that is known of the generic real wavenumber: it is positive.  A comparison with zero is answered; a
    comparison with any other constant (a cut-off inside the filter) has no answer for the generic element - the
    concrete vectors of ``imaginary_counts`` put witnesses on either side of it, here it is Unsupported"""

    def __init__(self, name):
        RankOrder.__init__(self, {name: 1}, const_ranks=False)

    def rank(self, r):
        if isinstance(r, Rat) and r.iszero():
            return Fr(0)
        return RankOrder.rank(self, r)


# ----------------------------------------------------------------------
# mode table: every class that can sit in a mode slot or in misc_models

def mode_instances(I, repo, suffix='', closed_only=False, only=None):
    """yield (label, obj, avail args, expected H-U, closed_form?); ``suffix`` names a second set of parameter symbols
    (a second object of every class), ``closed_only`` stops after the closed-form modes, ``only`` builds one of them"""
    D = I.D
    T, P = D.sym('T'), D.sym('P')
    base = {'T': T, 'P': P}
    out = []

    def ctor(qual, **kw):
        """the object as a user makes it: ClassName(**kw) through the class's own constructor.  The parameters are
        symbols named after the documented attribute they set (``self.<name>``); what the constructor derives from
        them and keeps under private names is the class's own business"""
        ci_ = repo.cls(qual)
        o_ = I.construct(ci_, [], kw, name='self')
        if isinstance(o_, Raised):
            raise Unsupported('%s(%s) raises %s for generic parameters' % (ci_.name, ', '.join(sorted(kw)), o_.exc))
        return o_

    def p(name):
        return D.sym('self.' + name + suffix)

    def vib(qual, **kw):
        # vibrational models are built by their own constructors from a vector (of any length) of real wavenumbers
        # nu: what they cache, and under which names, is private
        saved_order = I.order
        I.order = SignOrder('nu' + suffix)      # real wavenumbers: nu > 0 while they are built, nothing else is known
        try:
            return ctor(qual, vib_wavenumbers=Elem(D.sym('nu' + suffix)), **kw)
        finally:
            I.order = saved_order

    table = [
        ('FreeTrans', lambda: ctor(SM + '.trans.FreeTrans', n_degrees=p('n_degrees'),
                                   molecular_weight=p('molecular_weight')), 1, True),
        ('HarmonicVib', lambda: vib(SM + '.vib.HarmonicVib'), 0, True),
        ('QRRHOVib', lambda: vib(SM + '.vib.QRRHOVib', Bav=D.sym('Bav' + suffix), v0=D.sym('v0' + suffix)), 0, True),
        ('EinsteinVib', lambda: ctor(SM + '.vib.EinsteinVib', einstein_temperature=p('einstein_temperature'),
                                     interaction_energy=p('interaction_energy')), 0, True),
        ('DebyeVib', lambda: ctor(SM + '.vib.DebyeVib', debye_temperature=p('debye_temperature'),
                                  interaction_energy=p('interaction_energy')), 0, 'debye')]
    for g in ('monatomic', 'linear', 'nonlinear'):
        table.append(('RigidRotor[%s]' % g,
                      lambda g=g: ctor(SM + '.rot.RigidRotor', symmetrynumber=p('symmetrynumber'),
                                       rot_temperatures=Elem(p('rot_temperatures')), geometry=g), 0, True))
    table += [
        ('GroundStateElec', lambda: ctor(SM + '.elec.GroundStateElec', potentialenergy=p('potentialenergy'),
                                         spin=p('spin')), 0, True),
        ('EmptyNucl', lambda: ctor(SM + '.nucl.EmptyNucl'), 0, True),
        ('EmptyMode', lambda: ctor(SM + '.EmptyMode'), 0, True),
        ('GasPressureAdj', lambda: ctor('pmutt.empirical.GasPressureAdj'), 0, True)]
    for label, make, hu, closed in table:
        if only is None or only == label:
            out.append((label, make(), base, hu, closed))
    if closed_only:
        return out
    # models that call into other objects: identities only (no derivative through opaque calls)
    # a reaction as far as the models that lean on one go.  Its dimensionless state getters are, as in
    # pmutt.reaction.Reaction, spellings of the generic one: get_<X>_state(state, ...) IS
    # get_state_quantity(state=state, method_name='get_<X>', ...) - whichever the model asks, it is the same value
    def state_getter(mname):
        def f(I_, obj, args, kwargs):
            if args:
                kwargs = dict(kwargs, state=args[0])
                if len(args) > 1:
                    raise Unsupported('reaction.%s_state with %d positional arguments' % (mname, len(args)))
            return obj.opaque_methods['get_state_quantity'](I_, obj, [], dict(kwargs, method_name=mname))
        return f
    state_qs = ('q', 'CvoR', 'CpoR', 'UoRT', 'EoRT', 'HoRT', 'SoR', 'FoRT', 'GoRT')
    rxn_ps = ('T', 'units', 'rev', 'state', 'P')
    rxn = opaque_obj(I, 'rxn', dict({k: rxn_ps for k in ('get_delta_E', 'get_delta_H', 'get_H_state', 'get_E_state')},
                                    get_state_quantity=rxn_ps + ('method_name',),
                                    **{'get_%s_state' % q_: rxn_ps for q_ in state_qs}),
                     rewrite={'get_%s_state' % q_: state_getter('get_' + q_) for q_ in state_qs})
    sp1 = opaque_obj(I, 'surf', {'get_E': ('T', 'units', 'P'), 'get_H': ('T', 'units', 'P')})
    sp2 = opaque_obj(I, 'gas', {'get_E': ('T', 'units', 'P'), 'get_H': ('T', 'units', 'P')})
    rxn.isa.add('Reaction')
    sp1.isa.add('_ModelBase')
    sp2.isa.add('_ModelBase')
    out.append(('LSR', ctor(SM + '.lsr.LSR', slope=p('slope'), intercept=p('intercept'), reaction=rxn,
                            surf_species=sp1, gas_species=sp2), base, 0, False))
    rxn2 = opaque_obj(I, 'rxn2', {k: ('T', 'units', 'P') for k in ('get_delta_E', 'get_delta_H')})
    rxn2.isa.add('Reaction')
    out.append(('ExtendedLSR', ctor(SM + '.lsr.ExtendedLSR', slopes=ListV([D.sym('m0'), D.sym('m1')]),
                                    intercept=p('intercept'), reactions=ListV([rxn, rxn2]),
                                    surf_species=ListV([sp1, sp2]), gas_species=ListV([sp2, sp1])),
                base, 0, False))
    x = D.sym('x')
    cov = I.construct(repo.cls('pmutt.mixture.cov.PiecewiseCovEffect'), [],
                      {'name_i': 'A', 'name_j': 'B', 'intervals': ListV([C(0), D.sym('b1')]),
                       'slopes': ListV([D.sym('k0'), D.sym('k1')])}, name='self')
    if isinstance(cov, Raised):
        raise Unsupported('PiecewiseCovEffect(name_i, name_j, intervals, slopes) raises %s for generic parameters'
                          % cov.exc)
    out.append(('PiecewiseCovEffect', cov, {'T': T, 'P': P, 'x': x}, 0, False))
    refs = ctor('pmutt.empirical.references.References', offset=DictV({'A': D.sym('offA'), 'B': D.sym('offB')}),
                T_ref=p('T_ref'))
    out.append(('References', refs, {'T': T, 'P': P, 'descriptors': DictV({'A': D.sym('nA'), 'B': D.sym('nB')})},
                'refs', False))
    bep = ctor('pmutt.reaction.bep.BEP', slope=p('slope'), intercept=p('intercept'), descriptor='delta_H')
    out.append(('BEP', bep, {'T': T, 'P': P, 'reaction': rxn}, 'bep', False))
    return out


def check_modes(run, repo):
    I = Interp(repo, order=RankOrder({'x': 1, 'b1': 2}, const_ranks=True))
    D = I.D
    T, P = D.sym('T'), D.sym('P')
    n_twin = n_deriv = 0
    store = {}
    for label, obj, avail, hu, closed in mode_instances(I, repo):
        v = {}
        meta = {}
        for q in QUANT:
            n_hz = len(I.underflow_hazards)
            r = getv(I, obj, 'get_' + q, avail)
            v[q], meta[q] = r[0], (r[1], r[2])
            run.fn('%s.get_%s' % (r[1].qual, q))
            # a logarithm taken of a product over all modes whose factors are Boltzmann factors: with many stiff
            # modes at low temperature (54 modes of hexane below 80 K, 12 modes of 4500 1/cm at 50 K - inside the
            # range the property quantifies over) the product underflows to 0 before the logarithm is taken
            for node, rel, factor in I.underflow_hazards[n_hz:]:
                boltz = [a_ for a_ in factor.atoms() if D.kind.get(a_) == 'exp' and
                         not D.d(D.arg[a_], 'T').iszero()]
                hm = [m_ for m_ in repo.modules.values() if m_.relpath == rel]
                run.check(not boltz, 'TYPE.underflow', '%s.get_%s' % (label, q), 'log of a product over modes',
                          'np.log is applied to a product over all modes of factors %s that decay exponentially '
                          'with theta/T: for species with many stiff modes at low temperature the product '
                          'underflows and the logarithm is -inf although the quantity (a sum of logarithms) is '
                          'finite' % show(factor, 120), hm[0] if hm else r[1].module, node)
        store[label] = (obj, v, meta)
        con = label
        # TWIN
        for g, h, s in (('GoRT', 'HoRT', 'SoR'), ('FoRT', 'UoRT', 'SoR')):
            want = I.binop('-', v[h], v[s])
            owner, fn = meta[g]
            run.check(same(v[g], want), 'TWIN.%s=%s-%s' % (g[0], h[0], s[0]), con + '.get_' + g, 'twin',
                      '%s differs from %s - %s under identical T, P: residual %s'
                      % (g, h, s, show(sub(I, v[g], want))), owner.module, fn,
                      sample={'class': label, 'identity': '%s == %s - %s' % (g, h, s), g: show(v[g], 300)})
            n_twin += 1
        # H - U and Cp - Cv
        if hu in (0, 1, 'refs'):
            if hu == 'refs':
                hu = 0     # the reference adjustment is not a translation: H - U must stay what the modes give
            for a, b, nm in (('HoRT', 'UoRT', 'H-U'), ('CpoR', 'CvoR', 'Cp-Cv')):
                diff = sub(I, v[a], v[b])
                owner, fn = meta[a]
                run.check(same(diff, C(hu)), 'TWIN.' + nm, con + '.get_' + a, nm,
                          '%s - %s = %s but must be %d (RT only with ideal-gas translation)'
                          % (a, b, show(diff), hu), owner.module, fn, sig='%s - %s = %s' % (a, b, show(diff, 200)))
                n_twin += 1
        # DERIV for closed forms
        if closed is True:
            for y, x_, nm in (('CvoR', 'UoRT', 'Cv=d(TU)/dT'), ('CpoR', 'HoRT', 'Cp=d(TH)/dT')):
                lhs = v[y]
                rhs = deriv(I, I.binop('*', T, v[x_]), 'T')
                owner, fn = meta[y]
                run.check(same(lhs, rhs), 'DERIV.' + nm, con + '.get_' + y, nm,
                          '%s differs from d(T*%s)/dT: residual %s' % (y, x_, show(sub(I, lhs, rhs))),
                          owner.module, fn,
                          sample={'class': label, 'identity': nm, y: show(lhs, 300)} if y == 'CvoR' else None)
                n_deriv += 1
            lhs = deriv(I, v['SoR'], 'T')
            rhs = I.binop('/', v['CpoR'], T)
            owner, fn = meta['SoR']
            run.check(same(lhs, rhs), 'DERIV.dS/dT=Cp/T', con + '.get_SoR', 'dS/dT=Cp/T',
                      'dS/dT differs from Cp/T: residual %s' % show(sub(I, lhs, rhs)), owner.module, fn)
            n_deriv += 1
            # pressure dependence
            dS = deriv(I, v['SoR'], 'P')
            want = I.binop('/', C(-1), P) if label in ('FreeTrans', 'GasPressureAdj') else C(0)
            run.check(same(dS, want), 'DERIV.dS/dlnP', con + '.get_SoR', 'dS/dP',
                      'dS/dP = %s; ideal-gas entropy must fall by ln(P2/P1) (dS/dlnP = -1) for translation / the '
                      'pressure adjustment and not depend on P otherwise' % show(dS), owner.module, fn)
            for q in ('CvoR', 'CpoR', 'UoRT', 'HoRT'):
                dq = deriv(I, v[q], 'P')
                run.check(is_zero(dq), 'DERIV.d/dP', con + '.get_' + q, 'd%s/dP' % q,
                          '%s depends on pressure (%s)' % (q, show(dq)), meta[q][0].module, meta[q][1])
            n_deriv += 5
    return I, store, n_twin, n_deriv


def _argmax_first_true(I, fr, args, kwargs, n):
    """np.argmax of a comparison array == index of the first True (0 if none)"""
    v = args[0]
    if isinstance(v, ListV) and all(isinstance(x, bool) for x in v.items):
        for i, x in enumerate(v.items):
            if x:
                return C(i)
        return C(0)
    raise Unsupported('np.argmax operand', n)


# ----------------------------------------------------------------------
# REF: textbook forms written in the same domain

def ref_forms(run, repo, I, store):
    D = I.D
    T, P = D.sym('T'), D.sym('P')
    kb, h, Na, pi = D.sym('kb'), D.sym('h'), D.sym('Na'), D.sym('pi')
    n_ref = 0

    def chk(label, q, want, what):
        nonlocal n_ref
        obj, v, meta = store[label]
        got = v[q]
        owner, fn = meta[q]
        run.check(same(got, want), 'REF.' + what, '%s.get_%s' % (label, q), 'textbook',
                  '%s differs from the textbook %s: got %s, expected %s'
                  % (q, what, show(got, 220), show(want, 220)), owner.module, fn,
                  sample={'class': label, 'quantity': q, 'textbook': what, 'normal_form': show(want, 300)})
        n_ref += 1

    # harmonic oscillator (per mode, summed over the valid vibrational temperatures)
    nu = D.sym('nu')
    cm = repo.module('pmutt.constants')
    th = I.call_function(cm, cm.functions['wavenumber_to_temp'], [nu], {})     # public: h c nu / kB
    x = th / T
    e = D.exp(-x)
    u_h = x / 2 + x * e / (1 - e)
    s_h = x * e / (1 - e) - D.ln(1 - e)
    cv_h = x * x * e / ((1 - e) * (1 - e))
    chk('HarmonicVib', 'UoRT', SumV(C(0), u_h), 'harmonic oscillator U/RT = sum x/2 + x/(e^x-1)')
    chk('HarmonicVib', 'SoR', SumV(C(0), s_h), 'harmonic oscillator S/R = sum x/(e^x-1) - ln(1-e^-x)')
    chk('HarmonicVib', 'CvoR', SumV(C(0), cv_h), 'harmonic oscillator Cv/R = sum x^2 e^x/(e^x-1)^2')
    # partition function, with and without the zero-point factor: prod e^(-x/2)/(1-e^-x) resp. prod 1/(1-e^-x)
    obj_h = store['HarmonicVib'][0]
    oq, fq = repo.find_method(obj_h.ci, 'get_q')
    for zpe, elem, txt in ((True, D.exp(-x / 2) / (1 - e), 'prod e^(-x/2)/(1-e^-x)'), (False, 1 / (1 - e), 'prod 1/(1-e^-x)')):
        got_q = val(I, obj_h, 'get_q', {'T': T, 'include_ZPE': zpe})
        want_q = _prod_atom(I, elem)
        run.check(same(got_q, want_q), 'REF.harmonic oscillator q', 'HarmonicVib.get_q', 'textbook include_ZPE=%s' % zpe,
                  'q_vib(include_ZPE=%s) = %s, expected %s = %s' % (zpe, show(got_q, 200), txt, show(want_q, 200)),
                  oq.module, fq)
        n_ref += 1
    # quasi-RRHO (Grimme): w*harmonic + (1-w)*free rotor
    # Grimme's weights: w = 1/(1 + (v0/nu)^alpha) (alpha = 4, the default) and the effective moment of inertia
    # mu' = mu*Bav/(mu + Bav) with mu = h/(8 pi^2 c nu)
    v0, Bav = D.sym('v0'), D.sym('Bav')
    r4 = (v0 / nu) * (v0 / nu) * (v0 / nu) * (v0 / nu)
    w = 1 / (1 + r4)
    freq = th * kb / h                  # c nu in 1/s
    mu0 = h / (8 * pi * pi * freq)
    mu = mu0 * Bav / (mu0 + Bav)
    s_rot = Fr(1, 2) + D.ln(D.powq(C(8) * pi * pi * pi * mu * kb * T / (h * h), Fr(1, 2)))
    chk('QRRHOVib', 'UoRT', SumV(C(0), w * u_h + (1 - w) * Fr(1, 2)), 'quasi-RRHO U/RT = sum w*U_HO + (1-w)/2')
    chk('QRRHOVib', 'CvoR', SumV(C(0), w * cv_h + (1 - w) * Fr(1, 2)), 'quasi-RRHO Cv/R = sum w*Cv_HO + (1-w)/2')
    chk('QRRHOVib', 'SoR', SumV(C(0), w * s_h + (1 - w) * s_rot),
        'quasi-RRHO S/R = sum w*S_HO + (1-w)*(1/2 + ln sqrt(8 pi^3 mu\' kT/h^2))')
    # Einstein crystal: three oscillators per atom + interaction energy
    thE = D.sym('self.einstein_temperature')
    uE = D.sym('self.interaction_energy')
    xe = thE / T
    ee = D.exp(-xe)
    kb_eV = kb * D.sym('U<eV>')
    chk('EinsteinVib', 'UoRT', uE / (kb_eV * T) + 3 * (xe / 2 + xe * ee / (1 - ee)),
        'Einstein U/RT = u/kT + 3(x/2 + x/(e^x-1))')
    chk('EinsteinVib', 'SoR', 3 * (xe * ee / (1 - ee) - D.ln(1 - ee)), 'Einstein S/R = 3(x/(e^x-1) - ln(1-e^-x))')
    chk('EinsteinVib', 'CvoR', 3 * xe * xe * ee / ((1 - ee) * (1 - ee)), 'Einstein Cv/R = 3 x^2 e^x/(e^x-1)^2')
    # partition function: the closed form the class documents (Sandler), q = e^(-u/kT) e^(-x/2)/(1 - e^-x) - the
    # Boltzmann factor of the interaction energy times the harmonic oscillator of the Einstein frequency
    obj_e = store['EinsteinVib'][0]
    oq, fq = repo.find_method(obj_e.ci, 'get_q')
    got_q = val(I, obj_e, 'get_q', {'T': T})
    want_q = D.exp(-uE / (kb_eV * T)) * D.exp(-xe / 2) / (1 - ee)
    run.check(same(got_q, want_q), 'REF.Einstein q', 'EinsteinVib.get_q', 'textbook',
              'q_vib = %s, expected e^(-u/kT) e^(-x/2)/(1-e^-x) with x = theta_E/T: %s'
              % (show(got_q, 200), show(want_q, 200)), oq.module, fq,
              sig=lambda: 'got/expected = %s' % show(got_q / want_q, 160) if isinstance(got_q, Rat) else 'not a number')
    n_ref += 1
    # rigid rotor
    sigma = D.sym('self.symmetrynumber')
    for g, dof in (('linear', 1), ('nonlinear', Fr(3, 2))):
        obj, v, meta = store['RigidRotor[%s]' % g]
        prod = val(I, obj, 'get_q', {'T': T})
        # q must be T/(sigma*theta) resp. sqrt(pi)/sigma*sqrt(T^3/prod(theta)); checked through S = ln q + U
        chk('RigidRotor[%s]' % g, 'UoRT', C(dof), 'rigid rotor U/RT = %s' % dof)
        chk('RigidRotor[%s]' % g, 'SoR', D.ln(prod) + C(dof), 'rigid rotor S/R = ln q + U/RT')
        thp = _prod_atom(I, D.sym('self.rot_temperatures'))
        want_q = T / (sigma * thp) if g == 'linear' else \
            D.powq(pi, Fr(1, 2)) / sigma * D.powq(T * T * T / thp, Fr(1, 2))
        owner, fn = repo.find_method(obj.ci, 'get_q')
        run.check(same(prod, want_q), 'REF.rigid rotor q', 'RigidRotor[%s].get_q' % g, 'textbook',
                  'q_rot = %s, expected %s' % (show(prod), show(want_q)), owner.module, fn)
        n_ref += 1
    chk('RigidRotor[monatomic]', 'UoRT', C(0), 'no rotation for an atom')
    chk('RigidRotor[monatomic]', 'SoR', C(0), 'no rotation for an atom')
    # translation: Sackur-Tetrode, n-degree generalisation
    obj, v, meta = store['FreeTrans']
    nd = D.sym('self.n_degrees')
    m = D.sym('self.molecular_weight') * (D.sym('U<kg>') if 'U<kg>' in D.kind else C(1)) / D.sym('U<g>') / Na
    vol = kb * T / (P * (C(1) / D.sym('U<bar>')))      # kT/P with P in bar -> Pa
    lam = D.pow_sym(C(2) * pi * m * kb * T / (h * h), nd / 2)
    q_want = lam * vol
    q_got = val(I, obj, 'get_q', {'T': T, 'P': P})
    owner, fn = repo.find_method(obj.ci, 'get_q')
    run.check(same(q_got, q_want), 'REF.translation q', 'FreeTrans.get_q', 'textbook',
              'q_trans = %s, expected (2 pi m kT/h^2)^(n/2) * kT/P = %s' % (show(q_got), show(q_want)),
              owner.module, fn)
    n_ref += 1
    chk('FreeTrans', 'UoRT', nd / 2, 'translation U/RT = n/2')
    chk('FreeTrans', 'SoR', D.ln(q_want) + 1 + nd / 2, 'Sackur-Tetrode S/R = ln(q/N) + 1 + n/2')
    # electronic ground state
    obj, v, meta = store['GroundStateElec']
    chk('GroundStateElec', 'UoRT', D.sym('self.potentialenergy') / (kb_eV * T), 'electronic U/RT = E/kT')
    chk('GroundStateElec', 'CvoR', C(0), 'no electronic heat capacity')
    # pressure adjustment
    chk('GasPressureAdj', 'SoR', -D.ln(P), 'S/R = -ln(P/bar)')
    chk('GasPressureAdj', 'HoRT', C(0), 'no enthalpy')
    chk('GasPressureAdj', 'CpoR', C(0), 'no heat capacity')
    return n_ref


def _prod_atom(I, r):
    name = 'PROD{%r}' % (r,)
    I.D.kind.setdefault(name, 'prod')
    I.D.arg.setdefault(name, r)
    return Rat.atom(name)


# ----------------------------------------------------------------------
# Debye: integrands against the textbook, lemma-checked

def debye(run, repo, I, store):
    """The integrals are found in the values of the public getters, not by the names of the private helpers that
    build them: U/RT must hold one integral (the Debye function F), Cv/R one (K), S/R two (F and G); each must run
    from 0 to x = theta_D/T and its integrand must be the textbook one of its role."""
    D = I.D
    obj, v, meta = store['DebyeVib']
    T = D.sym('T')
    ci = obj.ci
    theta = D.sym('self.debye_temperature')
    xd = theta / T
    exd = D.exp(xd)
    forms = {
        'F': (xd * xd * xd / (exd - 1), 'x^3/(e^x-1) (Debye function integrand)'),
        'K': (xd * xd * xd * xd * exd / ((exd - 1) * (exd - 1)), 'x^4 e^x/(e^x-1)^2'),
        'G': (xd * xd * D.ln(1 - D.exp(-xd)), 'x^2 ln(1-e^-x)'),
    }
    uses = (('UoRT', ['F']), ('CvoR', ['K']), ('SoR', ['F', 'G']))
    ints = {}           # role -> integral atom
    judged = {}         # integral atom -> role
    ok_int = True
    for q, roles in uses:
        owner, fn = meta[q]
        atoms = sorted(a for a in v[q].atoms() if a.startswith('INT<'))
        if len(atoms) != len(roles):
            run.fail('REF.debye integrals', 'DebyeVib.get_' + q, 'textbook',
                     '%s/R(T) holds %d integral(s), the Debye model has %d there: %s'
                     % (q, len(atoms), len(roles), show(v[q])), owner.module, fn)
            return
        # the integrand (evaluated at the upper limit) decides the role; what is left over takes the role left over
        pending = list(roles)
        unmatched = []
        for a in atoms:
            hit = [r for r in pending if same(D.integrand[a], forms[r][0])]
            if hit:
                pending.remove(hit[0])
                judged.setdefault(a, hit[0])
                ints.setdefault(hit[0], a)
            else:
                unmatched.append(a)
        for a, r in zip(unmatched, pending):
            if a in judged:
                continue
            judged[a] = r
            ints.setdefault(r, a)
        for a in atoms:
            r = judged[a]
            fref, lo, hi = I.integrals[a]
            iowner = fref.owner if fref.owner is not None else owner
            lim_ok = isinstance(lo, Rat) and lo.iszero() and same(D.arg[a], xd)
            run.check(lim_ok, 'REF.debye limits', 'DebyeVib %s-integral' % r, 'textbook',
                      'the integral runs to %s, expected from 0 to theta_D/T' % show(D.arg[a]), owner.module, fn)
            if ('integrand', a) in judged:
                continue
            judged[('integrand', a)] = True
            want, txt = forms[r]
            got = D.integrand[a]
            good = same(got, want)
            ok_int = ok_int and good
            extra = ''
            if not good and isinstance(got, Rat):
                extra = ' (ratio got/expected = %s)' % show(got / want)
            fname = getattr(fref.fn, 'name', '<lambda>')
            run.fn('%s.%s' % (iowner.qual if hasattr(iowner, 'qual') else ci.qual, fname))
            run.check(good, 'REF.debye integrand', 'DebyeVib %s-integrand' % r, 'textbook',
                      'the integrand of the %s-integral (%s, reached from get_%s) is %s at x, expected %s%s'
                      % (r, fname, q, show(got), txt, extra), fref.module, fref.fn,
                      sample={'class': 'DebyeVib', 'integrand': fname, 'role': r, 'textbook': txt},
                      sig=lambda: 'got/expected = %s' % show(got / want, 200) if isinstance(got, Rat) else 'no integrand')
    if len(ints) != 3:
        return
    ints = {k: Rat.atom(a) for k, a in ints.items()}
    F, K, G = (3 * ints[k] / (xd * xd * xd) for k in ('F', 'K', 'G'))
    kb_eV = D.sym('kb') * D.sym('U<eV>')
    u = D.sym('self.interaction_energy')
    owner, fn = meta['UoRT']
    zpe = val(I, obj, 'get_ZPE', {})
    want_zpe = u + Fr(9, 8) * kb_eV * theta
    o2, f2 = repo.find_method(ci, 'get_ZPE')
    run.check(same(zpe, want_zpe), 'REF.debye ZPE', 'DebyeVib.get_ZPE', 'textbook',
              'zero-point energy is %s, expected u + 9/8 kB theta_D' % show(zpe), o2.module, f2)
    run.check(same(v['UoRT'], want_zpe / (kb_eV * T) + 3 * F), 'REF.debye U', 'DebyeVib.get_UoRT', 'textbook',
              'U/RT is not (u + 9/8 k theta)/kT + 3 D(x): %s' % show(v['UoRT']), owner.module, fn)
    owner, fn = meta['SoR']
    run.check(same(v['SoR'], 3 * (F - G)), 'REF.debye S', 'DebyeVib.get_SoR', 'textbook',
              'S/R is not 3(F - G) = 4 D(x) - 3 ln(1-e^-x): %s' % show(v['SoR']), owner.module, fn)
    owner, fn = meta['CvoR']
    run.check(same(v['CvoR'], 3 * K), 'REF.debye Cv', 'DebyeVib.get_CvoR', 'textbook',
              'Cv/R is not 3 K(x): %s' % show(v['CvoR']), owner.module, fn)
    # partition function (per oscillator, 3 per atom): q = exp(-u/3kT - 3x/8 - G(x)), so that -3 ln q is F/RT
    oq, fq = repo.find_method(ci, 'get_q')
    got_q = val(I, obj, 'get_q', {'T': T})
    want_q = D.exp(-u / (3 * kb_eV * T) - Fr(3, 8) * xd - G)
    run.check(same(got_q, want_q), 'REF.debye q', 'DebyeVib.get_q', 'textbook',
              'q is not exp(-u/3kT - 3x/8 - G(x)) with x = theta_D/T and G the integral of x^2 ln(1-e^-x): %s'
              % show(got_q, 200), oq.module, fq)
    # thermodynamic consistency of the textbook combination itself (cross-validates the oracle):
    # with the textbook integrands, I_K = 4 I_F - x^4/(e^x-1) and I_G = x^3/3 ln(1-e^-x) - I_F/3
    # (integration by parts; both sides vanish at x -> 0, their x-derivatives are compared here)
    x = D.sym('xD')
    ex = D.exp(x)
    fF = x * x * x / (ex - 1)
    fK = x * x * x * x * ex / ((ex - 1) * (ex - 1))
    fG = x * x * D.ln(1 - D.exp(-x))
    lem1 = fK - (4 * fF - D.d(x * x * x * x / (ex - 1), 'xD'))
    lem2 = fG - (D.d(x * x * x / 3 * D.ln(1 - D.exp(-x)), 'xD') - fF / 3)
    if not (lem1.iszero() and lem2.iszero()):
        raise Unsupported('internal: Debye lemma does not hold in the domain')
    if ok_int:
        # DERIV under the lemmas: substitute I_K, I_G in terms of I_F and require identities in I_F
        IF = D.sym('I_F')
        IK = 4 * IF - xd * xd * xd * xd / (exd - 1)
        IG = xd * xd * xd / 3 * D.ln(1 - D.exp(-xd)) - IF / 3
        D.kind['I_F'] = 'int'
        D.arg['I_F'] = xd
        D.integrand['I_F'] = xd * xd * xd / (exd - 1)
        Ff, Kf, Gf = (3 * t / (xd * xd * xd) for t in (IF, IK, IG))
        U = want_zpe / (kb_eV * T) + 3 * Ff
        S = 3 * (Ff - Gf)
        Cv = 3 * Kf
        owner, fn = meta['CvoR']
        run.check(D.d(T * U, 'T').eq(Cv), 'DERIV.Cv=d(TU)/dT', 'DebyeVib.get_CvoR', 'Cv=d(TU)/dT',
                  'Debye Cv differs from d(T*U)/dT', owner.module, fn)
        owner, fn = meta['SoR']
        run.check(D.d(S, 'T').eq(Cv / T), 'DERIV.dS/dT=Cp/T', 'DebyeVib.get_SoR', 'dS/dT=Cp/T',
                  'Debye dS/dT differs from Cv/T', owner.module, fn)


# ----------------------------------------------------------------------
# nothing is remembered between calls, objects or temperatures

def hidden_state(run, repo, I, store):
    """A value a mode reports is a function of ITS parameters and of the T, P it is asked at - not of what was
    evaluated before in the same process.  After the sweep over the first object of every closed-form class (in the
    interpreter ``I``, which keeps everything the program keeps: class-level and module-level containers, memo
    dictionaries, cached attributes) a SECOND object of the class with parameters of its own is evaluated at the same
    T, P and at a second T2, P2, the first object is evaluated at T2, P2 (thorough tier) and then once more at T, P.  Each value must
    be what a process that has evaluated nothing else reports for that object and those conditions (a fresh
    interpreter per object and condition: the reference shares nothing)."""
    D = I.D
    T, P, T2, P2 = D.sym('T'), D.sym('P'), D.sym('T2'), D.sym('P2')
    conds = (('same T, P', {'T': 'T', 'P': 'P'}), ('second T, P', {'T': 'T2', 'P': 'P2'}))
    quantities = ('q',) + QUANT
    second = {lab: ob for lab, ob, _, _, _ in mode_instances(I, repo, suffix='#2', closed_only=True)}
    n = 0

    def fresh(label, suffix, cond):
        J = Interp(repo, order=RankOrder({'x': 1, 'b1': 2}, const_ranks=True))
        ob = mode_instances(J, repo, suffix=suffix, closed_only=True, only=label)[0][1]
        kw = {k: J.D.sym(v) for k, v in cond.items()}
        return {q: show(val(J, ob, 'get_' + q, kw), 4000) for q in quantities}

    plan = []
    for label in second:
        plan.append((label, 'second object', second[label], '#2', conds[0]))
    for label in second:
        plan.append((label, 'second object', second[label], '#2', conds[1]))
    if run.tier == 'thorough':
        for label in second:
            plan.append((label, 'first object', store[label][0], '', conds[1]))
    for label, which, ob, suffix, (cname, cond) in plan:
        want = fresh(label, suffix, cond)
        kw = {k: D.sym(v) for k, v in cond.items()}
        for q in quantities:
            got = val(I, ob, 'get_' + q, kw)
            owner, fn = repo.find_method(ob.ci, 'get_' + q)
            run.check(show(got, 4000) == want[q], 'EFFECT.state', '%s.get_%s' % (label, q),
                      '%s, %s' % (which, cname),
                      'the value depends on what was evaluated before: get_%s of the %s of this class at %s, asked '
                      'after other objects / conditions were evaluated in the same process, is %s; the same object '
                      'asked first reports %s (something is remembered between calls, objects or temperatures - a '
                      'memo or class-level container whose key does not hold everything the value depends on)'
                      % (q, which, cname, show(got, 160), want[q][:160]), owner.module, fn,
                      sample='%s: %s at %s == the value in a fresh process' % (label, which, cname)
                      if q == 'SoR' else None)
            n += 1
    # ... and the first object asked again at T, P still reports what it reported in the first sweep
    for label in second:
        ob, v, meta = store[label]
        for q in QUANT:
            got = val(I, ob, 'get_' + q, {'T': T, 'P': P})
            owner, fn = meta[q]
            run.check(same(got, v[q]), 'EFFECT.state', '%s.get_%s' % (label, q), 'first object again',
                      'get_%s of the same object at the same T, P is %s after other objects and temperatures were '
                      'evaluated, it was %s before' % (q, show(got, 160), show(v[q], 160)), owner.module, fn)
            n += 1
    return n


# ----------------------------------------------------------------------
# aggregation over modes

MODE_ATTRS = ('trans_model', 'vib_model', 'rot_model', 'elec_model', 'nucl_model')


def aggregation(run, repo):
    ci = repo.cls(SM + '.StatMech')
    n = 0
    methods = ['get_q'] + ['get_' + q for q in QUANT]

    def twin_rewrite(h, s):
        def f(I_, obj, args, kwargs):
            a = obj.opaque_methods[h](I_, obj, [], kwargs)
            b = obj.opaque_methods[s](I_, obj, [], kwargs)
            return a - b
        return f

    def build(I, references=True, misc=True, mode_params=('T', 'P')):
        D = I.D
        modes = {}
        for a in MODE_ATTRS:
            modes[a] = opaque_obj(I, a, {m: tuple(mode_params) for m in methods + ['get_ZPE']},
                                  rewrite={'get_GoRT': twin_rewrite('get_HoRT', 'get_SoR'),
                                           'get_FoRT': twin_rewrite('get_UoRT', 'get_SoR')})
        # the species is made as a user makes it - StatMech(name=..., trans_model=..., ..., elements=..., references=...,
        # misc_models=[...]) - and given one more composition-like attribute of the user's own (``groups``)
        kw = dict(modes)
        kw['name'] = 'sp'
        parts = {'elements': DictV({'H': D.sym('nH'), 'O': D.sym('nO')}),
                 'groups': DictV({'G1': D.sym('nG1'), 'G2': D.sym('nG2')}), 'references': None, 'misc_models': None}
        kw['elements'] = parts['elements']
        if references:
            refs = opaque_obj(I, 'refs', {m: ('descriptors', 'T') for m in methods},
                              rewrite={'get_GoRT': twin_rewrite('get_HoRT', 'get_SoR'),
                                       'get_FoRT': twin_rewrite('get_UoRT', 'get_SoR')})
            refs.attrs['descriptor'] = references if isinstance(references, str) else 'elements'
            kw['references'] = parts['references'] = refs
        if misc:
            # one attached model, or several (the normal use: one coverage effect per neighbouring species), each
            # with values of its own
            mms = []
            for j in range(int(misc)):
                mm = opaque_obj(I, 'misc%d' % j, {m: ('T', 'P') for m in methods},
                                rewrite={'get_GoRT': twin_rewrite('get_HoRT', 'get_SoR'),
                                         'get_FoRT': twin_rewrite('get_UoRT', 'get_SoR')})
                mm.attrs['name_j'] = 'other' if j == 0 else 'other%d' % (j + 1)
                mms.append(mm)
            parts['misc_models'] = mms
            kw['misc_models'] = ListV(list(mms))
        sp = I.construct(ci, [], kw, name='sp')
        if isinstance(sp, Raised):
            raise Unsupported('StatMech(...) raises %s for a species of uninterpreted modes' % sp.exc)
        set_public(I, sp, 'groups', parts['groups'])
        sp.parts = parts
        return sp, modes

    for mname in methods:
        op = 'prod' if mname == 'get_q' else 'sum'
        ident = C(1) if op == 'prod' else C(0)
        owner, fn = repo.find_method(ci, mname)
        run.fn(owner.qual + '.' + mname)
        for references in ('elements', 'groups', False):
            for misc in (1, 2, 0):
                I = Interp(repo)
                D = I.D
                T, P = D.sym('T'), D.sym('P')
                sp, modes = build(I, references, misc)
                key = '%s refs=%s misc=%s' % (mname, {'elements': True, 'groups': 'by groups', False: False}[references],
                                              {1: True, 0: False}.get(misc, misc))
                kw = {'T': T, 'P': P}
                verbose = I.call_method(sp, mname, [], dict(kw, verbose=True))
                total = I.call_method(sp, mname, [], dict(kw))
                # expected per-mode list
                exp = [val(I, modes[a], mname, kw) for a in MODE_ATTRS]
                if references:
                    # the references are described by the attribute THEY name (elements by default, any other
                    # composition-like dictionary of the species otherwise)
                    exp.append(val(I, sp.parts['references'], mname,
                                   {'descriptors': sp.parts[references], 'T': T}))
                else:
                    exp.append(ident)
                if misc:
                    exp.extend(val(I, mm_, mname, kw) for mm_ in sp.parts['misc_models'])
                else:
                    exp.append(ident)
                ok = isinstance(verbose, ListV) and len(verbose) == len(exp) and \
                    all(same(a, b) for a, b in zip(verbose.items, exp))
                run.check(ok, 'AGG.verbose', 'StatMech.' + mname, key,
                          'verbose form is not [trans, vib, rot, elec, nucl, references, misc...] each evaluated '
                          'with the same T, P: got %s' % show(verbose, 300), owner.module, fn,
                          sample={'method': mname, 'verbose': show(verbose, 300)} if references and misc else None)
                agg = ident
                for e in exp:
                    agg = I.binop('*' if op == 'prod' else '+', agg, e)
                run.check(same(total, agg), 'AGG.total', 'StatMech.' + mname, key,
                          'species total is not the %s of the per-mode contributions reported in verbose form: %s'
                          % (op, show(total, 300)), owner.module, fn)
                n += 2
                if references:
                    # the options are crossed, not varied one at a time: the breakdown asked for WITH the references
                    # switched off lists the neutral element in their place (and still adds up to the total)
                    verbose_off = I.call_method(sp, mname, [], dict(kw, verbose=True, use_references=False))
                    exp_off = list(exp)
                    exp_off[len(MODE_ATTRS)] = ident
                    ok = isinstance(verbose_off, ListV) and len(verbose_off) == len(exp_off) and \
                        all(same(a, b) for a, b in zip(verbose_off.items, exp_off))
                    run.check(ok, 'AGG.verbose', 'StatMech.' + mname, key + ' use_references=False',
                              'verbose form with use_references=False is not [trans, vib, rot, elec, nucl, %s, '
                              'misc...]: the references were switched off, their entry must be the neutral element '
                              'and the list must add up to the total reported without verbose; got %s'
                              % (show(ident), show(verbose_off, 300)), owner.module, fn)
                    n += 1
                    off = I.call_method(sp, mname, [], dict(kw, use_references=False))
                    I2 = Interp(repo)
                    sp2, _ = build(I2, False, misc)
                    none = I2.call_method(sp2, mname, [], {'T': I2.D.sym('T'), 'P': I2.D.sym('P')})
                    run.check(show(off, 2000) == show(none, 2000), 'AGG.refs-off', 'StatMech.' + mname, key,
                              'use_references=False does not give the value of the same species without '
                              'references', owner.module, fn)
                    n += 1
        if run.tier == 'thorough':
            # the full cross product of the options of get_quantity on one species with references and an attached
            # model (the quick tier crosses verbose with use_references only)
            for use_refs in (True, False):
                for zpe in (None, True, False):
                    for extra in ({}, {'raise_error': False, 'raise_warning': False}):
                        I = Interp(repo)
                        D = I.D
                        T, P = D.sym('T'), D.sym('P')
                        sp, modes = build(I, 'elements', 1, mode_params=('T', 'P', 'include_ZPE'))
                        kw = {'T': T, 'P': P}
                        if zpe is not None:
                            kw['include_ZPE'] = zpe
                        exp = [val(I, modes[a], mname, kw) for a in MODE_ATTRS]
                        exp.append(val(I, sp.parts['references'], mname,
                                       {'descriptors': sp.parts['elements'], 'T': T}) if use_refs else ident)
                        exp.extend(val(I, mm_, mname, kw) for mm_ in sp.parts['misc_models'])
                        agg = ident
                        for e in exp:
                            agg = I.binop('*' if op == 'prod' else '+', agg, e)
                        key = 'options use_references=%s include_ZPE=%s%s' % (
                            use_refs, {None: 'not given'}.get(zpe, zpe), ' raise_error=False' if extra else '')
                        call_kw = dict(kw, use_references=use_refs, **extra)
                        got_v = I.call_method(sp, mname, [], dict(call_kw, verbose=True))
                        got_t = I.call_method(sp, mname, [], dict(call_kw, verbose=False))
                        ok = isinstance(got_v, ListV) and len(got_v) == len(exp) and \
                            all(same(a, b) for a, b in zip(got_v.items, exp))
                        run.check(ok, 'AGG.verbose', 'StatMech.' + mname, key,
                                  'verbose form under these options is not [trans, vib, rot, elec, nucl, references '
                                  '(neutral element when switched off), misc] each evaluated with the options given: '
                                  'got %s' % show(got_v, 300), owner.module, fn)
                        run.check(same(got_t, agg), 'AGG.total', 'StatMech.' + mname, key,
                                  'species total under these options is not the %s of the contributions: %s'
                                  % (op, show(got_t, 300)), owner.module, fn)
                        n += 2
        # per-species keyword block is routed to this species only
        I = Interp(repo)
        D = I.D
        T, P, P2 = D.sym('T'), D.sym('P'), D.sym('P2')
        sp, modes = build(I, False, False)
        got = I.call_method(sp, mname, [], {'T': T, 'P': P, 'sp_kwargs': DictV({'P': P2}),
                                            'other_kwargs': DictV({'P': D.sym('P3')}), 'verbose': True})
        exp = [val(I, modes[a], mname, {'T': T, 'P': P2}) for a in MODE_ATTRS]
        ok = isinstance(got, ListV) and all(same(a, b) for a, b in zip(got.items[:5], exp))
        run.check(ok, 'AGG.kwargs', 'StatMech.' + mname, 'species-block',
                  'conditions addressed to this species (sp_kwargs) do not reach its modes, or another '
                  'species\' block does: %s' % show(got, 300), owner.module, fn)
        n += 1
        # ... and the same species asked again with another block (nothing is remembered under a key without it)
        P4 = D.sym('P4')
        got = I.call_method(sp, mname, [], {'T': T, 'P': P, 'sp_kwargs': DictV({'P': P4}), 'verbose': True})
        exp = [val(I, modes[a], mname, {'T': T, 'P': P4}) for a in MODE_ATTRS]
        ok = isinstance(got, ListV) and all(same(a, b) for a, b in zip(got.items[:5], exp))
        run.check(ok, 'AGG.kwargs', 'StatMech.' + mname, 'species-block, asked again with another block',
                  'the same species asked a second time with other conditions in its block (sp_kwargs) must report '
                  'the modes at THOSE conditions: %s' % show(got, 300), owner.module, fn)
        n += 1
        # an option of the modes (include_ZPE: the harmonic partition function with or without the zero-point
        # factor) given to the species reaches every mode that expects it, with the value given
        for flag in (False, True):
            I = Interp(repo)
            D = I.D
            T, P = D.sym('T'), D.sym('P')
            sp, modes = build(I, False, False, mode_params=('T', 'P', 'include_ZPE'))
            kw = {'T': T, 'P': P, 'include_ZPE': flag}
            got = I.call_method(sp, mname, [], dict(kw, verbose=True))
            total = I.call_method(sp, mname, [], dict(kw))
            exp = [val(I, modes[a], mname, kw) for a in MODE_ATTRS]
            ok = isinstance(got, ListV) and len(got) >= 5 and all(same(a, b) for a, b in zip(got.items[:5], exp))
            run.check(ok, 'AGG.option', 'StatMech.' + mname, 'include_ZPE=%s verbose' % flag,
                      'include_ZPE=%s given to the species does not reach the modes that expect it: %s'
                      % (flag, show(got, 300)), owner.module, fn,
                      sample={'method': mname, 'include_ZPE': flag, 'verbose': show(got, 300)}
                      if mname == 'get_q' and not flag else None)
            agg = ident
            for e in exp:
                agg = I.binop('*' if op == 'prod' else '+', agg, e)
            run.check(same(total, agg), 'AGG.option', 'StatMech.' + mname, 'include_ZPE=%s total' % flag,
                      'the species total with include_ZPE=%s is not the %s of the modes evaluated with that option: '
                      '%s' % (flag, op, show(total, 300)), owner.module, fn)
            n += 2
        # a mode that does not offer the quantity: an error by default; with raise_error=False it contributes the
        # neutral element of the operation, announced by a warning unless raise_warning=False - in whichever slot the
        # mode sits (each of the five mode slots, the references, an attached model)
        slots_ = list(MODE_ATTRS) + ['references', 'misc_models']
        if run.tier != 'thorough' and mname not in ('get_q', 'get_HoRT'):
            slots_ = ['rot_model']
        for slot in slots_:
            for re_, rw_ in ((True, True), (False, True), (False, False)):
                I = Interp(repo)
                D = I.D
                T, P = D.sym('T'), D.sym('P')
                sp, modes = build(I, 'elements', 1)
                holders = dict(modes, references=sp.parts['references'], misc_models=sp.parts['misc_models'][0])
                del holders[slot].opaque_methods[mname]
                holders[slot].missing.add(mname)
                nwarn = len(I.warnings)
                got = I.call_method(sp, mname, [], {'T': T, 'P': P, 'verbose': True, 'raise_error': re_,
                                                    'raise_warning': rw_})
                key = 'mode without the quantity%s raise_error=%s raise_warning=%s' % (
                    '' if slot == 'rot_model' else ' in ' + slot, re_, rw_)
                if re_:
                    ok = isinstance(got, Raised) and got.exc == 'AttributeError'
                    why = 'must raise AttributeError, got %s' % show(got, 120)
                else:
                    kw = {'T': T, 'P': P}
                    exp = [ident if a_ == slot else val(I, modes[a_], mname, kw) for a_ in MODE_ATTRS]
                    exp.append(ident if slot == 'references' else
                               val(I, sp.parts['references'], mname, {'descriptors': sp.parts['elements'], 'T': T}))
                    exp.append(ident if slot == 'misc_models' else val(I, sp.parts['misc_models'][0], mname, kw))
                    ok = isinstance(got, ListV) and len(got) == len(exp) and \
                        all(same(a_, b_) for a_, b_ in zip(got.items, exp)) and (len(I.warnings) > nwarn) == rw_
                    why = 'must contribute %s for that mode and %s: got %s, %d warning(s)' % (
                        show(ident), 'warn' if rw_ else 'stay silent', show(got, 200), len(I.warnings) - nwarn)
                run.check(ok, 'AGG.missing-mode', 'StatMech.' + mname, key,
                          'a mode (%s) that lacks %s with raise_error=%s, raise_warning=%s %s'
                          % (slot, mname, re_, rw_, why), owner.module, fn)
                n += 1
    # species-level twins incl. entropy-of-elements bookkeeping
    for sel in (None, True):
        I = Interp(repo)
        D = I.D
        T, P = D.sym('T'), D.sym('P')
        sp, modes = build(I, True, True)
        kw = {'T': T, 'P': P, 'S_elements': sel}
        kw2 = {'T': T, 'P': P}
        G = I.call_method(sp, 'get_GoRT', [], dict(kw))
        F = I.call_method(sp, 'get_FoRT', [], dict(kw))
        H = I.call_method(sp, 'get_HoRT', [], dict(kw2))
        U = I.call_method(sp, 'get_UoRT', [], dict(kw2))
        S = I.call_method(sp, 'get_SoR', [], dict(kw))
        owner, fn = repo.find_method(ci, 'get_GoRT')
        run.check(same(G, I.binop('-', H, S)), 'TWIN.G=H-S', 'StatMech.get_GoRT', 'S_elements=%s' % sel,
                  'species G/RT differs from H/RT - S/R: %s' % show(sub(I, G, I.binop('-', H, S))),
                  owner.module, fn)
        owner, fn = repo.find_method(ci, 'get_FoRT')
        run.check(same(F, I.binop('-', U, S)), 'TWIN.F=U-S', 'StatMech.get_FoRT', 'S_elements=%s' % sel,
                  'species F/RT differs from U/RT - S/R: %s' % show(sub(I, F, I.binop('-', U, S))),
                  owner.module, fn)
        n += 2
    # the same twins on the values with units, references and misc models attached, under every option the
    # getters share (G = H - T*S, F = U - T*S in J/mol and eV; an option consumed by one of them shows)
    for opts in ({}, {'use_references': False}, {'S_elements': True}, {'use_references': False, 'S_elements': True}):
        I = Interp(repo)
        D = I.D
        T, P = D.sym('T'), D.sym('P')
        sp, modes = build(I, True, True)
        for units in ('J/mol', 'eV'):
            vals = {}
            for q in ('G', 'H', 'S', 'F', 'U'):
                owner, fn = repo.find_method(ci, 'get_' + q)
                names = params(fn)[0]
                kw = {'T': T, 'P': P, 'units': units + '/K' if q == 'S' else units}
                kw.update({k: v for k, v in opts.items() if k in names})
                vals[q] = I.call_method(sp, 'get_' + q, [], kw)
            key = '%s %s' % (units, ','.join('%s=%s' % kv for kv in sorted(opts.items())) or 'defaults')
            for q, e in (('G', 'H'), ('F', 'U')):
                owner, fn = repo.find_method(ci, 'get_' + q)
                want = I.binop('-', vals[e], I.binop('*', T, vals['S']))
                run.check(same(vals[q], want), 'TWIN.%s=%s-TS' % (q, e), 'StatMech.get_' + q, key,
                          'species %s differs from %s - T*S in %s under the same options: %s'
                          % (q, e, units, show(sub(I, vals[q], want))), owner.module, fn)
                n += 1
    # get_EoRT: electronic energy, plus ZPE/RT iff include_ZPE
    I = Interp(repo)
    D = I.D
    T = D.sym('T')
    sp, modes = build(I, False, False)
    owner, fn = repo.find_method(ci, 'get_EoRT')
    run.fn(owner.qual + '.get_EoRT')
    e0 = I.call_method(sp, 'get_EoRT', [], {'T': T})
    e1 = I.call_method(sp, 'get_EoRT', [], {'T': T, 'include_ZPE': True})
    eu = val(I, modes['elec_model'], 'get_UoRT', {'T': T})
    zpe = val(I, modes['vib_model'], 'get_ZPE', {'T': T})
    kb_eV = D.sym('kb') * D.sym('U<eV>')
    run.check(same(e0, eu), 'AGG.EoRT', 'StatMech.get_EoRT', 'include_ZPE=False',
              'E/RT is not the electronic U/RT', owner.module, fn)
    run.check(same(e1, eu + zpe / (kb_eV * T)), 'AGG.EoRT', 'StatMech.get_EoRT', 'include_ZPE=True',
              'E/RT with ZPE is not electronic U/RT + ZPE/(kT): %s' % show(e1), owner.module, fn)
    n += 2
    return n


# ----------------------------------------------------------------------
# species assembled from the REAL mode classes: the two halves - what a mode reports, what the species does with its
# modes - put together

ASSEMBLIES = (
    # label, {slot: label of mode_instances}, ideal-gas translation?
    ('ideal gas, nonlinear', {'trans_model': 'FreeTrans', 'vib_model': 'HarmonicVib',
                              'rot_model': 'RigidRotor[nonlinear]', 'elec_model': 'GroundStateElec',
                              'nucl_model': 'EmptyNucl'}, 1),
    ('ideal gas, linear, quasi-RRHO', {'trans_model': 'FreeTrans', 'vib_model': 'QRRHOVib',
                                       'rot_model': 'RigidRotor[linear]', 'elec_model': 'GroundStateElec'}, 1),
    ('atom', {'trans_model': 'FreeTrans', 'vib_model': 'EmptyMode', 'rot_model': 'RigidRotor[monatomic]',
              'elec_model': 'GroundStateElec'}, 1),
    ('Einstein crystal', {'vib_model': 'EinsteinVib', 'elec_model': 'GroundStateElec'}, 0),
    ('Debye crystal with a constant mode', {'vib_model': 'DebyeVib', 'nucl_model': 'ConstantMode'}, 0),
)


def real_species(run, repo):
    """A species built, as a user builds it, from objects of the real mode classes (and, for the ideal gas, from the
    classes and parameters of ``presets['idealgas']``) and asked through every StatMech getter at symbolic T, P.
    Each entry of the verbose form must be what THAT mode object reports when it is asked directly with the same T, P
    (and include_ZPE) - the neutral element for a slot that was not given -, the total their sum / product; the
    species itself obeys the clauses of the property: S falls by ln(P2/P1) between two pressures with ideal-gas
    translation and does not depend on P without, H - U and Cp - Cv are 1 resp. 0, G = H - S, F = U - S.  The species
    is asked at a second T, P and at the first again, and a second species of the same make-up is asked in the same
    interpreter (nothing is remembered by the species between calls).  What the aggregation rule cannot see with its
    uninterpreted modes - how the package's own argument routing reads the signature of a real getter - is seen
    here."""
    ci = repo.cls(SM + '.StatMech')
    sm = repo.module(SM)
    methods = ['get_q'] + ['get_' + q for q in QUANT]
    n = 0

    def make(I, slots, suffix):
        D = I.D
        objs = {lab: ob for lab, ob, _, _, _ in mode_instances(I, repo, suffix=suffix, closed_only=True)}
        cm_ = I.construct(repo.cls(SM + '.ConstantMode'), [],
                          {k: D.sym('const.%s%s' % (k, suffix)) for k in ('q', 'Cv', 'Cp', 'U', 'H', 'S', 'F', 'G')},
                          name='const')
        if isinstance(cm_, Raised):
            raise Unsupported('ConstantMode(q=..., ..., G=...) raises %s' % cm_.exc)
        objs['ConstantMode'] = cm_
        given = {slot: objs[lab] for slot, lab in slots.items()}
        sp = I.construct(ci, [], dict(given, name='species' + suffix), name='species' + suffix)
        if isinstance(sp, Raised):
            raise Unsupported('StatMech(<objects of the mode classes>) raises %s' % sp.exc)
        return sp, given, objs

    def expected(I, given, mname, kw):
        ident_ = C(1) if mname == 'get_q' else C(0)
        exp = [val(I, given[a], mname, kw) if a in given else ident_ for a in MODE_ATTRS]
        for a, e in zip(MODE_ATTRS, exp):
            # a mode that does not answer when it is asked directly is the business of the per-mode rules (where it
            # is outside the fragment: a number is expected); here the species is judged against its modes
            if isinstance(e, Raised):
                raise Unsupported('not a number: %s.%s of the mode in the %s slot, asked directly, is %s'
                                  % (given[a].ci.name, mname, a, show(e, 80)))
        return exp + [ident_, ident_], ident_          # no references, no attached models

    def breakdown(I, sp, given, mname, kw, con, key, owner, fn, what):
        nonlocal n
        exp, ident_ = expected(I, given, mname, kw)
        verbose = I.call_method(sp, mname, [], dict(kw, verbose=True))
        total = I.call_method(sp, mname, [], dict(kw))
        bad = None
        if not (isinstance(verbose, ListV) and len(verbose) == len(exp)):
            bad = 'the verbose form is %s' % show(verbose, 200)
        else:
            for slot, a_, b_ in zip(MODE_ATTRS + ('references', 'misc_models'), verbose.items, exp):
                if not same(a_, b_):
                    bad = 'the %s entry is %s, the mode itself reports %s' % (slot, show(a_, 200), show(b_, 200))
                    break
        run.check(bad is None, 'AGG.real-modes', con, key + ' verbose',
                  '%s: every entry of the verbose form must be what the mode in that slot reports when it is asked '
                  'directly with the same conditions (%s); %s' % (what, ', '.join(sorted(kw)), bad), owner.module, fn,
                  sample='%s %s: verbose entries == the modes asked directly' % (con, key)
                  if mname == 'get_SoR' else None)
        agg = ident_
        for e in exp:
            agg = I.binop('*' if mname == 'get_q' else '+', agg, e)
        run.check(same(total, agg), 'AGG.real-modes', con, key + ' total',
                  '%s: the total is %s, the %s of what its modes report with the same conditions is %s'
                  % (what, show(total, 200), 'product' if mname == 'get_q' else 'sum', show(agg, 200)),
                  owner.module, fn)
        n += 2
        return total

    all_methods = methods
    for label, slots, ideal in ASSEMBLIES:
        I = Interp(repo)
        D = I.D
        T, P, T2, P2 = D.sym('T'), D.sym('P'), D.sym('T2'), D.sym('P2')
        sp, given, _ = make(I, slots, '')
        # (the quasi-RRHO model offers no partition function: its get_q is a documented NotImplementedError)
        methods = [m_ for m_ in all_methods if not (m_ == 'get_q' and 'QRRHOVib' in slots.values())]
        tot = {}
        for mname in methods:
            owner, fn = repo.find_method(ci, mname)
            con = 'StatMech.' + mname
            what = 'species (%s) of real mode objects' % label
            tot[mname] = breakdown(I, sp, given, mname, {'T': T, 'P': P}, con, label, owner, fn, what)
            if mname == 'get_q':
                for flag in (False, True):
                    breakdown(I, sp, given, mname, {'T': T, 'P': P, 'include_ZPE': flag}, con,
                              '%s include_ZPE=%s' % (label, flag), owner, fn, what)
        # the same species at other conditions, and at the first ones again
        # (first the pressure alone, then the temperature: a memo whose key lacks one of them goes stale at once)
        hist = [('second P, first T', {'T': T, 'P': P2}), ('second T, second P', {'T': T2, 'P': P2})]
        if run.tier == 'thorough':
            hist.append(('first T, P again', {'T': T, 'P': P}))
        some = methods if run.tier == 'thorough' else [m_ for m_ in methods if m_ in ('get_q', 'get_SoR', 'get_GoRT')]
        for hname, kw in hist:
            for mname in some:
                owner, fn = repo.find_method(ci, mname)
                breakdown(I, sp, given, mname, kw, 'StatMech.' + mname, '%s, %s' % (label, hname), owner, fn,
                          'species (%s) of real mode objects, asked after it was asked at other conditions' % label)
        # a second species of the same make-up (parameters of its own) in the same interpreter
        sp_b, given_b, _ = make(I, slots, '#2')
        for mname in some:
            owner, fn = repo.find_method(ci, mname)
            breakdown(I, sp_b, given_b, mname, {'T': T, 'P': P}, 'StatMech.' + mname, '%s, second species' % label,
                      owner, fn, 'a second species (%s) made after the first was evaluated' % label)
        # the clauses of the property on the species itself (a mode with user-set constants is quantified over for
        # the additivity clause only: its eight numbers are whatever the user says)
        if 'ConstantMode' in slots.values():
            continue
        owner, fn = repo.find_method(ci, 'get_SoR')
        S = tot['get_SoR']
        dS = deriv(I, S, 'P')
        want = I.binop('/', C(-1), P) if ideal else C(0)
        run.check(same(dS, want), 'DERIV.dS/dlnP', 'StatMech.get_SoR', label,
                  'species (%s): dS/dP = %s; the entropy of a species must fall by ln(P2/P1) between two pressures '
                  '(dS/dlnP = -1) with ideal-gas translation and not depend on P without' % (label, show(dS)),
                  owner.module, fn)
        S2 = I.call_method(sp, 'get_SoR', [], {'T': T, 'P': P2})
        drop = sub(I, S, S2)
        want = D.ln(P2) - D.ln(P) if ideal else C(0)
        run.check(same(drop, want), 'DERIV.dS/dlnP', 'StatMech.get_SoR', label + ' two pressures',
                  'species (%s): S/R(T, P) - S/R(T, P2) = %s, expected %s' % (label, show(drop, 200), show(want)),
                  owner.module, fn, sample='species (%s): S(T, P) - S(T, P2) == %s' % (label, show(want)))
        n += 2
        for a, b, nm in (('get_HoRT', 'get_UoRT', 'H-U'), ('get_CpoR', 'get_CvoR', 'Cp-Cv')):
            owner, fn = repo.find_method(ci, a)
            diff = sub(I, tot[a], tot[b])
            run.check(same(diff, C(ideal)), 'TWIN.' + nm, 'StatMech.' + a, label,
                      'species (%s): %s - %s = %s but must be %d (RT with ideal-gas translation, zero without)'
                      % (label, a[4:], b[4:], show(diff, 200), ideal), owner.module, fn)
            n += 1
        for g, h, s_ in (('get_GoRT', 'get_HoRT', 'get_SoR'), ('get_FoRT', 'get_UoRT', 'get_SoR')):
            owner, fn = repo.find_method(ci, g)
            want = I.binop('-', tot[h], tot[s_])
            run.check(same(tot[g], want), 'TWIN.%s=%s-%s' % (g[4], h[4], s_[4]), 'StatMech.' + g, label,
                      'species (%s): %s differs from %s - %s under identical T, P: residual %s'
                      % (label, g[4:], h[4:], s_[4:], show(sub(I, tot[g], want), 200)), owner.module, fn)
            n += 1
    # the ideal gas as the documentation builds it: StatMech(**presets['idealgas'], <parameters>) - classes, not
    # objects, in the mode slots; the constructor makes the modes from the parameters each class expects.  The species
    # must report what the species assembled from objects with the same parameters reports
    methods = all_methods
    for geom in ('nonlinear', 'linear'):
        I = Interp(repo, order=SignOrder('nu'))
        D = I.D
        T, P = D.sym('T'), D.sym('P')
        from ..xlate import Frame
        preset = Frame(I, sm, {}, None, None).ev(ast.parse("presets['idealgas']", mode='eval').body)
        if not isinstance(preset, DictV) or not all(isinstance(k, str) for k in preset.d):
            raise Unsupported("pmutt.statmech.presets['idealgas'] is not a dictionary of keyword arguments")
        slots = {'trans_model': 'FreeTrans', 'vib_model': 'HarmonicVib', 'rot_model': 'RigidRotor[%s]' % geom,
                 'elec_model': 'GroundStateElec'}
        sp_o, given, objs = make(I, slots, '')
        kw = dict(preset.d)
        kw.update(name='ideal gas', n_degrees=D.sym('self.n_degrees'),
                  molecular_weight=D.sym('self.molecular_weight'), vib_wavenumbers=Elem(D.sym('nu')),
                  potentialenergy=D.sym('self.potentialenergy'), spin=D.sym('self.spin'), geometry=geom,
                  rot_temperatures=Elem(D.sym('self.rot_temperatures')), symmetrynumber=D.sym('self.symmetrynumber'))
        sp_p = I.construct(ci, [], kw, name='ideal gas')
        owner0, fn0 = repo.find_method(ci, '__init__')
        if isinstance(sp_p, Raised):
            run.fail('AGG.preset', 'StatMech.__init__', 'idealgas ' + geom,
                     "StatMech(**presets['idealgas'], <its required parameters>) raises %s" % sp_p.exc,
                     owner0.module, fn0)
            n += len(methods)
            continue
        for mname in methods:
            owner, fn = repo.find_method(ci, mname)
            got = I.call_method(sp_p, mname, [], {'T': T, 'P': P, 'verbose': True})
            want, _ = expected(I, given, mname, {'T': T, 'P': P})
            ok = isinstance(got, ListV) and len(got) == len(want) and all(same(a_, b_)
                                                                          for a_, b_ in zip(got.items, want))
            run.check(ok, 'AGG.preset', 'StatMech.' + mname, 'idealgas ' + geom,
                      "the species StatMech(**presets['idealgas'], <parameters>) reports %s; the modes FreeTrans, "
                      "HarmonicVib, RigidRotor, GroundStateElec made from the same parameters report %s"
                      % (show(got, 200), show(ListV(want), 200)), owner.module, fn,
                      sample="StatMech(**presets['idealgas'], ...).%s == the modes made directly" % mname
                      if mname == 'get_GoRT' else None)
            n += 1
    return n


# ----------------------------------------------------------------------
# imaginary-frequency filter + cached fields, through the real constructors

def filter_anchor(repo, ci):
    """where a finding about the wavenumbers a model counts is reported: the setter of the public property when the
    class has one, else its constructor"""
    return repo.find_method(ci, 'vib_wavenumbers.setter', missing_ok=True) or repo.find_method(ci, '__init__')


class WitnessOrder(RankOrder):
    """The ordering oracle of the wavenumber instances.  The ranks are WITNESS VALUES in 1/cm of the magnitudes the
    property quantifies over (real modes 10-4500 1/cm, imaginary modes from a soft -30 1/cm to the -1500 1/cm of a
    reaction coordinate, a substitute of 50 1/cm); a constant is its own value.  Every constant other than zero that
    the interpreted code compares a wavenumber with is remembered (``seen``): the instances are then repeated with
    witnesses on either side of it (and on it), so that a cut-off inside the filter - whatever its value - separates
    two of the enumerated entries."""

    def __init__(self, ranks):
        RankOrder.__init__(self, ranks, const_ranks=True)
        self.seen = set()

    def __call__(self, a, op, b):
        for x_, y_ in ((a, b), (b, a)):
            if isinstance(x_, Rat) and isinstance(y_, Rat) and x_.is_const() and not x_.iszero() and \
                    not (y_.is_const() or y_.iszero()) and self.rank(y_) is not None:
                self.seen.add(Fr(x_.const_value()))
        return RankOrder.__call__(self, a, op, b)


def one_mode_value(I, ci, name, q, kw, avoid=()):
    """get_<q> of a model of ONE real mode, as a function of the symbol ``name`` - the reference the vectors are
    compared with.  While it is built and asked the symbol is an ordinary real mode (about 1000 1/cm, away from every
    constant in ``avoid``), whatever witness value it has in the vector: a cut-off that the code under analysis
    applies to the entries of the vector does not reach the reference"""
    benign = Fr(1000)
    while any(abs(benign - c_) * 5 < abs(c_) for c_ in avoid):
        benign = benign * Fr(7, 10)
    saved = I.order
    I.order = RankOrder({name: benign}, const_ranks=True)
    try:
        one = I.construct(ci, [], {'vib_wavenumbers': ListV([I.D.sym(name)]), 'imaginary_substitute': None},
                          name='one')
        if isinstance(one, Raised):
            raise Unsupported('%s([%s]) raises %s for one real mode' % (ci.name, name, one.exc))
        return I.call_method(one, 'get_' + q, [], dict(kw))
    finally:
        I.order = saved


WAVENUMBERS = {'w_real': 1200, 'w_real2': 3900, 'w3': 450, 'w_imag': -30, 'w_imag2': -1500, 'w_sub': 50,
               'w_low': 12, 'w_low2': 20}


def imaginary_counts(run, repo):
    """The number and the place of the imaginary entries vary: every imaginary entry is dropped (no substitute) or
    every one of them is replaced by the substitute - also when the substitute is already among the modes that count
    (a second imaginary entry, a real mode that happens to have the substitute's value).  Observed through the public
    getters only: each is the sum (q: the product) over the modes that count of the value of a one-mode model."""
    n = 0
    # every pair of values a comparison inside the filter could see comes in every order the property allows: real
    # modes above, EQUAL TO and BELOW the substitute (a soft real mode of 20 1/cm next to a substitute of 50 1/cm is
    # still a real mode and counts as it is), imaginary ones below zero - a soft one and a stiff one
    vectors = (
        ('[imaginary, real, imaginary]', ('w_imag', 'w_real', 'w_imag2'), ('w_sub', 'w_real', 'w_sub'),
         ('w_real',)),
        ('[imaginary, imaginary, real]', ('w_imag', 'w_imag2', 'w_real'), ('w_sub', 'w_sub', 'w_real'),
         ('w_real',)),
        ('[real equal to the substitute, imaginary]', ('w_sub', 'w_imag'), ('w_sub', 'w_sub'), ('w_sub',)),
        ('[imaginary, real equal to the substitute]', ('w_imag2', 'w_sub'), ('w_sub', 'w_sub'), ('w_sub',)),
        ('[real below the substitute, imaginary, real]', ('w_low', 'w_imag', 'w_real'),
         ('w_low', 'w_sub', 'w_real'), ('w_low', 'w_real')),
        ('[real, real below the substitute, real below the substitute]', ('w_real', 'w_low2', 'w_low'),
         ('w_real', 'w_low2', 'w_low'), ('w_real', 'w_low2', 'w_low')))

    def one_vector(cname, ci, owner, fn, vname, vec, with_sub, without, sub_given, form, ranks, avoid=()):
        """-> (instances, constants the code compared a wavenumber with)"""
        n = 0
        order = WitnessOrder(dict(ranks))
        I = Interp(repo, order=order)
        D = I.D
        T = D.sym('T')
        sub_v = D.sym('w_sub') if sub_given else None
        valid = [D.sym(k) for k in (with_sub if sub_given else without)]
        key = '%s substitute=%s%s' % (vname, 'given' if sub_given else 'None',
                                       '' if form == 'list' else ' (numpy array)')
        # the wavenumbers as the user hands them over: a list (or an array) whose numbers may well be whole
        # numbers - [3825, 3710, 1582, -200] - while the substitute is any real number (12.5): an array that
        # takes its element type from this container truncates what is stored into it
        given = ListV([D.sym(k) for k in vec])
        given.dtype = 'caller'
        if form == 'array':
            given.is_array = True
        n_hz = len(I.dtype_hazards)
        o = I.construct(ci, [], {'vib_wavenumbers': given, 'imaginary_substitute': sub_v}, name='self')
        r = o
        quantities = [('ZPE', {}), ('UoRT', {'T': T}), ('SoR', {'T': T}), ('CvoR', {'T': T})]
        if cname == 'HarmonicVib':
            quantities.append(('q', {'T': T}))
        if isinstance(r, Raised):
            run.fail('ORDER.filter', cname + '.vib_wavenumbers', key,
                     'constructing the model from %s wavenumbers raises %s' % (vname, r.exc),
                     owner.module, fn)
            return len(quantities) + 1, order.seen
        hz = I.dtype_hazards[n_hz:]
        hm = [m_ for m_ in repo.modules.values() if hz and m_.relpath == hz[0][1]]
        run.check(not hz, 'TYPE.int-buffer', cname + '.vib_wavenumbers', key,
                  'while the model is built a value that is not a whole number (the substitute, a converted '
                  'wavenumber) is stored into an array that has the element type of the container of '
                  'wavenumbers the user supplied: for wavenumbers typed as whole numbers ([3825, 3710, 1582, '
                  '-200]) the stored value is truncated (a substitute of 12.5 1/cm counts as 12 1/cm)',
                  hm[0] if hm else owner.module, hz[0][0] if hz else fn)
        n += 1
        valid_names = with_sub if sub_given else without
        witness = ', '.join('%s = %s 1/cm' % (k, ranks[k]) for k in dict.fromkeys(vec + (('w_sub',) if sub_given
                                                                                        else ())))
        for q, kw in quantities:
            got = I.call_method(o, 'get_' + q, [], dict(kw))
            want = C(1) if q == 'q' else C(0)
            for nm_ in valid_names:
                want = I.binop('*' if q == 'q' else '+', want,
                               one_mode_value(I, ci, nm_, q, kw, avoid=order.seen | set(avoid)))
            run.check(same(got, want), 'ORDER.filter', cname + '.vib_wavenumbers', key + ' ' + q,
                      'every real entry must count as it is (also one below the substitute) and every '
                      'imaginary entry must be %s, whatever else the vector holds: get_%s of a model '
                      'built from %s is %s, expected the %s of the one-mode values over %s (witness: %s)'
                      % ('replaced by the substitute' if sub_given else 'dropped', q, vname, show(got, 160),
                         'product' if q == 'q' else 'sum', show(ListV(valid)), witness), owner.module, fn,
                      sample='%s(%s, %s).get_%s == %s over %s'
                      % (cname, vname, 'substitute' if sub_given else 'no substitute', q,
                         'product' if q == 'q' else 'sum', show(ListV(valid))) if q == 'ZPE' else None)
            n += 1
        return n, order.seen

    for cname in ('HarmonicVib', 'QRRHOVib'):
        ci = repo.cls(SM + '.vib.' + cname)
        owner, fn = filter_anchor(repo, ci)
        forms = [(True, 'list'), (False, 'list')] + (
            [(True, 'array'), (False, 'array')] if run.tier == 'thorough' else [])
        seen = set()
        for vname, vec, with_sub, without in vectors:
            for sub_given, form in forms:
                k, cs = one_vector(cname, ci, owner, fn, vname, vec, with_sub, without, sub_given, form, WAVENUMBERS)
                n += k
                seen |= cs
        # a constant the code compares a wavenumber with (a cut-off of any size - "imaginary modes beyond 100i are a
        # reaction coordinate", "modes stiffer than 4000 1/cm are treated differently"): the vectors again with
        # witnesses below, on and above it; constants met on the way are followed once more
        done = set()
        for depth in range(3):
            todo = sorted(seen - done)
            if not todo:
                break
            for cst in todo:
                done.add(cst)
                a_ = abs(cst)
                for where, inner, outer in (('either side of', a_ / 2, a_ * 2), ('on and beyond', a_, a_ * 3),
                                            ('just beside', a_ * Fr(99, 100), a_ * Fr(101, 100))):
                    ranks = dict(WAVENUMBERS)
                    if cst < 0:
                        ranks.update(w_imag=-inner, w_imag2=-outer)
                        vname, vec, with_sub, without = vectors[0]
                    else:
                        ranks.update(w_low=inner, w_real=outer)
                        vname, vec, with_sub, without = vectors[4]
                        vname = '[real, imaginary, real]'
                    vname = '%s %s the constant %s' % (vname, where, float(cst))
                    for sub_given in (True, False):
                        k, cs = one_vector(cname, ci, owner, fn, vname, vec, with_sub, without, sub_given, 'list',
                                           ranks, avoid=seen)
                        n += k
                        seen |= cs
    return n


def caller_arrays(run, repo):
    """The SAME array of wavenumbers - a numpy array of the caller, one imaginary entry in it - is handed to two
    models: first to one with a substitute (through the constructor, or assigned through the public attribute of a
    model that held other wavenumbers before), then, with no getter asked in between, to one that drops imaginary
    modes.  Each model must report what a model built from a fresh list of the same numbers reports (the second one
    the harmonic-oscillator values of the real modes only), the first one still does so when asked after the second
    was built, and the caller's array holds afterwards what it held before."""
    n = 0
    names = ('w_imag', 'w_real', 'w_real2')
    for cname in ('HarmonicVib', 'QRRHOVib'):
        ci = repo.cls(SM + '.vib.' + cname)
        owner, fn = filter_anchor(repo, ci)
        quantities = [('ZPE', {}), ('UoRT', 'T'), ('SoR', 'T'), ('CvoR', 'T')]
        if cname == 'HarmonicVib':
            quantities.append(('q', 'T'))
        for dtype in ('float', 'caller'):
            for path in ('assigned to', 'constructor of'):
                I = Interp(repo, order=WitnessOrder(dict(WAVENUMBERS)))
                D = I.D
                T = D.sym('T')
                ws = D.sym('w_sub')

                def fresh_list():
                    v = ListV([D.sym(k) for k in names])
                    v.dtype = 'caller'
                    return v
                # what a model of these numbers reports, from lists of their own, before anything else happened
                ref = {}
                for sub_v, tag in ((ws, 'sub'), (None, 'drop')):
                    r_ = I.construct(ci, [], {'vib_wavenumbers': fresh_list(), 'imaginary_substitute': sub_v},
                                     name='ref_' + tag)
                    if isinstance(r_, Raised):
                        raise Unsupported('%s([imaginary, real, real]) raises %s' % (cname, r_.exc))
                    ref[tag] = {q: I.call_method(r_, 'get_' + q, [], {'T': T} if kw else {})
                                for q, kw in quantities}
                given = ListV([D.sym(k) for k in names])
                given.is_array = True
                given.dtype = dtype
                before = list(given.items)
                key = 'one numpy array (%s) for two models, %s the first' % (
                    'float64' if dtype == 'float' else 'element type of the caller', path)
                if path == 'assigned to':
                    a = I.construct(ci, [], {'vib_wavenumbers': ListV([D.sym('w3')]), 'imaginary_substitute': ws},
                                    name='first')
                    if not isinstance(a, Raised):
                        set_public(I, a, 'vib_wavenumbers', given)          # first.vib_wavenumbers = given
                else:
                    a = I.construct(ci, [], {'vib_wavenumbers': given, 'imaginary_substitute': ws}, name='first')
                # ... and no getter is asked before the same array goes into the second model
                b = I.construct(ci, [], {'vib_wavenumbers': given, 'imaginary_substitute': None}, name='second')
                if isinstance(a, Raised) or isinstance(b, Raised):
                    run.fail('EFFECT.argument', cname + '.vib_wavenumbers', key,
                             'building two models from one array of [imaginary, real, real] wavenumbers raises %s'
                             % (a.exc if isinstance(a, Raised) else b.exc), owner.module, fn)
                    n += 2 * len(quantities) + 1
                    continue
                run.check(len(given.items) == len(before) and all(same(x, y) for x, y in zip(given.items, before)),
                          'EFFECT.argument', cname + '.vib_wavenumbers', key + ': the caller\'s array afterwards',
                          'the array of wavenumbers the caller handed over holds %s afterwards, it held %s: the '
                          'model writes into the argument object (the substitute in the place of the imaginary '
                          'entry), and whatever the caller builds from the array next is built from other numbers'
                          % (show(ListV(list(given.items))), show(ListV(before))), owner.module, fn,
                          sample='w = np.array([imag, real, real]); %s(w, substitute); w is unchanged' % cname)
                n += 1
                for who, obj, tag, what in (
                        ('second model (no substitute)', b, 'drop', 'the values of its real modes only'),
                        ('first model (substitute) asked after the second was built', a, 'sub',
                         'the values of the real modes and of the substitute')):
                    for q, kw in quantities:
                        got = I.call_method(obj, 'get_' + q, [], {'T': T} if kw else {})
                        run.check(same(got, ref[tag][q]), 'EFFECT.argument', '%s.get_%s' % (cname, q),
                                  '%s: %s' % (key, who),
                                  'two models were given the same array of [imaginary, real, real] wavenumbers, the '
                                  'first with a substitute, the second without: get_%s of the %s is %s, a model '
                                  'built from a list of the same numbers reports %s (%s) - what a model reports '
                                  'depends on which models were built from the array before'
                                  % (q, who, show(got, 160), show(ref[tag][q], 160), what), owner.module, fn)
                        n += 1
    return n


def cached_fields(run, repo):
    n = 0
    for cname, extra in (('HarmonicVib', {}), ('QRRHOVib', {})):
        ci = repo.cls(SM + '.vib.' + cname)
        for sub_given in (False, True):
            order = WitnessOrder(dict(WAVENUMBERS))
            I = Interp(repo, order=order)
            D = I.D
            T = D.sym('T')
            wr, wi, wr2, ws, w3 = (D.sym(k) for k in ('w_real', 'w_imag', 'w_real2', 'w_sub', 'w3'))
            names_of = {repr(D.sym(k)): k for k in ('w_real', 'w_imag', 'w_real2', 'w_sub', 'w3')}
            sub_v = ws if sub_given else None
            given = ListV([wr, wi, wr2])
            given.dtype = 'caller'          # the user's container may hold whole numbers
            n_hz = len(I.dtype_hazards)
            o = r = I.construct(ci, [], {'vib_wavenumbers': given, 'imaginary_substitute': sub_v}, name='self')
            valid = [wr, ws, wr2] if sub_given else [wr, wr2]
            owner, fn = filter_anchor(repo, ci)
            key = 'substitute=%s' % ('given' if sub_given else 'None')
            if isinstance(r, Raised):
                run.fail('ORDER.filter', cname + '.vib_wavenumbers', key,
                         'constructing the model from [real, imaginary, real] wavenumbers raises %s' % r.exc,
                         owner.module, fn)
                n += 8      # the dependent instances below are not evaluated for this variant
                continue
            hz = I.dtype_hazards[n_hz:]
            hm = [m_ for m_ in repo.modules.values() if hz and m_.relpath == hz[0][1]]
            run.check(not hz, 'TYPE.int-buffer', cname + '.vib_wavenumbers', '[real, imaginary, real] ' + key,
                      'while the model is built a value that is not a whole number is stored into an array that has '
                      'the element type of the container of wavenumbers the user supplied: for wavenumbers typed as '
                      'whole numbers the stored value is truncated', hm[0] if hm else owner.module,
                      hz[0][0] if hz else fn)
            n += 1
            # observed through a public getter (the zero-point energy is a sum over the modes that count): the
            # real wavenumbers are kept as they are and the imaginary one is dropped or replaced
            def one_mode(wv, q, kw):
                return one_mode_value(I, ci, names_of[repr(wv)], q, kw, avoid=order.seen)
            got = I.call_method(o, 'get_ZPE', [], {})
            want = C(0)
            for wv in valid:
                want = I.binop('+', want, one_mode(wv, 'ZPE', {}))
            key = 'substitute=%s' % ('given' if sub_given else 'None')
            run.check(same(got, want), 'ORDER.filter', cname + '.vib_wavenumbers',
                      key, 'real wavenumbers must be kept as they are and an imaginary one %s: the zero-point energy '
                      'of [real, imaginary, real] is %s, expected the sum over %s'
                      % ('replaced by the substitute' if sub_given else 'dropped', show(got, 160),
                         show(ListV(valid))),
                      owner.module, fn, sample='ZPE([real, imag, real], %s) == sum over %s' % (key, show(ListV(valid))))
            n += 1
            # getters on the constructed object == sum over the valid modes of the per-mode closed form
            for q in ('UoRT', 'SoR', 'CvoR'):
                got = I.call_method(o, 'get_' + q, [], {'T': T})
                o2, f2 = repo.find_method(ci, 'get_' + q)
                want = C(0)
                for wv in valid:
                    want = I.binop('+', want, one_mode(wv, q, {'T': T}))
                run.check(same(got, want), 'PATH.cache', '%s.get_%s' % (cname, q), key,
                          'value of the constructed object is not the sum of the per-mode values over the valid '
                          'wavenumbers (stale or missing cached field?)', o2.module, f2)
                n += 1
            # re-assigning the wavenumbers refreshes every cached field a getter reads
            set_public(I, o, 'vib_wavenumbers', ListV([w3]))        # o.vib_wavenumbers = [w3]
            fresh = I.construct(ci, [], {'vib_wavenumbers': ListV([w3]), 'imaginary_substitute': sub_v}, name='fresh')
            for q in ('UoRT', 'SoR', 'CvoR') + (('ZPE',) if True else ()):
                a = I.call_method(o, 'get_' + q, [], {'T': T} if q != 'ZPE' else {})
                b = I.call_method(fresh, 'get_' + q, [], {'T': T} if q != 'ZPE' else {})
                o2, f2 = repo.find_method(ci, 'get_' + q)
                stale = sorted(k for k in o.attrs if k.startswith('_') and
                               not same(o.attrs[k], fresh.attrs.get(k)))     # for the message only
                run.check(same(a, b), 'PATH.refresh', '%s.get_%s' % (cname, q), key,
                          'after assigning new wavenumbers the getter still uses stale cached field(s) %s' % stale,
                          owner.module, fn)
                n += 1
    n += imaginary_counts(run, repo)
    n += caller_arrays(run, repo)
    # electronic degeneracy 2*spin+1, refreshed by the spin setter
    ci = repo.cls(SM + '.elec.GroundStateElec')
    I = Interp(repo)
    D = I.D
    s1, s2 = D.sym('spin1'), D.sym('spin2')
    o = I.construct(ci, [], {'potentialenergy': D.sym('E0'), 'spin': s1}, name='self')
    if isinstance(o, Raised):
        raise Unsupported('GroundStateElec(potentialenergy, spin) raises %s for a generic spin' % o.exc)
    owner, fn = repo.find_method(ci, 'get_SoR')
    S1 = I.call_method(o, 'get_SoR', [], {})
    run.check(same(S1, D.ln(2 * s1 + 1)), 'REF.degeneracy', 'GroundStateElec.get_SoR', 'S=ln(2*spin+1)',
              'electronic entropy is %s, expected ln(2*spin+1)' % show(S1), owner.module, fn,
              sample='GroundStateElec(spin=s).get_SoR() == ln(2s+1)')
    set_public(I, o, 'spin', s2)        # o.spin = s2, through the property setter when the class has one
    S2 = I.call_method(o, 'get_SoR', [], {})
    run.check(same(S2, D.ln(2 * s2 + 1)), 'PATH.refresh', 'GroundStateElec.get_SoR', 'spin-reassigned',
              'after assigning a new spin the entropy is %s (stale degeneracy)' % show(S2), owner.module, fn)
    n += 2
    if repo.find_method(ci, 'spin.setter', missing_ok=True):
        run.fn(ci.qual + '.spin.setter')
    return n


# ----------------------------------------------------------------------
# symmetry labels + identity of absent modes

# the point-group labels the property quantifies over ("symmetry numbers given as numbers or as any documented
# point-group label"): the thirteen labels the class documents, with the symmetry numbers of the paper it cites
# (DOI 10.1007/s00214-007-0328-0, table 1).  The list is part of the rule; the docstring is documentation and is not
# parsed - a second table, prose or another layout there changes nothing that is decided here
POINT_GROUPS = (('C1', 1), ('Cs', 1), ('C2', 2), ('C2v', 2), ('C3v', 3), ('Cinfv', 1), ('D2h', 4), ('D3h', 6),
                ('D5h', 10), ('Dinfh', 2), ('D3d', 6), ('Td', 12), ('Oh', 24))


def symmetry_labels(run, repo):
    ci = repo.cls(SM + '.rot.RigidRotor')
    rows = POINT_GROUPS
    run.floor('documented point groups', len(rows), 13)
    run.table('constants.symmetry_dict')
    owner, fn = repo.find_method(ci, '__init__')
    run.fn(owner.qual + '.__init__')
    for label, num in rows:
        # every label with every geometry that has a rotation (the label is resolved before the geometry is looked at,
        # so one geometry in the quick tier), and the number the label stands for given as a number
        for geom in ('linear', 'nonlinear') if run.tier == 'thorough' else ('linear',):
            I = Interp(repo)
            r = I.construct(ci, [], {'symmetrynumber': label, 'rot_temperatures': ListV([I.D.sym('th')]),
                                     'geometry': geom}, name='self')
            got = None if isinstance(r, Raised) else get_public(I, r, 'symmetrynumber')     # as a user reads it
            ok = not isinstance(r, Raised) and isinstance(got, Rat) and got.is_const() and \
                got.const_value() == int(num)
            run.check(ok, 'TABLE.pointgroup', 'RigidRotor.__init__',
                      'label:' + label + ('' if geom == 'linear' else ' ' + geom),
                      'RigidRotor(symmetrynumber=%r): the documented point group %s stands for the symmetry number %s, '
                      'the constructor %s' % (label, label, num, 'raises ' + r.exc if isinstance(r, Raised)
                                               else 'resolves it to %s' % show(got)),
                      owner.module, fn, sample='RigidRotor(symmetrynumber=%r) -> %s' % (label, num))
    return len(rows)


def ident(run, repo, I, store):
    """a mode whose additive contributions are all 0 must contribute 1 to the product"""
    n = 0
    T, P = I.D.sym('T'), I.D.sym('P')
    for label, (obj, v, meta) in store.items():
        if label in ('LSR', 'ExtendedLSR', 'BEP', 'References', 'QRRHOVib', 'PiecewiseCovEffect',
                     'GasPressureAdj', 'DebyeVib'):
            continue
        if all(is_zero(v[q]) for q in ('CvoR', 'CpoR', 'UoRT', 'HoRT', 'SoR')):
            got = getv(I, obj, 'get_q', {'T': T, 'P': P})
            q = got[0]
            run.check(same(q, C(1)), 'IDENT.q', label + '.get_q', 'absent-mode',
                      'all additive contributions of this mode are 0 but its partition function is %s, not 1: '
                      'the species partition function (a product over modes) is annihilated' % show(q),
                      got[1].module, got[2], sample='%s: sums 0 => q == 1' % label, sig='q = %s' % show(q, 80))
            n += 1
    return n


def geometry_from_atoms(run, repo):
    """Linearity guessed from a structure: a molecule is linear when every angle between three of its atoms is within
    the tolerance of 0 or of 180 degrees - on both sides of 180 and whatever order the atoms come in.  Which side of
    180 an angle of a linear molecule lands on is a matter of orientation and rounding (a rotated CO2 gives
    179.999999), so an asymmetric test makes the geometry - and with it the rotational partition function - depend on
    how the molecule is positioned."""
    m = repo.module(SM + '.rot')
    fn = m.functions.get('get_geometry_from_atoms')
    if fn is None:
        raise AnchorError(SM + '.rot.get_geometry_from_atoms not found')
    run.fn(SM + '.rot.get_geometry_from_atoms')
    n = 0

    def atoms_obj(I, natoms, angles):
        """an ase.Atoms as far as angles go: the angle at atom j of every triple i < j < k (the triples in the order
        itertools.combinations lists them), asked one at a time (get_angle) or all at once (get_angles - in ASE
        get_angle(i, j, k) IS get_angles([[i, j, k]])[0]).  Answers go by the indices asked, not by the order of the
        calls.  The object is open: another accessor of a structure is outside what is modelled here and ends the
        analysis, it is not an AttributeError"""
        o = Obj('atoms')
        triples = list(itertools.combinations(range(natoms), 3))
        table = {t: angles[i] if i < len(angles) else angles[-1] for i, t in enumerate(triples)}

        def index(x):
            if isinstance(x, Rat) and x.is_const() and x.const_value().denominator == 1:
                return int(x.const_value())
            raise Unsupported('index of an atom that is not a number: %s' % show(x))

        def angle_of(idx):
            key = tuple(index(x) for x in idx)
            if key not in table:
                raise Unsupported('angle between atoms %r of a structure of %d atoms: this structure gives the angle '
                                  'at the middle atom of the triples i < j < k only' % (key, natoms))
            return C(table[key])

        def no_mic(k):
            k = dict(k)
            if k.pop('mic', False) is not False or k:
                raise Unsupported('Atoms.get_angle(s) with %s' % ', '.join(sorted(k) or ['mic']))

        def get_angle(I_, ob, a, k):
            k = dict(k)
            idx = list(a[:3]) + [k.pop(nm) for nm in ('a1', 'a2', 'a3')[len(a[:3]):] if nm in k]
            if len(a) > 3 or len(idx) != 3:
                raise Unsupported('Atoms.get_angle called with %d indices' % len(idx))
            no_mic(k)
            return angle_of(idx)

        def get_angles(I_, ob, a, k):
            k = dict(k)
            rows = a[0] if a else k.pop('indices', None)
            if len(a) > 1 or not isinstance(rows, ListV) or not all(isinstance(r_, ListV) and len(r_) == 3
                                                                     for r_ in rows.items):
                raise Unsupported('Atoms.get_angles: the indices are not a list of triples')
            no_mic(k)
            return ListV([angle_of(r_.items) for r_ in rows.items])
        o.opaque_methods['__len__'] = lambda I_, ob, a, k: C(natoms)
        o.opaque_methods['get_global_number_of_atoms'] = lambda I_, ob, a, k: C(natoms)
        o.opaque_methods['get_angle'] = get_angle
        o.opaque_methods['get_angles'] = get_angles
        return o
    for tol in (None, Fr(1)):
        t = Fr(5) if tol is None else tol
        probes = [Fr(0), t / 2, t - Fr(1, 100), t + Fr(1, 100), Fr(60), Fr(90), Fr(120), 180 - t - Fr(1, 100),
                  180 - t + Fr(1, 100), 180 - t / 2, Fr('179.999999'), Fr(180)]
        for ang in probes:
            for natoms, pattern in ((3, [ang]), (4, [Fr(0), Fr(180), ang, Fr(180)])):
                I = Interp(repo, order=RankOrder({}, const_ranks=True))
                at = atoms_obj(I, natoms, pattern)
                kw = {'atoms': at}
                if tol is not None:
                    kw['degree_tol'] = C(tol)
                got = I.call_function(m, fn, [], kw)
                lin = ang <= t or ang >= 180 - t
                n += 1
                run.check(got == ('linear' if lin else 'nonlinear'), 'BRANCH.collinear',
                          'rot.get_geometry_from_atoms', 'angle %s tol %s atoms %d' % (float(ang), float(t), natoms),
                          'a molecule whose only non-trivial angle is %s degrees (tolerance %s) is classified %s, '
                          'expected %s: the collinearity test must accept both sides of 0 and of 180 degrees'
                          % (float(ang), float(t), show(got), 'linear' if lin else 'nonlinear'), m, fn,
                          sample='angle %s -> %s' % (float(ang), 'linear' if lin else 'nonlinear')
                          if natoms == 3 and tol is None else None)
    for natoms, want in ((1, 'monatomic'), (2, 'linear')):
        I = Interp(repo)
        got = I.call_function(m, fn, [], {'atoms': atoms_obj(I, natoms, [Fr(90)])})
        n += 1
        run.check(got == want, 'BRANCH.collinear', 'rot.get_geometry_from_atoms', '%d atom(s)' % natoms,
                  'a structure of %d atom(s) is classified %s, expected %s' % (natoms, show(got), want), m, fn)
    return n


# molecules of the bundled G2 set: Hill formula (what ASE writes for mode='hill': C, H, then alphabetical; without
# carbon all alphabetical) and orders in which the atoms may be listed - as bundled and permuted
Z_OF = {'H': 1, 'C': 6, 'N': 7, 'O': 8, 'F': 9, 'Na': 11, 'Si': 14, 'S': 16, 'Cl': 17}
STRUCTURES = (
    ('H2O', 'H2O', ('O H H', 'H O H')),
    ('OCHCHO', 'C2H2O2', ('C C O H O H', 'H O C H O C', 'O C H C H O')),
    ('CH3COF', 'C2H3FO', ('C O F C H H H', 'H C H F C O H')),
    ('CH3Cl', 'CH3Cl', ('C Cl H H H', 'H Cl H C H')),
    ('NaCl', 'ClNa', ('Na Cl', 'Cl Na')),
    ('Si2H6', 'H6Si2', ('Si Si H H H H H H', 'H H Si H H H Si H')),
    ('isobutane', 'C4H10', ('C C C C H H H H H H H H H H', 'H H C H H H C H H C C H H H')),
    ('H atom', 'H', ('H',)),
)


def structure_obj(symbols, hill):
    """an ase.Atoms as far as its composition goes: the chemical symbols (and atomic numbers) in the order the atoms
    are listed, the formula in the documented modes.  Everything else a structure has is not modelled: the object is
    open, so reaching for another accessor ends the analysis (exit 2) instead of being an AttributeError"""
    o = Obj('atoms')

    def formula(I_, ob, a, k):
        k = dict(k)
        mode = a[0] if a else k.pop('mode', 'hill')
        if len(a) > 1 or (a and 'mode' in k):
            raise Unsupported('Atoms.get_chemical_formula%r' % (tuple(a),))
        if k.pop('empirical', False) is not False or k:
            raise Unsupported('Atoms.get_chemical_formula(%s)' % ', '.join(sorted(k) or ['empirical']))
        if mode == 'hill':
            return hill
        if mode == 'all':
            return ''.join(symbols)
        if mode == 'reduce':
            out, i = '', 0
            while i < len(symbols):
                j = i
                while j < len(symbols) and symbols[j] == symbols[i]:
                    j += 1
                out += symbols[i] + (str(j - i) if j - i > 1 else '')
                i = j
            return out
        raise Unsupported('Atoms.get_chemical_formula(mode=%r)' % (mode,))
    o.opaque_methods['get_chemical_formula'] = formula
    o.opaque_methods['get_chemical_symbols'] = lambda I_, ob, a, k: ListV(list(symbols))
    o.opaque_methods['get_atomic_numbers'] = lambda I_, ob, a, k: ListV([C(Z_OF[x]) for x in symbols])
    o.opaque_methods['__len__'] = lambda I_, ob, a, k: C(len(symbols))
    o.opaque_methods['get_global_number_of_atoms'] = lambda I_, ob, a, k: C(len(symbols))
    return o


def composition_from_atoms(run, repo):
    """Molar mass and composition taken from a structure: M = sum over the atoms of the standard atomic weight of
    their element (the table pmutt.constants.atomic_weight, folded from its literal here), elements = how many atoms
    of each element there are - whatever order the atoms are listed in.  FreeTrans(atoms=...), StatMech(atoms=...)
    and the usual StatMech(trans_model=FreeTrans, atoms=...) are built by their constructors for molecules of the G2
    set in the bundled and in permuted orders (like atoms contiguous and not, one- and two-letter symbols, counts of
    one and of two digits, formulas without carbon)."""
    cm = repo.module('pmutt.constants')
    node = cm.assigns.get('atomic_weight', [None])[-1]
    if not isinstance(node, ast.Dict):
        raise AnchorError('pmutt.constants.atomic_weight (a dict literal) not found')
    run.table('constants.atomic_weight')
    aw = {fold_value(cm, k): fold_num(cm, v).v for k, v in zip(node.keys, node.values)}

    def aw_of(sym):
        # the table may be keyed by element symbol, by atomic number or (as bundled) by both
        for k_ in (sym, Z_OF[sym]):
            if k_ in aw:
                return aw[k_]
        raise AnchorError('pmutt.constants.atomic_weight: the literal has no entry for %s (by symbol or number)' % sym)
    ci_t = repo.cls(SM + '.trans.FreeTrans')
    ci_s = repo.cls(SM + '.StatMech')
    o_t, f_t = repo.find_method(ci_t, '__init__')
    o_s, f_s = repo.find_method(ci_s, '__init__')
    run.fn(o_t.qual + '.__init__', o_s.qual + '.__init__')
    n = 0
    for mol, hill, orders in STRUCTURES:
        for k_order, order in enumerate(orders):
            symbols = order.split()
            counts = {}
            for x in symbols:
                counts[x] = counts.get(x, 0) + 1
            want_m = C(sum(Fr(aw_of(x)) for x in symbols))
            key = '%s listed %s%s' % (mol, ''.join(symbols), '' if k_order == 0 else ' (permuted)')

            def mass_ok(got):
                return isinstance(got, Rat) and same(got, want_m)

            def comp_ok(got):
                if not isinstance(got, DictV) or sorted(got.d) != sorted(counts):
                    return False
                return all(isinstance(got.d[x], Rat) and same(got.d[x], C(counts[x])) for x in counts)
            # FreeTrans(atoms=...)
            I = Interp(repo)
            ft = I.construct(ci_t, [], {'atoms': structure_obj(symbols, hill)}, name='trans')
            got = ft if isinstance(ft, Raised) else get_public(I, ft, 'molecular_weight')
            run.check(mass_ok(got), 'REF.molar-mass', 'FreeTrans.__init__', key,
                      'FreeTrans(atoms=<%s, atoms listed as %s>).molecular_weight is %s, expected the sum of the '
                      'atomic weights of its %d atoms = %s g/mol whatever order they are listed in'
                      % (mol, ' '.join(symbols), show(got), len(symbols), show(want_m)), o_t.module, f_t,
                      sample='FreeTrans(atoms=%s as %s).molecular_weight == %s' % (mol, ''.join(symbols),
                                                                                   float(want_m.const_value()))
                      if k_order else None, sig=lambda: 'M = %s' % show(got, 60))
            n += 1
            # StatMech(atoms=...): composition; StatMech(trans_model=FreeTrans, atoms=...): both
            for with_trans in (False, True):
                I = Interp(repo)
                kw = {'atoms': structure_obj(symbols, hill)}
                if with_trans:
                    kw.update(trans_model=ci_t, n_degrees=C(3))
                sm = I.construct(ci_s, [], kw, name='species')
                what = 'StatMech(%satoms=<%s, atoms listed as %s>)' % ('trans_model=FreeTrans, ' if with_trans else '',
                                                                      mol, ' '.join(symbols))
                got = sm if isinstance(sm, Raised) else get_public(I, sm, 'elements')
                run.check(comp_ok(got), 'REF.composition', 'StatMech.__init__',
                          key + (' with FreeTrans' if with_trans else ''),
                          '%s.elements is %s, expected %s whatever order the atoms are listed in'
                          % (what, show(got), dict(sorted(counts.items()))), o_s.module, f_s)
                n += 1
                if with_trans:
                    got = sm
                    if not isinstance(sm, Raised):
                        tm = get_public(I, sm, 'trans_model')
                        got = get_public(I, tm, 'molecular_weight') if isinstance(tm, Obj) else tm
                    run.check(mass_ok(got), 'REF.molar-mass', 'StatMech.__init__', key + ' with FreeTrans',
                              '%s.trans_model.molecular_weight is %s, expected %s g/mol'
                              % (what, show(got), show(want_m)), o_s.module, f_s, sig=lambda: 'M = %s' % show(got, 60))
                    n += 1
    return n


UNDECIDED_ROT = ('rotational temperatures of a structure: the value, where the code reads the structure only through '
                 'its principal moments, angles and size but is outside the modelled fragment')


def rot_from_atoms(run, repo):
    """Rotational temperatures and geometry taken from a structure: theta_k = h^2 / (8 pi^2 kB I_k) for the principal
    moments of inertia I_k (amu A^2 -> kg m^2) that are not zero - three for a nonlinear molecule, one for a linear
    one, none (reported as [0]) for an atom.  The structure answers with its principal moments (what ASE computes;
    they do not depend on how the molecule is placed or its atoms are numbered) and, separately, with coordinates and
    masses that are generic symbols: temperatures that are the textbook function of the principal moments are
    invariant; temperatures that come out as a rational function of the coordinates are not (principal moments are
    not rational in the coordinates); anything else is outside what is decided here (analysis error)."""
    m = repo.module(SM + '.rot')
    fn = m.functions.get('get_rot_temperatures_from_atoms')
    if fn is None:
        raise AnchorError(SM + '.rot.get_rot_temperatures_from_atoms not found')
    ci = repo.cls(SM + '.rot.RigidRotor')
    n = 0
    coords = ('x1', 'y1', 'z1', 'x2', 'y2', 'z2', 'm_at')

    touched = []

    def atoms_obj(I, natoms, angle, moments):
        s = I.D.sym
        o = Obj('atoms')            # an accessor that is not modelled here ends the analysis, it is not an AttributeError
        o.opaque_methods['__len__'] = lambda I_, ob, a, k: C(natoms)
        o.opaque_methods['get_angle'] = lambda I_, ob, a, k: C(angle)
        o.opaque_methods['get_moments_of_inertia'] = lambda I_, ob, a, k: ListV([C(x) for x in moments])

        def placed(name, value):
            def h(I_, ob, a, k):
                touched.append(name)
                if value is None:
                    raise Unsupported('rotational temperatures from a structure: %s of a linear structure or an '
                                      'atom is not modelled' % name)
                return value()
            o.opaque_methods[name] = h
        if natoms == 3 and angle not in (0, 180):
            # the bent molecule also answers with where its atoms are: three atoms of one element, centre of mass at
            # the origin, otherwise anywhere
            r1, r2 = [s('x1'), s('y1'), s('z1')], [s('x2'), s('y2'), s('z2')]
            r3 = [-(a_ + b_) for a_, b_ in zip(r1, r2)]
            placed('get_positions', lambda: ListV([ListV(list(r)) for r in (r1, r2, r3)]))
            placed('get_masses', lambda: ListV([s('m_at')] * 3))
            placed('get_center_of_mass', lambda: ListV([C(0), C(0), C(0)]))
        else:
            for name in ('get_positions', 'get_masses', 'get_center_of_mass'):
                placed(name, None)
        return o

    def generic_point(I):
        """the coordinates are a generic point: an expression in them that is not identically zero is not within a
        tolerance of zero (the moments the structure reports are numbers; the library's own model decides those)"""
        base = I.native['numpy.isclose']

        def isclose(I_, fr, args, kwargs, n_):
            a, b = args[0], args[1]
            kwargs.get('rtol'), kwargs.get('atol')
            if isinstance(a, Rat) and isinstance(b, Rat):
                for p_, q_ in ((a, b), (b, a)):
                    if p_.iszero() and not q_.iszero() and q_.atoms() and \
                            all(x_ in coords or x_.startswith('U<') for x_ in q_.atoms()):
                        return False
            return base(I_, fr, args, kwargs, n_)
        I.native['numpy.isclose'] = isclose

    def judge(I, got, want, construct, key, what, mod_, node):
        """equal as multisets -> holds; a rational function of the coordinates -> violation; else undecided"""
        ok = isinstance(got, ListV) and len(got) == len(want) and \
            sorted(repr(x) for x in got.items) == sorted(repr(x) for x in want)
        if not ok and not isinstance(got, Raised):
            ats = atoms_of(got) if isinstance(got, ListV) else set()
            known = set(coords) | {'h', 'kb', 'pi'}
            if not isinstance(got, ListV) or any(a_ not in known and not a_.startswith('U<') for a_ in ats):
                raise Unsupported('rotational temperatures from a structure: %s is neither the textbook function of '
                                  'the principal moments nor a rational function of the coordinates' % show(got, 200))
        return run.check(
            ok, 'REF.rot-temperatures', construct, key,
            '%s: got %s, expected h^2/(8 pi^2 kB I) for each non-zero principal moment of inertia = %s%s'
            % (what, show(got, 200), show(ListV(list(want)), 200),
               '; the result is built from the coordinates as given, so it changes when the molecule is turned'
               if isinstance(got, ListV) and atoms_of(got) & set(coords) else ''), mod_, node,
            sample='%s %s -> %s' % (construct, key, show(ListV(list(want)), 120)) if 'nonlinear' in key else None)

    owner, init = repo.find_method(ci, '__init__')
    failed = []

    def judged(*a):
        if not judge(*a):
            failed.append(a[4])

    def one(I, at, geom, route, key, want):
        if route.startswith('RigidRotor'):
            o = I.construct(ci, [], {'symmetrynumber': C(1), 'atoms': at}, name='rotor')
            if isinstance(o, Raised):
                run.fail('REF.rot-temperatures', 'RigidRotor.__init__', key,
                         'RigidRotor(symmetrynumber=1, atoms=<%s structure>) raises %s' % (geom, o.exc),
                         owner.module, init)
                return 2
            g = get_public(I, o, 'geometry')
            run.check(g == geom, 'REF.rot-temperatures', 'RigidRotor.__init__', key + ' geometry',
                      'the geometry taken from a %s structure is %s' % (geom, show(g)), owner.module, init)
            judged(I, get_public(I, o, 'rot_temperatures'), want, 'RigidRotor.__init__', key,
                   'rotational temperatures of RigidRotor(symmetrynumber=1, atoms=<%s structure>)' % geom,
                   owner.module, init)
            return 2
        kw = {'atoms': at}
        if route.endswith('geometry)'):
            kw['geometry'] = geom
        got = I.call_function(m, fn, [], kw)
        judged(I, got, want, 'rot.get_rot_temperatures_from_atoms',
               key + (' geometry given' if 'geometry' in kw else ''),
               'rotational temperatures of a %s structure' % geom, m, fn)
        return 1

    cases = (('nonlinear', 3, Fr(104), (Fr(3, 5), Fr(7, 6), Fr(53, 30))),
             ('linear', 3, Fr(180), (Fr(0), Fr(7, 6), Fr(7, 6))),
             ('linear', 2, Fr(180), (Fr(0), Fr(11, 10), Fr(11, 10))),
             ('monatomic', 1, Fr(0), (Fr(0), Fr(0), Fr(0))))
    run.fn(SM + '.rot.get_rot_temperatures_from_atoms', owner.qual + '.__init__')
    for geom, natoms, angle, moments in cases:
        for route in ('RigidRotor(atoms=...)', 'get_rot_temperatures_from_atoms(atoms)',
                      'get_rot_temperatures_from_atoms(atoms, geometry)'):
            # comparisons among expressions in the coordinates are answered at a witness point (a generic placement)
            I = Interp(repo, order=RankOrder({'x1': Fr(3, 7), 'y1': Fr(-5, 11), 'z1': Fr(2, 13), 'x2': Fr(-9, 17),
                                              'y2': Fr(4, 19), 'z2': Fr(8, 23), 'm_at': Fr(12, 1)},
                                             const_ranks=True, witness=True))
            D = I.D
            generic_point(I)
            h, kb, pi = D.sym('h'), D.sym('kb'), D.sym('pi')
            conv = I.unit('kg') / I.unit('amu') * I.unit('m2') / I.unit('A2')     # amu A^2 -> kg m^2
            want = [h * h / (8 * pi * pi * kb * (C(x) * conv)) for x in moments if x != 0]
            if geom == 'linear':
                want = want[:1]
            elif geom == 'monatomic':
                want = [C(0)]
            at = atoms_obj(I, natoms, angle, moments)
            key = '%s, %d atom(s)' % (geom, natoms)
            del touched[:]
            try:
                n += one(I, at, geom, route, key, want)
            except Unsupported as e:
                # (a) once the bent molecule has shown temperatures that are not those of its principal moments, what
                # the same code does with the other structures is not needed for the verdict (and need not be
                # decidable: they do not say where their atoms are).  (b) code that cannot be followed but has read
                # the structure only through the principal moments, the angles and the number of atoms gives a result
                # that cannot depend on placement or numbering - the clause of the property; that the value is the
                # textbook one stays undecided for it and is said so.  (c) code that cannot be followed after it has
                # read coordinates is an analysis error.
                if not failed and touched:
                    raise
                if not failed:
                    run.note('%s, %s: the structure is read only through its principal moments, angles and size, so '
                             'the result does not depend on placement or numbering; that it is h^2/(8 pi^2 kB I) is '
                             'not decided for this code (%s)' % (route, key, str(e)[:120]), m, fn)
                    if UNDECIDED_ROT not in run.undecided:
                        run.undecided.append(UNDECIDED_ROT)
                n += 2 if route.startswith('RigidRotor') else 1
    return n


def check(run, repo):
    run.explanation = (
        'Every getter of every mode class (and of the models that can sit in misc_models) is interpreted '
        'abstractly into an exact rational normal form over T, P and the model parameters (vector parameters as '
        'a generic element under a sum). Decided for all parameter values, T and P at once: G=H-S, F=U-S with '
        'identical arguments; H-U and Cp-Cv equal 1 for ideal-gas translation and 0 otherwise; Cv=d(TU)/dT, '
        'Cp=d(TH)/dT, dS/dT=Cp/T, dS/dlnP=-1 for translation and no P dependence elsewhere; each closed form '
        'equals its textbook expression (harmonic, quasi-RRHO, Einstein, Debye integrands/prefactor with '
        'lemma-checked thermodynamic consistency, rigid rotor, Sackur-Tetrode, ground-state degeneracy). '
        'StatMech.get_quantity is interpreted with uninterpreted modes: verbose list = [trans,vib,rot,elec,nucl,'
        'references,misc], total = sum/prod of it, references disappear when switched off, per-species keyword '
        'blocks are routed, species-level G=H-S and F=U-S incl. S_elements. The real constructors/setters are '
        'interpreted to decide the imaginary-mode filter and that every cached field is refreshed. Every '
        'documented point-group label is resolved through RigidRotor.__init__. Vectors with several imaginary entries '
        '(and a real entry equal to the substitute), species with two attached models, an option of the modes '
        '(include_ZPE) handed to every species getter, and rotational temperatures taken from a structure (textbook '
        'function of the principal moments the structure reports, of nothing else it says) are instances of their own. '
        'Round 2 of the white-box review: every mode object is built by its own constructor from symbolic documented '
        'parameters (nothing is read from or written to private names); real wavenumbers below the substitute; the '
        'wavenumbers come in a container whose numbers may be whole numbers (a store of a real value into an array of '
        'that element type is TYPE.int-buffer); the options of get_quantity crossed (verbose x use_references, all of '
        'them in the thorough tier); a second object of every closed-form class, a second T, P and the first object '
        'again in the same interpreter must report what a fresh interpreter reports (EFFECT.state: memo tables, '
        'class-level containers); molar mass and composition taken from a structure for molecules of the G2 set with '
        'the atoms listed in the bundled and in permuted orders against the folded atomic-weight table. '
        'Round 3: species assembled from objects of the REAL mode classes (ideal gas nonlinear / linear with '
        'quasi-RRHO / atom, Einstein and Debye crystals, a constant mode) and from presets[idealgas]: every verbose '
        'entry is what that mode reports when asked directly with the same T, P, include_ZPE (AGG.real-modes, '
        'AGG.preset - the package\'s own argument routing meets the signatures of the real getters), the species '
        'itself obeys dS/dlnP, H-U, Cp-Cv, G=H-S, F=U-S, is asked at a second P, a second T and next to a second '
        'species; the wavenumber witnesses have the magnitudes of the property (imaginary -30 and -1500, real 12 '
        'to 3900, substitute 50 1/cm) and every constant the filter compares a wavenumber with is probed on either '
        'side; the one-mode references are built where no such cut-off reaches them; textbook partition functions '
        'of the Einstein and Debye crystals; a mode without the quantity in every slot; the point-group labels are '
        'the rule\'s own list (the docstring is not parsed).')
    run.assumptions = ['identities over the reals; pmutt.constants modelled as R=kb*Na, kb[u]=kb*U[u], h[u]=h*U[u], '
                       'convert_unit=U[final]/U[initial] (verified on the literal tables by C12)',
                       '_force_pass_arguments/_pass_expected_arguments modelled by their documented contract']
    run.undecided = ['invariance of geometry-derived parameters under rigid motions / atom permutations: what ASE '
                     'itself computes (principal moments, angles, chemical formula; numeric tolerances) - decided is '
                     'that the rotational temperatures are the textbook function of the principal moments and of '
                     'nothing else the structure says, and that molar mass and composition are those of the multiset '
                     'of chemical symbols whatever order the structure lists them in',
                     'LSR / BEP energies beyond the identities (opaque calls into reaction and species objects)',
                     'raise_error/raise_warning behaviour on modes lacking a getter']
    # instances on concrete vectors, labels and structures first, the generic (symbolic-vector) sweep after them: a
    # change that both breaks a concrete instance and takes the generic sweep out of the interpreted fragment is
    # reported for what it breaks
    n = cached_fields(run, repo)
    run.floor('cache/filter instances', n, 20)
    symmetry_labels(run, repo)
    n = geometry_from_atoms(run, repo)
    run.floor('collinearity instances', n, 40)
    n = composition_from_atoms(run, repo)
    run.floor('structure-derived molar mass and composition', n, 60)
    n = rot_from_atoms(run, repo)
    run.floor('structure-derived rotational temperatures', n, 16)
    n = aggregation(run, repo)
    run.floor('aggregation instances', n, 60)
    n = real_species(run, repo)
    run.floor('species of real modes', n, 150)
    I, store, n_twin, n_deriv = check_modes(run, repo)
    run.floor('TWIN instances', n_twin, 50)
    run.floor('DERIV instances', n_deriv, 80)
    n_ref = ref_forms(run, repo, I, store)
    run.floor('REF forms', n_ref, 20)
    debye(run, repo, I, store)
    n = ident(run, repo, I, store)
    run.floor('IDENT instances', n, 3)
    n = hidden_state(run, repo, I, store)
    run.floor('no-hidden-state instances', n, 250)

V = 'pmutt/statmech/vib.py'
R_ = 'pmutt/statmech/rot.py'
TR = 'pmutt/statmech/trans.py'
SMI = 'pmutt/statmech/__init__.py'
EL = 'pmutt/statmech/elec.py'
MIX = 'pmutt/mixture/__init__.py'
PKG = 'pmutt/__init__.py'
MUTANTS = [
    {'name': 'harmonic q with the full quantum instead of the zero-point half', 'expect': ('REF.harmonic oscillator q', 'HarmonicVib.get_q'),
     'edits': [(V, '                np.exp(-vib_dimless / 2.) / (1. - np.exp(-vib_dimless)))', '                np.exp(-vib_dimless) / (1. - np.exp(-vib_dimless)))')]},
    {'name': 'collinearity test accepts only angles near 0', 'expect': ('BRANCH.collinear', 'get_geometry_from_atoms'),
     'edits': [(R_, '''            if not np.isclose(angle, 0., atol=degree_tol) \\
               and not np.isclose(angle, 180., atol=degree_tol):''',
                '''            if not np.isclose(angle, 0., atol=degree_tol):''')]},
    {'name': 'Debye K integrand loses e^x', 'expect': ('REF.debye integrand', 'K-integrand'),
     'edits': [(V, 'return (x**4) * np.exp(x) / (np.exp(x) - 1.)**2', 'return (x**4) / (np.exp(x) - 1.)**2')]},
    {'name': 'Debye integral runs to T/theta', 'expect': ('REF.debye limits', 'DebyeVib'),
     'edits': [(V, 'integral = quad(func=fn, a=0., b=vib_dimless)[0]',
                'integral = quad(func=fn, a=0., b=1. / vib_dimless)[0]')]},
    {'name': 'Debye prefactor 3/x^2', 'expect': ('REF.debye', 'DebyeVib.get_'),
     'edits': [(V, 'return 3. * integral / vib_dimless**3', 'return 3. * integral / vib_dimless**2')]},
    {'name': 'Debye S uses K in place of F', 'expect': ('REF.debye', 'DebyeVib'),
     'edits': [(V, '''        F = self._get_intermediate_fn(T=T, fn=self._F_integrand)
        G = self._get_intermediate_fn(T=T, fn=self._G_integrand)''',
                '''        F = self._get_intermediate_fn(T=T, fn=self._K_integrand)
        G = self._get_intermediate_fn(T=T, fn=self._G_integrand)''')]},
    {'name': 'nonlinear rotor S uses T^2', 'expect': ('', 'RigidRotor[nonlinear]'),
     'edits': [(R_, '(T**3 / np.prod(self.rot_temperatures))**0.5) + 1.5', '(T**2 / np.prod(self.rot_temperatures))**0.5) + 1.5')]},
    {'name': 'Einstein S loses factor on ln term', 'expect': ('', 'EinsteinVib.get_SoR'),
     'edits': [(V, '''        return 3. * (theta_E / T * exp_term /
                     (1. - exp_term) - np.log(1. - exp_term))''',
                '''        return 3. * (theta_E / T * exp_term /
                     (1. - exp_term)) - np.log(1. - exp_term)''')]},
    {'name': 'FreeTrans H = U', 'expect': ('TWIN.H-U', 'FreeTrans'),
     'edits': [(TR, 'return self.get_UoRT() + 1.', 'return self.get_UoRT()')]},
    {'name': 'identity for prod is 0', 'expect': ('AGG', 'StatMech.get_q'),
     'edits': [(SMI, '            default_value = 1.', '            default_value = 0.')]},
    {'name': 'QRRHO scaled inertia computed once in __init__, not in the setter', 'expect': ('PATH.refresh', 'QRRHOVib'),
     'edits': [(V, '        self._valid_scaled_inertia = self._get_scaled_inertia()\n', ''),
               (V, '        self.imaginary_substitute = imaginary_substitute\n        self.vib_wavenumbers = vib_wavenumbers\n',
                '        self.imaginary_substitute = imaginary_substitute\n        self.vib_wavenumbers = vib_wavenumbers\n        self._valid_scaled_inertia = self._get_scaled_inertia()\n')]},
    {'name': 'imaginary mode appended even without substitute', 'expect': ('', 'vib_wavenumbers'),
     'edits': [(V, '        elif substitute is not None:', '        else:')]},
    {'name': 'rotor G built from U', 'expect': ('', 'RigidRotor'),
     'edits': [(R_, '        return self.get_HoRT() - self.get_SoR(T=T)', '        return self.get_UoRT() + self.get_SoR(T=T)')]},
    {'name': 'harmonic S sign of ln', 'expect': ('', 'HarmonicVib.get_SoR'),
     'edits': [(V, '''            vib_dimless * np.exp(-vib_dimless) / (1. - np.exp(-vib_dimless)) -
            np.log(1. - np.exp(-vib_dimless))''', '''            vib_dimless * np.exp(-vib_dimless) / (1. - np.exp(-vib_dimless)) +
            np.log(1. - np.exp(-vib_dimless))''')]},
    {'name': 'references used even when switched off', 'expect': ('AGG.refs-off', 'StatMech'),
     'edits': [(SMI, '        if use_references and self.references is not None:', '        if self.references is not None:')]},
    {'name': 'degeneracy spin+1', 'expect': ('REF.degeneracy', 'GroundStateElec'),
     'edits': [(EL, 'self._degeneracy = 2. * val + 1.', 'self._degeneracy = val + 1.')]},
    {'name': 'Sackur-Tetrode with V not V/N', 'expect': ('', 'FreeTrans'),
     'edits': [(TR, '(float(self.n_degrees) / 2.) * V / c.Na)', '(float(self.n_degrees) / 2.) * V)')]},
    # white-box review
    {'name': 'substitute not added twice: only the first imaginary mode is replaced',
     'expect': ('ORDER.filter', 'vib_wavenumbers'),
     'edits': [(V, '        elif substitute is not None:',
                '        elif substitute is not None and substitute not in wavenumbers_out:')]},
    {'name': 'several attached models collapsed by a sum also for the partition function',
     'expect': ('AGG.total', 'StatMech.get_q'),
     'edits': [(MIX, '                      default_value=0.,\n                      **kwargs):',
                '                      default_value=0.,\n                      verbose=True,\n'
                '                      **kwargs):'),
               (MIX, '    return mix_quantity\n',
                '    if not verbose:\n        mix_quantity = np.array([np.sum(mix_quantity)])\n'
                '    return mix_quantity\n')]},
    {'name': 'include_ZPE named by StatMech.get_q and not handed on', 'expect': ('AGG.option', 'StatMech.get_q'),
     'edits': [(SMI, '''    def get_q(self,
              verbose=False,
              raise_error=True,
              raise_warning=True,
              use_references=True,
              **kwargs):''', '''    def get_q(self,
              verbose=False,
              raise_error=True,
              raise_warning=True,
              use_references=True,
              include_ZPE=True,
              **kwargs):''')]},
    {'name': 'moment of inertia of a structure not converted from A^2 to m^2',
     'expect': ('REF.rot-temperatures', 'rot'),
     'edits': [(R_, """        moment_SI = moment*c.convert_unit(initial='amu', final='kg') \\
            * c.convert_unit(initial='A2', final='m2')""",
                """        moment_SI = moment*c.convert_unit(initial='amu', final='kg')""")]},
    {'name': 'moments of inertia about the axes as given instead of the principal moments',
     'expect': ('REF.rot-temperatures', 'rot'),
     'edits': [(R_, '    for moment in atoms.get_moments_of_inertia():', '''    moments = []
    for axis in range(3):
        about_axis = 0.
        for position, mass in zip(atoms.get_positions(), atoms.get_masses()):
            about_axis += mass * (position[0]**2 + position[1]**2 + position[2]**2 - position[axis]**2)
        moments.append(about_axis)
    for moment in moments:''')]},
    {'name': 'quasi-RRHO Cv divides the cached vibrational temperatures in place',
     'expect': ('', 'QRRHOVib'),
     'edits': [(V, '        CvoR = []\n        vib_dimless = self._valid_vib_temperatures / T\n',
                '        CvoR = []\n        vib_dimless = self._valid_vib_temperatures\n        vib_dimless /= T\n')]},
    # white-box review, round 2
    {'name': 'real modes below the substitute are replaced by it as well',
     'expect': ('ORDER.filter', 'vib_wavenumbers'),
     'edits': [(V, '        if wavenumber > 0.:\n            # Real wavenumbers always added\n',
                '        if substitute is not None and wavenumber < substitute:\n'
                '            wavenumbers_out.append(substitute)\n'
                '        elif wavenumber > 0.:\n            # Real wavenumbers always added\n')]},
    {'name': 'Debye integrals memoised in a class-level dict keyed by (integrand, T)',
     'expect': ('EFFECT.state', 'DebyeVib'),
     'edits': [(V, '    def __init__(self, debye_temperature, interaction_energy):\n'
                   '        self.debye_temperature = debye_temperature\n',
                '    _intermediate_fns = {}\n\n    def __init__(self, debye_temperature, interaction_energy):\n'
                '        self.debye_temperature = debye_temperature\n'),
               (V, '        vib_dimless = self.debye_temperature / T\n'
                   '        integral = quad(func=fn, a=0., b=vib_dimless)[0]\n'
                   '        return 3. * integral / vib_dimless**3\n',
                '        key = (fn.__name__, T)\n        try:\n            return self._intermediate_fns[key]\n'
                '        except KeyError:\n            pass\n'
                '        vib_dimless = self.debye_temperature / T\n'
                '        integral = quad(func=fn, a=0., b=vib_dimless)[0]\n'
                '        self._intermediate_fns[key] = 3. * integral / vib_dimless**3\n'
                '        return self._intermediate_fns[key]\n')]},
    {'name': 'verbose breakdown lists the references although they are switched off',
     'expect': ('AGG.verbose', 'StatMech'),
     'edits': [(SMI, '        if use_references and self.references is not None:',
                '        if (use_references or verbose) and self.references is not None:')]},
    {'name': 'molar mass of a structure from itertools.groupby over the symbols as listed',
     'expect': ('REF.molar-mass', 'FreeTrans'),
     'edits': [(TR, 'import numpy as np\n', 'import itertools\n\nimport numpy as np\n'),
               (TR, "            self.molecular_weight = get_molecular_weight(\n"
                    "                atoms.get_chemical_formula(mode='hill'))\n",
                "            self.molecular_weight = get_molecular_weight({\n"
                "                element: len(list(same_element)) for element, same_element in\n"
                "                itertools.groupby(atoms.get_chemical_symbols())})\n")]},
    {'name': 'composition of a structure from the run-length formula, a later run overwrites the count',
     'expect': ('REF.composition', 'StatMech'),
     'edits': [(SMI, "kwargs['atoms'].get_chemical_formula('hill'))", "kwargs['atoms'].get_chemical_formula('reduce'))"),
               (PKG, "        elements[element] = elements.get(element, 0) + int(coefficient or '1')\n",
                "        elements[element] = int(coefficient or '1')\n")]},
    # (the reviewer's vectorised filter - ``out[~real] = substitute`` on np.array(wavenumbers) - needs boolean-mask
    # stores in the interpreter, see REQ2_C01; this is the same defect written with an indexed store)
    {'name': 'substitute written into a copy of the caller\'s (possibly integer) array',
     'expect': ('TYPE.int-buffer', 'vib_wavenumbers'),
     'edits': [(V, '''    wavenumbers_out = []
    for wavenumber in wavenumbers:
        if wavenumber > 0.:
            # Real wavenumbers always added
            wavenumbers_out.append(wavenumber)
        elif substitute is not None:
            # Substitute added if imaginary frequency encountered
            wavenumbers_out.append(substitute)
    return np.array(wavenumbers_out)
''', '''    wavenumbers_out = np.array(wavenumbers)
    if substitute is not None:
        for i, wavenumber in enumerate(wavenumbers):
            if not wavenumber > 0.:
                wavenumbers_out[i] = substitute
    return wavenumbers_out[wavenumbers_out > 0.]
''')]},
    # white-box review, round 3
    {'name': 'P keyword-only in FreeTrans.get_SoR: the routing by __code__ drops it', 'expect': ('AGG.real-modes', 'StatMech.get_SoR'),
     'edits': [(TR, "    def get_SoR(self, T, P=c.P0('bar')):", "    def get_SoR(self, T, *, P=c.P0('bar')):")]},
    {'name': 'P keyword-only in FreeTrans.get_q', 'expect': ('AGG.real-modes', 'StatMech.get_q'),
     'edits': [(TR, "    def get_q(self, T, P=c.P0('bar')):", "    def get_q(self, T, *, P=c.P0('bar')):")]},
    {'name': 'imaginary modes beyond 100i are dropped although a substitute is given',
     'expect': ('ORDER.filter', 'vib_wavenumbers'),
     'edits': [(V, '        elif substitute is not None:', '        elif substitute is not None and wavenumber > -100.:')]},
    {'name': 'imaginary modes beyond 2000i are dropped although a substitute is given (cut-off outside the witnesses)',
     'expect': ('ORDER.filter', 'vib_wavenumbers'),
     'edits': [(V, '        elif substitute is not None:', '        elif substitute is not None and wavenumber > -2000.:')]},
    {'name': 'real modes stiffer than 4200 1/cm are not counted',
     'expect': ('ORDER.filter', 'vib_wavenumbers'),
     'edits': [(V, '        if wavenumber > 0.:\n            # Real wavenumbers always added\n',
                '        if wavenumber > 4200.:\n            continue\n'
                '        elif wavenumber > 0.:\n            # Real wavenumbers always added\n')]},
    {'name': 'Einstein q as 1/(2 sinh(x)) instead of 1/(2 sinh(x/2))', 'expect': ('REF.Einstein q', 'EinsteinVib.get_q'),
     'edits': [(V, "        return np.exp(-u/c.kb('eV/K')/T) \\\n            * (np.exp(-theta_E/2./T)/(1. - np.exp(-theta_E/T)))",
                "        return np.exp(-u/c.kb('eV/K')/T)/(2.*np.sinh(theta_E/T))")]},
    {'name': 'Debye q with the zero-point term of three oscillators', 'expect': ('REF.debye q', 'DebyeVib.get_q'),
     'edits': [(V, '                      -3./8.*self.debye_temperature/T - G)', '                      -9./8.*self.debye_temperature/T - G)')]},
    {'name': 'neutral element not handed on for the translational slot', 'expect': ('AGG.missing-mode', 'StatMech.get_q'),
     'edits': [(SMI, '            _get_mode_quantity(mode=self.trans_model,\n'
                     '                               method_name=method_name,\n'
                     '                               raise_error=raise_error,\n'
                     '                               raise_warning=raise_warning,\n'
                     '                               default_value=default_value,\n',
                '            _get_mode_quantity(mode=self.trans_model,\n'
                '                               method_name=method_name,\n'
                '                               raise_error=raise_error,\n'
                '                               raise_warning=raise_warning,\n')]},
    {'name': 'raise_error not handed on for the references', 'expect': ('AGG.missing-mode', 'StatMech.get_'),
     'edits': [(SMI, '                _get_mode_quantity(mode=self.references,\n'
                     '                                   method_name=method_name,\n'
                     '                                   raise_error=raise_error,\n',
                '                _get_mode_quantity(mode=self.references,\n'
                '                                   method_name=method_name,\n')]},
    {'name': 'species memoises get_quantity without the pressure in the key', 'expect': ('AGG.real-modes', 'StatMech.get_SoR'),
     'edits': [(SMI, '        self.name = name\n        self.smiles = smiles\n',
                '        self.name = name\n        self._memo = {}\n        self.smiles = smiles\n'),
               (SMI, '        # Get the default value\n        operation = operation.lower()\n',
                "        memo_key = (method_name, operation, verbose, use_references, kwargs.get('T'),\n"
                "                    kwargs.get('include_ZPE'))\n"
                '        if memo_key in self._memo:\n            return self._memo[memo_key]\n'
                '        # Get the default value\n        operation = operation.lower()\n'),
               (SMI, '                                          operation=operation)\n        return quantity\n',
                '                                          operation=operation)\n'
                '        self._memo[memo_key] = quantity\n        return quantity\n')]},
    {'name': 'geometry keyword-only in RigidRotor.__init__: a species made from the preset loses it',
     'expect': ('AGG.preset', 'StatMech'),
     'edits': [(R_, '                 rot_temperatures=None,\n                 geometry=None,\n',
                '                 rot_temperatures=None,\n                 *,\n                 geometry=None,\n')]},
    {'name': 'point group C2v stands for 4', 'expect': ('TABLE.pointgroup', 'RigidRotor.__init__'),
     'edits': [('pmutt/constants.py', "    'C2v': 2,\n", "    'C2v': 4,\n")]},
    {'name': 'species F ignores S_elements', 'expect': ('TWIN.F=U-S', 'StatMech.get_FoRT'),
     'edits': [(SMI, '''        if not S_elements:
            S_ele = 0
        else:
            S_ele = self.get_Selements()

        return self.get_quantity(method_name='get_FoRT',''', '''        S_ele = 0

        return self.get_quantity(method_name='get_FoRT',''')]},
    # black-box round 7
    {'name': 'vectorised filter writes the substitute into the caller\'s float array (np.asarray does not copy)',
     'expect': ('EFFECT.argument', 'vib_wavenumbers'),
     'edits': [(V, '''    wavenumbers_out = []
    for wavenumber in wavenumbers:
        if wavenumber > 0.:
            # Real wavenumbers always added
            wavenumbers_out.append(wavenumber)
        elif substitute is not None:
            # Substitute added if imaginary frequency encountered
            wavenumbers_out.append(substitute)
    return np.array(wavenumbers_out)
''', '''    wavenumbers_out = np.asarray(wavenumbers, dtype=float)
    imaginary = wavenumbers_out <= 0.
    if substitute is None:
        return wavenumbers_out[~imaginary]
    wavenumbers_out[imaginary] = substitute
    return wavenumbers_out
''')]},
]
_UNIT_MASS = "        unit_mass = self.molecular_weight *\\\n            c.convert_unit(initial='g', final='kg')/c.Na\n"
EQUIV = [
    # white-box review, round 3
    {'name': 'a second table (molecules and their symmetry numbers) in the RigidRotor docstring',
     'edits': [(R_, '            See DOI for more details: 10.1007/s00214-007-0328-0\n',
                '            Symmetry numbers of some common molecules, for orientation:\n\n'
                '            ===========    ===============\n            Molecule       symmetry number\n'
                '            ===========    ===============\n            HCl            1\n'
                '            N2             2\n            CH4            12\n'
                '            ===========    ===============\n\n'
                '            See DOI for more details: 10.1007/s00214-007-0328-0\n')]},
    {'name': 'Einstein q as 1/(2 sinh(x/2))',
     'edits': [(V, "        return np.exp(-u/c.kb('eV/K')/T) \\\n            * (np.exp(-theta_E/2./T)/(1. - np.exp(-theta_E/T)))",
                "        return np.exp(-u/c.kb('eV/K')/T)/(2.*np.sinh(theta_E/2./T))")]},
    {'name': 'imaginary modes compared with a cut-off that changes nothing (substitute for every non-positive entry)',
     'edits': [(V, '        elif substitute is not None:', '        elif substitute is not None and wavenumber <= 0.:')]},
    # white-box review, round 2: refactorings that were reported by mistake
    {'name': 'molecular_weight as a property that also keeps the mass of one molecule',
     'edits': [(TR, "        else:\n            self.molecular_weight = molecular_weight\n",
                "        else:\n            self.molecular_weight = molecular_weight\n\n"
                "    @property\n    def molecular_weight(self):\n        return self._molecular_weight\n\n"
                "    @molecular_weight.setter\n    def molecular_weight(self, val):\n"
                "        self._molecular_weight = val\n"
                "        if val is None:\n            self._unit_mass = None\n        else:\n"
                "            self._unit_mass = val *\\\n                c.convert_unit(initial='g', final='kg')/c.Na\n"),
               (TR, _UNIT_MASS, "        unit_mass = self._unit_mass\n", 0, 2),
               (TR, _UNIT_MASS, "        unit_mass = self._unit_mass\n")]},
    {'name': 'HarmonicVib.get_CpoR bound by assignment in the class body',
     'edits': [(V, '    def get_CpoR(self, T):\n'
                   '        """Calculates the dimensionless heat capacity at constant pressure\n\n'
                   '        :math:`\\\\frac{C_P^{vib}}{R}=\\\\frac{C_V^{vib}}{R}=\\\\sum_i',
                '    get_CpoR = get_CvoR\n\n    def _get_CpoR_doc(self, T):\n'
                '        """Calculates the dimensionless heat capacity at constant pressure\n\n'
                '        :math:`\\\\frac{C_P^{vib}}{R}=\\\\frac{C_V^{vib}}{R}=\\\\sum_i')]},
    {'name': 'Debye integrals memoised per (integrand, theta_D/T) in a class-level dict',
     'edits': [(V, '    def __init__(self, debye_temperature, interaction_energy):\n'
                   '        self.debye_temperature = debye_temperature\n',
                '    _intermediate_fns = {}\n\n    def __init__(self, debye_temperature, interaction_energy):\n'
                '        self.debye_temperature = debye_temperature\n'),
               (V, '        vib_dimless = self.debye_temperature / T\n'
                   '        integral = quad(func=fn, a=0., b=vib_dimless)[0]\n'
                   '        return 3. * integral / vib_dimless**3\n',
                '        vib_dimless = self.debye_temperature / T\n        key = (fn.__name__, vib_dimless)\n'
                '        try:\n            return self._intermediate_fns[key]\n'
                '        except KeyError:\n            pass\n'
                '        integral = quad(func=fn, a=0., b=vib_dimless)[0]\n'
                '        self._intermediate_fns[key] = 3. * integral / vib_dimless**3\n'
                '        return self._intermediate_fns[key]\n')]},
    {'name': 'spin a plain attribute, degeneracy computed where it is used',
     'edits': [(EL, '    @property\n    def spin(self):\n        return self._spin\n\n    @spin.setter\n'
                    '    def spin(self, val):\n        self._spin = val\n        self._degeneracy = 2. * val + 1.\n\n', ''),
               (EL, 'return self._degeneracy * (1 + np.exp(-Epsilon))',
                'return (2. * self.spin + 1.) * (1 + np.exp(-Epsilon))'),
               (EL, 'return np.log(self._degeneracy)', 'return np.log(2. * self.spin + 1.)')]},
    {'name': 'harmonic Cv in exp form',
     'edits': [(V, '(0.5 * vib_dimless)**2 * (1. / np.sinh(vib_dimless / 2.))**2',
                'vib_dimless**2 * np.exp(-vib_dimless) / (1. - np.exp(-vib_dimless))**2')]},
    {'name': 'FreeTrans CpoR spelled out',
     'edits': [(TR, 'return self.get_CvoR() + 1.', 'return float(self.n_degrees) / 2. + 1.')]},
    {'name': 'Einstein S with exp(+x) form',
     'edits': [(V, '''        return 3. * (theta_E / T * exp_term /
                     (1. - exp_term) - np.log(1. - exp_term))''',
                '''        return 3. * (theta_E / T / (np.exp(theta_E / T) - 1.)
                     - np.log(1. - exp_term))''')]},
]
