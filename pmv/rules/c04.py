"""C04 - values with units equal the dimensionless values times R (and T) in that unit."""
import ast
import re

from ..fold import fold_value
from ..nf import Rat, C, Poly
from ..source import Unsupported, AnchorError, params
from ..xlate import (Interp, ListV, DictV, Raised, Frame, FuncRef, RankOrder, _RaisedExc,
                     canonical_extremum, SURELY_POSITIVE)
from .common import same, show, opaque_obj, attached_models, sel_opaque, coeff_vector
from .rxnfix import reaction, make_reaction, species as rxn_species
from .c01 import mode_instances, MODE_ATTRS, QUANT

ENERGY = ('U', 'H', 'F', 'G', 'E')      # value = twin * R * T, unit string extended by /K
PLAIN = ('Cv', 'Cp', 'S')              # value = twin * R
MASS_UNITS = ('g', 'kg')


def r_units(repo):
    m = repo.module('pmutt.constants')
    fn = m.functions.get('R')
    if fn is None:
        raise AnchorError('pmutt.constants.R not found')
    # the table R looks its argument up in, found by role: a dict literal written inside the function, or one bound to
    # a module-level name that the function reads - whichever holds the unit strings (every key a text ending in /K)
    cands = [n for n in ast.walk(fn) if isinstance(n, ast.Dict)]
    for n in ast.walk(fn):
        if isinstance(n, ast.Name) and isinstance(n.ctx, ast.Load):
            node = (m.assigns.get(n.id) or [None])[-1]
            if isinstance(node, ast.Dict) and node not in cands:
                cands.append(node)
    tables = []
    for node in cands:
        try:
            keys = [fold_value(m, k) for k in node.keys if k is not None]
        except (Unsupported, AnchorError, ValueError, TypeError, KeyError):
            continue
        if keys and len(keys) == len(node.keys) and all(isinstance(k, str) and k.endswith('/K') for k in keys):
            tables.append(keys)
    if len(tables) != 1:
        raise AnchorError('R table not found' if not tables else 'more than one table of unit strings in R')
    return tables[0]


def atomic_weights(repo):
    """the table of atomic weights as it stands once pmutt.constants has been imported (a literal, entries added by
    ``update`` or item assignments afterwards, rows derived from other rows - however the module spells it)"""
    from .c12 import module_tables
    m = repo.module('pmutt.constants')
    if 'atomic_weight' not in m.assigns:
        raise AnchorError('pmutt.constants.atomic_weight not found')
    return module_tables(repo, m, ['atomic_weight'])['atomic_weight']


def molar_mass(aw, elements):
    """reference: sum of atomic weight times count over a composition given as {symbol: count}"""
    tot = C(0)
    for k in elements.d:
        sym = elements.okey(k)
        if sym not in aw:
            raise AnchorError('pmutt.constants.atomic_weight has no entry for %r' % (sym,))
        tot = tot + C(aw[sym]) * elements.d[k]
    return tot


def rfactor(I, full_units, molweight=None):
    """reference: R in the requested unit (kb*Na*U[..], per molecule without /mol, per mass divided by M)"""
    D = I.D
    parts = full_units.split('/')
    if parts[-1] != 'K':
        raise Unsupported('unit without /K: %s' % full_units)
    r = D.sym('kb') * I.unit(parts[0])
    den = parts[1:-1]
    mass = [d for d in den if d in MASS_UNITS]
    if 'mol' in den or mass:
        r = r * D.sym('Na')
    if mass:
        if molweight is None:
            return None
        r = r / (molweight * I.unit(mass[0]) / I.unit('g'))
    return r


def unit_variants(rkeys, thorough, per_mass):
    """(units argument for a PLAIN getter) list; ENERGY getters get the same without /K"""
    molar = [k for k in rkeys if k.endswith('/mol/K')]
    perm = [k for k in rkeys if not k.endswith('/mol/K')]
    out = list(molar) + list(perm) if thorough else ['J/mol/K', 'kcal/mol/K', 'eV/K', 'L atm/mol/K']
    out = [u for u in out if u in rkeys]
    if per_mass:
        out += ['J/g/K', 'kJ/kg/K']      # gram is the table's base mass unit (factor 1): kilogram shows a wrong direction
    return out


def twin_name(wrapper):
    """get_H -> get_HoRT, get_delta_Cp -> get_delta_CpoR, get_S_state -> get_SoR_state, ..."""
    m = re.match(r'^get_(delta_)?(Cv|Cp|U|H|S|F|G|E)(_state|_act)?$', wrapper)
    if not m:
        return None
    q = m.group(2)
    return 'get_%s%s%s%s' % (m.group(1) or '', q, 'oRT' if q in ENERGY else 'oR', m.group(3) or ''), q


def bound(repo, ci, name, I=None, obj=None):
    """what ``name`` is bound to in the namespace of the class (through the MRO): (owner class, function node, FuncRef or
    None).  A def - or a function of the package bound to the name in the class body - is found in the class table; any
    other binding (``get_S = _make_getter('S')``, a lambda) is evaluated by the interpreter through the fixture object and
    has to come out as a function of the package: a documented getter that the rule cannot call is not waved through.
    None when no class along the MRO binds the name."""
    got = repo.find_method(ci, name, missing_ok=True)      # refuses a def replaced by a value / patched from outside
    if got is not None:
        return got[0], got[1], None
    owner = next((k for k in ci.mro if name in k.class_attrs), None)
    if owner is None:
        return None
    if I is None or obj is None:
        raise Unsupported('%s.%s is bound in the class body to %s (no fixture to evaluate it through)'
                          % (owner.qual, name, ast.unparse(owner.class_attrs[name])[:60]))
    v = Frame(I, owner.module, {}, None, None).obj_attr(obj, name)
    if not isinstance(v, FuncRef):
        raise Unsupported('%s.%s is bound in the class body to %s, which is not a function the rule can call (%r)'
                          % (owner.qual, name, ast.unparse(owner.class_attrs[name])[:60], v))
    return owner, v.fn, v


def getter_names(ci):
    """every name of the documented getter pattern bound in a class namespace along the MRO - by a def, by an
    assignment in the class body, or replaced after the class statement"""
    out = []
    for k in ci.mro:
        for name in list(k.methods) + list(k.class_attrs) + sorted(k.rebound):
            if name not in out and twin_name(name) is not None:
                out.append(name)
    return out


def wrappers_of(repo, ci, I=None, obj=None):
    out = []
    for name in getter_names(ci):
        tw = twin_name(name)
        got = bound(repo, ci, name, I, obj)
        if got is None:
            continue
        owner, fn, _ = got
        names, _, _, _ = params(fn)
        if 'units' not in names:
            continue
        if bound(repo, ci, tw[0], I, obj) is None:
            continue
        out.append((name, tw[0], tw[1], owner, fn))
    return sorted(out, key=lambda x: x[:3])


def getv(I, obj, mname, avail):
    """(value,) of obj.mname(...) handing over only the parameters it expects (the contract of
    pmutt._pass_expected_arguments, which is how the package calls its models); a getter that is not a def in the class
    table is called as the function it is, with the object in first place"""
    if mname in obj.opaque_methods:
        ps = obj.opaque_params.get(mname, ())
        return (obj.opaque_methods[mname](I, obj, [], {k: v for k, v in avail.items() if k in ps}),)
    got = bound(I.repo, obj.ci, mname, I, obj)
    if got is None:
        raise AnchorError('method %s not found in MRO of %s' % (mname, obj.ci.qual))
    owner, fn, ref = got
    names, _, _, kwarg = params(fn)
    kw = dict(avail) if kwarg else {k: v for k, v in avail.items() if k in names}
    if ref is None:
        return (I.call_method(obj, mname, [], kw),)
    plain = FuncRef(ref.module, ref.fn, None, ref.owner, ref.closure, ref.defaults, ref.frame_self)
    try:
        return (Frame(I, owner.module, {}, None, None).apply(plain, [obj], kw),)
    except _RaisedExc as e:
        return (e.raised,)


def binding_gap(I, obj, avail):
    """name of a function made in a class body of the object's class (a closure from a factory, a lambda) that ends in a
    NameError when it is called the way the analysed code calls it (``self.get_x(...)``) but not when it is handed the
    instance explicitly: the interpreter then does not bind the instance to such functions, and a NameError seen inside
    the package is the interpreter's, not the program's.  None when there is no such function."""
    fr = Frame(I, obj.ci.module, {}, None, None)

    def call(f, args, kw):
        n_w = len(I.warnings)
        try:
            return fr.apply(f, args, dict(kw))
        except _RaisedExc as e:
            return e.raised
        except Unsupported:
            return None
        finally:
            del I.warnings[n_w:]
    for k in obj.ci.mro:
        for name, node in k.class_attrs.items():
            if not isinstance(node, (ast.Call, ast.Lambda)):
                continue
            try:
                v = fr.obj_attr(obj, name)
            except (Unsupported, _RaisedExc):
                continue
            if not (isinstance(v, FuncRef) and (v.closure is not None or isinstance(v.fn, ast.Lambda))):
                continue
            names, _, _, kwarg = params(v.fn)
            kw = dict(avail, units='J/mol/K') if kwarg else {x: y for x, y in dict(avail, units='J/mol/K').items()
                                                             if x in names}
            via_instance = call(v, [], kw)
            plain = FuncRef(v.module, v.fn, None, v.owner, v.closure, v.defaults, v.frame_self)
            direct = call(plain, [obj], kw)
            if isinstance(via_instance, Raised) and via_instance.exc in ('NameError', 'UnboundLocalError') and \
                    not (isinstance(direct, Raised) and direct.exc == via_instance.exc):
                return '%s.%s' % (k.qual, name)
    return None


def bool_options(fn):
    """(name, default) of the parameters of a function whose default is the literal True/False"""
    a = fn.args
    pos = a.posonlyargs + a.args
    out = []
    for arg, d in zip(pos[len(pos) - len(a.defaults):], a.defaults):
        if isinstance(d, ast.Constant) and isinstance(d.value, bool):
            out.append((arg.arg, d.value))
    for arg, d in zip(a.kwonlyargs, a.kw_defaults):
        if d is not None and isinstance(d, ast.Constant) and isinstance(d.value, bool):
            out.append((arg.arg, d.value))
    return out


def numeric_options(fn):
    """names of the parameters of a function whose default is a literal number (not a bool)"""
    a = fn.args
    pos = a.posonlyargs + a.args
    out = []
    for arg, d in list(zip(pos[len(pos) - len(a.defaults):], a.defaults)) + list(zip(a.kwonlyargs, a.kw_defaults)):
        if d is not None and isinstance(d, ast.Constant) and isinstance(d.value, (int, float)) \
                and not isinstance(d.value, bool):
            out.append(arg.arg)
    return out


def assigns_attr(repo, ci, attr):
    """does any __init__ along the MRO assign self.<attr> ?"""
    for k in ci.mro:
        init = k.methods.get('__init__')
        if init is None:
            continue
        for n in ast.walk(init):
            if isinstance(n, ast.Attribute) and n.attr == attr and isinstance(n.ctx, ast.Store) \
                    and isinstance(n.value, ast.Name) and n.value.id == 'self':
                return True
    return False


def sel_label(sel):
    return '' if sel is None else '[S_elements]' if sel else '[S_elements=False]'


def absorb(I, v):
    """the same value with every factor that is certainly positive (temperature, physical constants, unit factors)
    written *inside* the maxima / minima it multiplies and the extremum brought to its canonical form again:
    max(0, a, b) * R * T, max(0, a R T, b R T) and max(0, a R, b R) * T all come out as one expression, also where the
    candidates share no common factor (an intercept in energy units next to a slope times a dimensionless enthalpy)"""
    if isinstance(v, ListV):
        out = ListV([absorb(I, x) for x in v.items])
        out.is_array = getattr(v, 'is_array', False)
        return out
    if not isinstance(v, Rat):
        return v
    ext = sorted(a for a in v.atoms() if a in I.extrema)
    if not ext:
        return v
    out, rem = C(0), v
    for at in ext:
        sp = rem.split_linear(at)
        if sp is None:
            return v
        co, rem = sp
        if co.iszero():
            continue
        if not co.is_monomial():
            out = out + co * Rat.atom(at)
            continue
        (k, c), = co.n.t.items()
        pos, other = C(abs(c)), C(1 if c > 0 else -1)
        for a, e in k:
            m = Rat(Poly.atom(a, e))
            if a in SURELY_POSITIVE or a.startswith('U<') or a in I.positive_syms or re.fullmatch(r'[TP]\d+', a):
                pos = pos * m
            else:
                other = other * m
        which = 'max' if at.startswith('MAX{') else 'min'
        out = out + other * canonical_extremum(I, which, [x * pos for x in I.extrema[at]])
    return out + rem


def run_pair(run, I, obj, label, wname, tname, q, owner, fn, avail, units_list, molweight, counter, warns=False,
             undefined_too=False):
    """one finding per (class, wrapper): the unit strings and option variants that fail are listed in the text.
    warns: the two forms must also issue the same number of warnings (an option that silences them acts on both);
    undefined_too: where the dimensionless form refuses the conditions (no polynomial for this temperature), the form
    with units has no value to hand out either"""
    D = I.D
    T = avail.get('T')
    cls_label = label.split('[')[0]
    variant = label[len(cls_label):]
    construct = '%s.%s' % (cls_label, wname)
    decided = 0
    twin = None
    for u in units_list:
        uarg = u[:-2] if q in ENERGY else u
        n0 = len(I.warnings)
        w = getv(I, obj, wname, dict(avail, units=uarg))[0]
        n1 = len(I.warnings)
        if twin is None:
            # the dimensionless form does not take the unit: evaluated once (after the first dimensional call)
            twin = (getv(I, obj, tname, avail)[0], len(I.warnings) - n1)
        t, n2 = twin[0], n1 + twin[1]
        for v_ in (w, t):
            if isinstance(v_, Raised) and v_.exc in ('NameError', 'UnboundLocalError'):
                gap = binding_gap(I, obj, avail)
                if gap:
                    raise Unsupported('%s is a function made in the class body: called through the instance, the '
                                      'interpreter does not bind the instance to its first parameter (the %s met in '
                                      '%s is not the program\'s)' % (gap, v_.exc, construct))
        rf = rfactor(I, u, molweight)
        counter[0] += 1
        if isinstance(t, Raised):
            # the dimensionless form is not defined under these conditions
            if undefined_too:
                run.check(isinstance(w, Raised), 'FWD.defined', construct, 'defined',
                          '%s(units=%r)%s returns %s although %s raises %s under the same conditions: there is no '
                          'dimensionless value it could be R (T) times of' % (wname, uarg, variant, show(w, 120), tname,
                                                                             t.exc), owner.module, fn)
            continue
        decided += 1
        if isinstance(w, Raised):
            run.fail('FWD.raises', construct, 'raises:' + w.exc,
                     'the dimensional getter raises %s (units=%r%s) although %s evaluates under the same conditions'
                     % (w.exc, uarg, variant, tname), owner.module, fn)
            continue
        if warns:
            run.check(n1 - n0 == n2 - n1, 'FWD.warns', construct, 'warnings',
                      '%s(units=%r)%s issues %d warning(s), %s under the same conditions and options issues %d'
                      % (wname, uarg, variant, n1 - n0, tname, n2 - n1), owner.module, fn)
        if rf is None:
            continue
        want = I.binop('*', t, rf)
        if q in ENERGY:
            want = I.binop('*', want, T)
        # compared in a form that does not depend on where a positive factor stands relative to a maximum
        run.check(same(w, want) or same(absorb(I, w), absorb(I, want)), 'TWIN.dim', construct, 'twin',
                  '%s(units=%r)%s is not %s * R(%s)%s under the same conditions and options: got %s, expected %s'
                  % (wname, uarg, variant, tname, u, ' * T' if q in ENERGY else '', show(w, 200), show(want, 200)),
                  owner.module, fn,
                  sample='%s.%s(%r) == %s * R(%r)%s' % (label, wname, uarg, tname, u,
                                                       ' * T' if q in ENERGY else '') if counter[0] % 37 == 0 else None)
    return decided


def run_nomass(run, I, obj, label, wname, tname, q, owner, fn, avail, counter):
    """a per-mass unit asked of an object that has no composition: there is no molar mass to divide by, so no number
    can be the answer (whatever is returned would have to be twin * R / M) - the wrapper has to refuse"""
    if isinstance(getv(I, obj, tname, avail)[0], Raised):
        return
    for u in ('J/g/K', 'kJ/kg/K'):
        uarg = u[:-2] if q in ENERGY else u
        w = getv(I, obj, wname, dict(avail, units=uarg))[0]
        counter[0] += 1
        run.check(isinstance(w, Raised), 'TWIN.permass', '%s.%s' % (label.split('[')[0], wname), 'no composition',
                  '%s(units=%r) of %s returns %s although the object has no composition (elements): a value per mass '
                  'must be %s * R / (molar mass), and there is no molar mass'
                  % (wname, uarg, label, show(w, 200), tname), owner.module, fn)


def pressure_default(*objs):
    """the stubs that stand for species, modes and attached models answer like the real ones when the pressure is left
    out: every getter of the package that takes a pressure documents 'P in bar, default 1 bar' (c.P0('bar')), so a
    call without P and a call with P = 1 are the same request and name the same atom"""
    def wrap(h):
        def g(I_, obj, args, kwargs):
            if 'P' not in kwargs:
                kwargs = dict(kwargs, P=C(1))
            return h(I_, obj, args, kwargs)
        g.pressure_default = True
        return g
    for o in objs:
        for mname, h in list(o.opaque_methods.items()):
            if 'P' in o.opaque_params.get(mname, ()) and not getattr(h, 'pressure_default', False):
                o.opaque_methods[mname] = wrap(h)


def array_answers(*objs):
    """the stubs that stand for species and modes answer an array of temperatures like the real ones: element by
    element, one value per temperature (each an atom named by its own temperature and the other arguments)"""
    def wrap(h):
        def g(I_, obj, args, kwargs):
            T = kwargs.get('T')
            if isinstance(T, ListV):
                out = ListV([h(I_, obj, args, dict(kwargs, T=t)) for t in T.items])
                out.is_array = True
                return out
            return h(I_, obj, args, kwargs)
        g.array_answers = True
        g.pressure_default = getattr(h, 'pressure_default', False)
        return g
    for o in objs:
        for mname, h in list(o.opaque_methods.items()):
            if 'T' in o.opaque_params.get(mname, ()) and not getattr(h, 'array_answers', False):
                o.opaque_methods[mname] = wrap(h)


def twin_evaluates(I, obj, tname, avail):
    """can the dimensionless form be evaluated at all under these conditions?  (An array of temperatures handed to a
    form that takes a maximum over numbers is outside what numpy - and the interpreter - define.)"""
    try:
        getv(I, obj, tname, avail)
    except Unsupported:
        return False
    return True


def bare_model(I, name):
    """a user-defined mode / mixing model that has none of the thermodynamic getters (like a model that only shifts
    one quantity, taken to the extreme): what it contributes is the documented default, under raise_error=False"""
    o = opaque_obj(I, name, {})
    o.missing.update(MIX_GETTERS)
    o.missing.add('name_j')
    return o


MIX_GETTERS = ('get_q', 'get_CvoR', 'get_CpoR', 'get_UoRT', 'get_HoRT', 'get_SoR', 'get_FoRT', 'get_GoRT', 'get_EoRT',
               'get_ZPE')
# the two documented switches for a model that lacks a getter: the error is turned into a warning, the warning into
# nothing (raise_warning is "only relevant if raise_error is False")
SILENCE = ({'raise_error': False}, {'raise_error': False, 'raise_warning': False})

SIDES = ('reactants', 'reactants_stoich', 'products', 'products_stoich', 'transition_state', 'transition_state_stoich')
# documented texts a reaction can be given at construction (everything else optional is a number or a switch)
TEXT_OPTIONS = {'id': 'r0001', 'direction': 'synthesis', 'notes': 'a note'}


def ctor_options(repo, ci, D):
    """{parameter: (value a user may give, is it a switch)} for every optional parameter of the constructors along the
    MRO other than the sides of the reaction: numbers (default None or a number) as symbols, switches flipped, the
    documented texts"""
    out = {}
    seen = set()
    for k in ci.mro:
        got = repo.find_method(k, '__init__', missing_ok=True)
        if not got or id(got[1]) in seen:
            continue
        seen.add(id(got[1]))
        a = got[1].args
        pos = a.posonlyargs + a.args
        for arg, d in list(zip(pos[len(pos) - len(a.defaults):], a.defaults)) + list(zip(a.kwonlyargs, a.kw_defaults)):
            nm = arg.arg
            if nm in SIDES or nm in out or d is None:
                continue
            if nm in TEXT_OPTIONS:
                out[nm] = (TEXT_OPTIONS[nm], False)
            elif isinstance(d, ast.Constant) and isinstance(d.value, bool):
                out[nm] = (not d.value, True)
            elif isinstance(d, ast.Constant) and (d.value is None or isinstance(d.value, (int, float))):
                out[nm] = (D.sym('user.' + nm), False)
    return out


def composition(I, obj):
    """``obj.elements`` as the object itself answers (instance attribute, property, class attribute); None when it has no
    such attribute or the attribute is None"""
    if not obj.closed:
        raise Unsupported('the fixture %s was not built by its constructor: what attributes it has is open' % obj.name)
    try:
        return Frame(I, obj.ci.module, {}, None, None).obj_attr(obj, 'elements')
    except _RaisedExc as e:
        if e.raised.exc != 'AttributeError':
            raise Unsupported('reading elements of %s raises %s' % (obj.name, e.raised.exc))
        return None


def further_models(I, repo, comp):
    """(label, object, arguments) for the model classes that are neither a mode of StatMech nor an attached model, each
    built by its own constructor from the documented parameters: a mode with freely chosen values, one NASA-9
    interval, a reference species and a Zacros species (both with and without a composition)"""
    D = I.D
    base = {'T': D.sym('T'), 'P': D.sym('P')}
    out = []

    def make(label, qual, **kw):
        o = I.construct(repo.cls(qual), [], kw, name='self')
        if isinstance(o, Raised):
            raise Unsupported('%s(%s) raises %s for generic parameters' % (qual, ', '.join(sorted(kw)), o.exc))
        out.append((label, o, base))
    make('ConstantMode', 'pmutt.statmech.ConstantMode',
         **{k: D.sym('self.' + k) for k in ('q', 'Cv', 'Cp', 'U', 'H', 'S', 'F', 'G')})
    make('SingleNasa9', 'pmutt.empirical.nasa.SingleNasa9', T_low=D.sym('seg.T_low'), T_high=D.sym('seg.T_high'),
         a=coeff_vector(I, 's', 9))
    for tag, el in (('', None), ('[elements]', comp())):
        make('Reference' + tag, 'pmutt.empirical.references.Reference', name='ref', T_ref=D.sym('self.T_ref'),
             HoRT_ref=D.sym('self.HoRT_ref'), elements=el)
        # an adsorbed atom: no vibrations, no rotation
        make('Zacros' + tag, 'pmutt.empirical.zacros.Zacros', name='z', phase='S', vib_wavenumbers=ListV([]),
             potentialenergy=D.sym('self.potentialenergy'), elements=el)
    return out


def uncovered(repo, covered, ran):
    """classes of the package that offer a getter of the documented pattern with a ``units`` parameter (or bind such a
    name to something that is not a def) and were not asked: neither through a fixture of their own nor - a base
    class - through fixtures of subclasses that reach every getter the class binds"""
    out = []
    for ci in sorted(repo.all_classes(), key=lambda k: k.qual):
        own = []
        for name in getter_names(ci):
            try:
                got = repo.find_method(ci, name, missing_ok=True)
            except Unsupported:
                got = None
            if got is None:
                # not a def: bound to a value in a class body, or replaced after the class statement
                k = next(k_ for k_ in ci.mro if name in k_.class_attrs or name in k_.rebound or name in k_.methods)
                own.append((k, name))
            elif 'units' in params(got[1])[0]:
                own.append(got[0:1] + (name,))
        if not own or ci.qual in covered:
            continue
        subs = [k for k in repo.subclasses(ci, strict=True) if k.qual in covered]
        if subs and all((k.qual, name) in ran for k, name in own if k is ci):
            continue
        out.append(ci.qual)
    return out


def check(run, repo):
    run.explanation = (
        'Every dimensional getter (get_Cv/Cp/U/H/S/F/G/E and the reaction state/delta/activation forms), enumerated '
        'from the class namespaces through the MRO for every model class, StatMech, Nasa, Nasa9, Shomate, Reaction, '
        'ChemkinReaction, SurfaceReaction and BEP, is interpreted abstractly together with its dimensionless twin '
        'under the same symbolic T, P and options. Decided as an identity for each supported unit string (molar, '
        'per-molecule, per-mass): wrapper == twin * R(units) (* T for energies, with the unit string extended by /K), '
        'R per mass = R(molar)/(sum of atomic weights * g->mass-unit). Because the species/mix getters are '
        'uninterpreted atoms named by their arguments, an option that is not forwarded (P, S_elements, rev, '
        'raise_error...) changes the normal form and is reported. Options: S_elements left out, True and False; every '
        'boolean option of the StatMech wrappers flipped (verbose: the vector of mode contributions, element by '
        'element); reactions with and without a transition state. Per-mass units: species with a composition '
        '(StatMech, Nasa, Nasa9, Shomate, and a BEP relation for the seven wrappers of the base class), and objects '
        'without one (no attribute elements / elements=None), which have no molar mass and must refuse. A second '
        'species with the same element symbols and other counts is evaluated after the first for StatMech and the '
        'three empirical classes (nothing remembered). raise_error=False and raise_warning=False with a mode / an '
        'attached model that lacks the getters: both forms evaluate and issue the same number of warnings. Shomate '
        'polynomials stored in J/mol/K and in kJ/mol/K asked in their own and in the other unit. Every wrapper also '
        'with nothing but T given (defaults of the wrapper against what the twin does when nothing is said; stubs '
        'answer a call without P like a call with P = 1 bar, the documented default). Reactions also built with '
        'every optional constructor argument given (Ea, A, beta, sticking coefficient, id, direction, notes; '
        'switches as they are and flipped): a getter with units stays twin * R (T) whatever was given. '
        'Round 3: the getters are every name of the documented pattern bound in a class namespace (defs, names bound '
        'in the class body to a function made by a factory or to a lambda - evaluated by the interpreter), with '
        'per-class counts as floors; every class of the package that offers such a getter must have been asked '
        '(ConstantMode, SingleNasa9, Reference, Zacros, LSR, ExtendedLSR, PiecewiseCovEffect, References, both BEP '
        'classes next to the modes) or the check refuses; whether an object has a composition is asked of the '
        'object; the atomic weights are the table as the module leaves it, and pmutt.get_molecular_weight is compared '
        'with it; reactions whose transition state is a BEP relation (every activation form, both directions); '
        'reactions asked with an array of temperatures (species answer element by element); NASA/Shomate species '
        'asked below T_low, above T_mid and above T_high (scalar, and arrays reaching across a bound) - same value '
        'times R (T), same warnings, and no value where the dimensionless form refuses the temperature.')
    run.assumptions = ['unit model of pmutt.constants verified by C12', 'species and mix getters are arbitrary '
                       'functions of the arguments they receive']
    run.undecided = ['numeric values; array-valued T beyond what C02/C13 decide',
                     'clamped activation forms (maximum over a list of numbers) asked with an array of temperatures: '
                     'the dimensionless form is not defined there',
                     'single modes asked with an array of temperatures']
    thorough = run.tier == 'thorough'
    rkeys = r_units(repo)
    run.floor('R table keys', len(rkeys), 16)
    aw = atomic_weights(repo)
    # the molar mass of a composition as the package computes it, against the table as the module leaves it. (A
    # look-up that fails although the table has the entry means that the interpreter does not see the table the way
    # an import leaves it: nothing per mass can be decided then.)
    I = Interp(repo)
    pm = repo.module('pmutt')
    if 'get_molecular_weight' not in pm.functions:
        raise AnchorError('pmutt.get_molecular_weight not found')
    el_ = DictV({'H': I.D.sym('nH'), 'O': I.D.sym('nO')})
    got_mw = I.call_function(pm, pm.functions['get_molecular_weight'], [], {'elements': el_},
                             name='pmutt.get_molecular_weight')
    if isinstance(got_mw, Raised) and got_mw.exc == 'KeyError':
        raise Unsupported('pmutt.get_molecular_weight raises KeyError inside the analysis for elements that '
                          'pmutt.constants.atomic_weight holds once the module body has run')
    run.check(same(got_mw, molar_mass(aw, el_)), 'REF.molweight', 'pmutt.get_molecular_weight', 'molar mass',
              'the molar mass of {H: nH, O: nO} is not the sum of atomic weight times count: got %s, expected %s'
              % (show(got_mw, 160), show(molar_mass(aw, el_), 160)), pm, pm.functions['get_molecular_weight'])
    counter = [0]
    n_wrappers = 0
    covered = set()         # classes a fixture of which was asked
    ran = set()             # (class that binds the getter, getter) that were asked

    def wrappers(I_, obj_, label_=None, floor_=None):
        """the dimensional getters of the fixture's class, each next to its twin; noted as run"""
        ws = wrappers_of(repo, obj_.ci, I_, obj_)
        covered.add(obj_.ci.qual)
        ran.update((w_[3].qual, w_[0]) for w_ in ws)
        if floor_ is not None:
            # a getter of the documented interface that is no longer offered (or no longer next to its twin) is never
            # a refactoring: the counts are those of the interface, without slack
            run.floor('dimensional getters of %s' % label_, len(ws), floor_)
        return ws

    # ---- (a) model classes that use the seven _ModelBase wrappers as they are (or replace some of them) -----------
    I = Interp(repo, order=RankOrder({'x': 1, 'b1': 2}, const_ranks=True))    # a coverage inside the first interval
    D = I.D
    nH, nO = D.sym('nH'), D.sym('nO')
    comp = lambda: DictV({'H': nH, 'O': nO})
    molw = molar_mass(aw, comp())
    nomass_seen = set()
    fixtures = [(label, obj, avail) for label, obj, avail, hu, closed in mode_instances(I, repo) if label != 'BEP']
    fixtures += further_models(I, repo, comp)
    for label, obj, avail in fixtures:
        # does the object have a composition? The object is asked (instance attribute, property, class attribute),
        # not the text of its constructor; "no such attribute" and None both mean it has none
        el = composition(I, obj)
        mw = None
        if el is not None:
            if not isinstance(el, DictV):
                raise Unsupported('composition of the model object %s is %r' % (label, el))
            mw = molar_mass(aw, el)
        for wname, tname, q, owner, fn in wrappers(I, obj, label, 7):
            n_wrappers += 1
            run.fn('%s.%s' % (owner.qual, wname))
            run_pair(run, I, obj, label, wname, tname, q, owner, fn, avail,
                     unit_variants(rkeys, thorough, per_mass=mw is not None), mw, counter)
            # no composition: per-mass units are refused (once per wrapper definition, by an object that was built by
            # its own constructor - it has exactly the attributes its class gives it)
            if mw is None and obj.closed and (owner.qual, wname) not in nomass_seen:
                nomass_seen.add((owner.qual, wname))
                run_nomass(run, I, obj, label + '[no elements]', wname, tname, q, owner, fn, avail, counter)
    # a species-like object that inherits all seven wrappers of the base class and does carry a composition: a BEP
    # relation standing for a transition state, built by its constructor - the class of pmutt.reaction and the one
    # OpenMKM input is written from. (Its activation form is a reaction form, molar only, section (e).)
    # the reaction the relation is asked about is a Reaction built by its constructor (whatever the relation asks of
    # it is answered by the package's own code; its species are the uninterpreted ones)
    rx, rs_, ps_, ts_ = reaction(I, repo, 'pmutt.reaction.Reaction', name='rxn')
    pressure_default(*(rs_ + ps_ + ts_))
    for bq, btag in (('pmutt.reaction.bep.BEP', 'BEP'), ('pmutt.omkm.reaction.BEP', 'omkm.BEP')):
        for el, mw, tag in ((comp(), molw, 'elements'), (None, None, 'no elements')):
            bep = I.construct(repo.cls(bq), [],
                              {'slope': D.sym('slope'), 'intercept': D.sym('intercept'), 'descriptor': 'delta_H',
                               'elements': el}, name='bep')
            if isinstance(bep, Raised):
                raise Unsupported('BEP(...) raised %s' % bep.exc)
            n_bep = 0
            for wname, tname, q, owner, fn in wrappers(I, bep, btag, 8):
                if wname.endswith('_act'):
                    continue
                n_bep += 1
                avail = {'T': D.sym('T'), 'P': D.sym('P'), 'reaction': rx}
                if el is not None:
                    run_pair(run, I, bep, '%s[%s]' % (btag, tag), wname, tname, q, owner, fn, avail,
                             ['J/mol/K', 'J/g/K', 'kJ/kg/K'], mw, counter)
                else:
                    run_nomass(run, I, bep, '%s[%s]' % (btag, tag), wname, tname, q, owner, fn, avail, counter)
            run.floor('wrappers of a BEP relation (%s) with %s' % (btag, tag), n_bep, 7)

    # ---- (b) StatMech ---------------------------------------------------------
    ci = repo.cls('pmutt.statmech.StatMech')
    methods = ['get_q'] + ['get_' + q for q in QUANT] + ['get_ZPE']
    I = Interp(repo)
    D = I.D
    nH, nO = D.sym('nH'), D.sym('nO')
    molw = molar_mass(aw, DictV({'H': nH, 'O': nO}))
    attrs = {a: opaque_obj(I, a, {m: ('T', 'P') for m in methods}) for a in MODE_ATTRS}
    pressure_default(*attrs.values())
    attrs.update({'name': 'sp', 'references': None, 'misc_models': None})

    def species(elements, **over):
        # built by the constructor from the documented arguments: what it keeps, and under which names, is its own
        # business (an attribute it does not set does not exist)
        o = I.construct(ci, [], dict(attrs, elements=elements, **over), name='sp')
        if isinstance(o, Raised):
            raise Unsupported('StatMech(...) raised %s for the model species' % o.exc)
        sel_opaque(o)
        return o
    sp = species(DictV({'H': nH, 'O': nO}))
    ws = wrappers(I, sp, 'StatMech', 8)
    # the entropy-of-elements switch is a boolean whose default is None: left out, switched on and switched off
    # explicitly (False is not None - a wrapper that hands on "was it given" instead of the value shows here)
    for sel in (None, True, False):
        avail = {'T': D.sym('T'), 'P': D.sym('P'), 'S_elements': sel, 'include_ZPE': True}
        for wname, tname, q, owner, fn in ws:
            if sel is None:
                n_wrappers += 1
                run.fn('%s.%s' % (owner.qual, wname))
            if sel is False and 'S_elements' not in params(fn)[0]:
                continue
            av = {k: v for k, v in avail.items() if k in params(fn)[0] or k in ('T', 'P')}
            run_pair(run, I, sp, 'StatMech' + sel_label(sel), wname, tname, q, owner, fn, av,
                     ['J/mol/K'] if sel is False else unit_variants(rkeys, thorough and sel is None, per_mass=True),
                     molw, counter)
    # a second species with the same element symbols but other counts, evaluated after the first in the same
    # session: per-mass values must use its own molar mass (nothing may be remembered from the previous species)
    mH, mO = D.sym('mH'), D.sym('mO')
    sp_b = species(DictV({'H': mH, 'O': mO}))
    molw_b = molar_mass(aw, DictV({'H': mH, 'O': mO}))
    for wname, tname, q, owner, fn in ws:
        av = {'T': D.sym('T'), 'P': D.sym('P')}
        run_pair(run, I, sp_b, 'StatMech[second species, same elements]', wname, tname, q, owner, fn, av,
                 ['J/g/K'], molw_b, counter)
    # the same species without a composition (``elements`` is None, the constructor's default)
    sp_0 = species(None)
    for wname, tname, q, owner, fn in ws:
        run_nomass(run, I, sp_0, 'StatMech[elements=None]', wname, tname, q, owner, fn,
                   {'T': D.sym('T'), 'P': D.sym('P')}, counter)
    # the same species with references attached: every boolean option the wrapper shares with its twin is flipped,
    # one at a time, on both - an option that is consumed on the way (use_references, verbose, ...) shows
    refs = opaque_obj(I, 'refs', {m: ('descriptors', 'T') for m in methods})
    refs.attrs['descriptor'] = 'elements'
    sp_ref = species(DictV({'H': nH, 'O': nO}), references=refs)
    n_flips = 0
    for wname, tname, q, owner, fn in ws:
        tfn = bound(repo, ci, tname, I, sp)[1]
        for opt, dflt in bool_options(fn):
            if opt not in params(tfn)[0]:
                continue
            n_flips += 1
            av = {'T': D.sym('T'), 'P': D.sym('P'), opt: not dflt}
            run_pair(run, I, sp_ref, 'StatMech[references,%s=%s]' % (opt, not dflt), wname, tname, q, owner, fn, av,
                     ['J/mol/K'], molw, counter)
    run.floor('StatMech wrapper options flipped', n_flips, 28)
    # the same species with a mode that lacks the getters (a user-defined model): the switch that turns the error
    # into a warning and the one that turns the warning into nothing act on both forms - with complete modes neither
    # switch has anything to act on
    sp_bare = species(DictV({'H': nH, 'O': nO}), nucl_model=bare_model(I, 'bare'))
    n_sil = 0
    for wname, tname, q, owner, fn in ws:
        tfn = bound(repo, ci, tname, I, sp)[1]
        for var in SILENCE:
            if not all(o in params(fn)[0] and o in params(tfn)[0] for o in var):
                continue
            n_sil += run_pair(run, I, sp_bare, 'StatMech[mode without getters,%s]' % ','.join('%s=%s' % kv for kv in sorted(var.items())),
                     wname, tname, q, owner, fn, dict({'T': D.sym('T'), 'P': D.sym('P')}, **var), ['J/mol/K'], molw,
                     counter, warns=True)
    run.floor('StatMech wrappers with a mode that lacks the getter', n_sil, 16)
    # temperature only: every option the wrapper has a default for is left out on both forms (the pressure too - the
    # modes then use their own, 1 bar), so a default of the wrapper that differs from its twin's shows
    for wname, tname, q, owner, fn in ws:
        run_pair(run, I, sp, 'StatMech[options left out]', wname, tname, q, owner, fn, {'T': D.sym('T')},
                 ['J/mol/K'], molw, counter)

    # an array of temperatures (the modes answer element by element): element by element the same relation, each
    # energy times its own temperature, per mole and per mass
    array_answers(*[attrs[a] for a in MODE_ATTRS])
    arrT = ListV([D.sym('T0'), D.sym('T1')])
    arrT.is_array = True
    n_arr_sm = 0
    for wname, tname, q, owner, fn in ws:
        av = {'T': arrT, 'P': D.sym('P')}
        if not twin_evaluates(I, sp, tname, av):
            continue
        n_arr_sm += run_pair(run, I, sp, 'StatMech[array T]', wname, tname, q, owner, fn, av, ['J/mol/K', 'kJ/kg/K'],
                             molw, counter)
    run.floor('StatMech wrappers asked with an array of temperatures', n_arr_sm, 16)

    # ---- (c) empirical species --------------------------------------------------
    n_out = 0
    for cname, qual in (('Nasa', 'pmutt.empirical.nasa.Nasa'), ('Nasa9', 'pmutt.empirical.nasa.Nasa9'),
                        ('Shomate', 'pmutt.empirical.shomate.Shomate')):
        ci = repo.cls(qual)
        I = Interp(repo, order=RankOrder({'sp.T_low': 1, 'sp.T_mid': 5, 'sp.T_high': 9, 'T': 3,
                                                        'seg0.T_low': 1, 'seg0.T_high': 9}))
        D = I.D
        nH, nO = D.sym('nH'), D.sym('nO')
        molw = molar_mass(aw, DictV({'H': nH, 'O': nO}))
        models = attached_models(I, 1)
        pressure_default(*models.items)
        # built by the constructors from the documented arguments (ranked symbols for the temperature bounds); what
        # a class keeps behind properties or private names is its own business
        attrs = {'name': 'sp', 'misc_models': models}
        if cname == 'Nasa':
            attrs.update({'a_low': coeff_vector(I, 'lo', 7), 'a_high': coeff_vector(I, 'hi', 7)})
            attrs.update({k_: D.sym('sp.' + k_) for k_ in ('T_low', 'T_mid', 'T_high')})
        elif cname == 'Nasa9':
            seg = I.construct(repo.cls('pmutt.empirical.nasa.SingleNasa9'), [],
                              {'T_low': D.sym('seg0.T_low'), 'T_high': D.sym('seg0.T_high'),
                               'a': coeff_vector(I, 's', 9)}, name='seg0')
            if isinstance(seg, Raised):
                raise Unsupported('SingleNasa9(...) raised %s' % seg.exc)
            attrs['nasas'] = ListV([seg])
        else:
            attrs.update({'a': coeff_vector(I, 'a', 8), 'units': D.sym('units')})
            attrs.update({k_: D.sym('sp.' + k_) for k_ in ('T_low', 'T_high')})

        def species(elements, **over):
            o = I.construct(ci, [], dict(attrs, elements=elements, **over), name='sp')
            if isinstance(o, Raised):
                raise Unsupported('%s(...) raised %s for the model species' % (cname, o.exc))
            sel_opaque(o)
            return o
        # a Shomate polynomial is stored in a unit of its own (J/mol/K, the default, or kJ/mol/K): each asked for its
        # values in its own unit, in the other one and per mass - asking in the stored unit is not a special case
        sp = species(DictV({'H': nH, 'O': nO}))
        ws = wrappers(I, sp, cname, 7)
        if cname == 'Shomate':
            for own in ('J/mol/K', 'kJ/mol/K'):
                sp_u = species(DictV({'H': nH, 'O': nO}), units=own)
                for sel in (None, True):
                    avail = {'T': D.sym('T'), 'P': D.sym('P'), 'S_elements': sel}
                    for wname, tname, q, owner, fn in ws:
                        run_pair(run, I, sp_u, '%s[units=%s]%s' % (cname, own, sel_label(sel)), wname, tname, q, owner,
                                 fn, avail, ['J/mol/K', 'kJ/mol/K'] + (['J/g/K'] if sel is None else []), molw, counter)
        for sel in (None, True, False):
            avail = {'T': D.sym('T'), 'P': D.sym('P'), 'S_elements': sel}
            for wname, tname, q, owner, fn in ws:
                if sel is None:
                    n_wrappers += 1
                    run.fn('%s.%s' % (owner.qual, wname))
                if sel is False and 'S_elements' not in params(fn)[0]:
                    continue
                run_pair(run, I, sp, cname + sel_label(sel), wname, tname, q, owner, fn, avail,
                         ['J/mol/K'] if sel is False else unit_variants(rkeys, thorough and sel is None, per_mass=True),
                         molw, counter)
        # the same species without a composition (``elements`` is None, the constructor's default)
        sp_0 = species(None)
        for wname, tname, q, owner, fn in ws:
            run_nomass(run, I, sp_0, cname + '[elements=None]', wname, tname, q, owner, fn,
                       {'T': D.sym('T'), 'P': D.sym('P'), 'S_elements': None}, counter)
        # an array of temperatures: element by element the same relation (T multiplies its own element)
        ranks_ = I.order.ranks
        ranks_.update({'T0': 3, 'T1': 4})
        arrT = ListV([D.sym('T0'), D.sym('T1')])
        arrT.is_array = True
        for wname, tname, q, owner, fn in ws:
            run_pair(run, I, sp, cname + '[array T]', wname, tname, q, owner, fn,
                     {'T': arrT, 'P': D.sym('P'), 'S_elements': None}, ['J/mol/K', 'kJ/kg/K'], molw, counter)
        # temperatures outside the range the polynomials were fitted to, and in its upper half: the dimensionless forms
        # extrapolate (with a warning where the class issues one), and so do the forms with units - the same value
        # times R (T), the same number of warnings. Scalars, and an array that reaches from below the range into it
        ranks_.update({'T<low': 0, 'T>mid': 7, 'T>high': 11})
        for tag in ('T<low', 'T>mid', 'T>high'):
            for wname, tname, q, owner, fn in ws:
                n_out += run_pair(run, I, sp, '%s[%s]' % (cname, tag), wname, tname, q, owner, fn,
                                  {'T': D.sym(tag), 'P': D.sym('P')}, ['J/mol/K'], molw, counter, warns=True,
                                  undefined_too=True)
        for tag, pair in (('T<low,T', ('T<low', 'T0')), ('T,T>high', ('T1', 'T>high'))):
            arrO = ListV([D.sym(pair[0]), D.sym(pair[1])])
            arrO.is_array = True
            for wname, tname, q, owner, fn in ws:
                n_out += run_pair(run, I, sp, '%s[array %s]' % (cname, tag), wname, tname, q, owner, fn,
                                  {'T': arrO, 'P': D.sym('P')}, ['J/mol/K'], molw, counter, warns=True,
                                  undefined_too=True)
        # a second species with the same element symbols but other counts, after the first in the same session
        mH, mO = D.sym('mH'), D.sym('mO')
        sp_b = species(DictV({'H': mH, 'O': mO}))
        for wname, tname, q, owner, fn in ws:
            run_pair(run, I, sp_b, cname + '[second species, same elements]', wname, tname, q, owner, fn,
                     {'T': D.sym('T'), 'P': D.sym('P')}, ['J/g/K'], molar_mass(aw, DictV({'H': mH, 'O': mO})), counter)
        # a second attached model that lacks the getters (a user-defined model that shifts one quantity only, taken to
        # the extreme): the switch that turns the error into a warning and the one that turns the warning into nothing
        # act on both forms - with complete models neither switch has anything to act on
        sp_bare = species(DictV({'H': nH, 'O': nO}), misc_models=ListV(list(models.items) + [bare_model(I, 'bare')]))
        n_sil = 0
        for wname, tname, q, owner, fn in ws:
            tfn = bound(repo, ci, tname, I, sp)[1]
            for var in SILENCE:
                if not all(o in params(fn)[0] and o in params(tfn)[0] for o in var):
                    continue
                n_sil += run_pair(run, I, sp_bare, '%s[model without getters,%s]'
                                  % (cname, ','.join('%s=%s' % kv for kv in sorted(var.items()))), wname, tname, q,
                                  owner, fn, dict({'T': D.sym('T'), 'P': D.sym('P')}, **var), ['J/mol/K'], molw,
                                  counter, warns=True)
        run.floor('%s wrappers with an attached model that lacks the getter' % cname, n_sil, 8)
        # temperature only: every option the wrapper has a default for is left out on both forms
        for wname, tname, q, owner, fn in ws:
            run_pair(run, I, sp, cname + '[options left out]', wname, tname, q, owner, fn, {'T': D.sym('T')},
                     ['J/mol/K'], molw, counter)

    run.floor('empirical wrappers asked outside the fitted range', n_out, 85)
    # ---- (d) reactions ------------------------------------------------------------
    n_numopts = n_nots = n_given = n_left = n_bepts = n_arr = 0
    for cname, qual in (('Reaction', 'pmutt.reaction.Reaction'), ('ChemkinReaction', 'pmutt.reaction.ChemkinReaction'),
                        ('SurfaceReaction', 'pmutt.omkm.reaction.SurfaceReaction')):
        ci = repo.cls(qual)
        I = Interp(repo)
        D = I.D
        rxn, rs, ps, ts = reaction(I, repo, qual)
        pressure_default(*(rs + ps + ts))
        ws = wrappers(I, rxn, cname, 24)
        for wname, tname, q, owner, fn in ws:
            n_wrappers += 1
            run.fn('%s.%s' % (owner.qual, wname))
            names = params(fn)[0]
            variants = [{}]
            if 'state' in names:
                variants = [{'state': 'reactants'}, {'state': 'TS'}]
            else:
                if 'rev' in names:
                    variants = [dict(v, rev=r) for v in variants for r in (False, True)]
                if 'act' in names:
                    variants = [dict(v, act=a) for v in variants for a in (False, True)]
            # every numeric option the wrapper shares with its twin is also given a value that is not its default (a
            # symbol): an option that is not handed on leaves the twin at its default and the two forms differ
            tfn = bound(repo, ci, tname, I, rxn)[1]
            for opt in numeric_options(fn):
                if opt in params(tfn)[0] and opt not in ('T', 'P'):
                    n_numopts += 1
                    base_variants = variants
                    variants = variants + [dict(v, **{opt: D.sym('opt.' + opt)}) for v in base_variants]
                    # ... and as None where the twin gives None a meaning of its own (``if <option> is None``)
                    if any(isinstance(c_, ast.Compare) and isinstance(c_.left, ast.Name) and c_.left.id == opt
                           and len(c_.ops) == 1 and isinstance(c_.ops[0], ast.Is)
                           and isinstance(c_.comparators[0], ast.Constant) and c_.comparators[0].value is None
                           for c_ in ast.walk(tfn)):
                        variants = variants + [dict(v, **{opt: None}) for v in base_variants]
            for var in variants:
                avail = dict({'T': D.sym('T'), 'P': D.sym('P'), 'include_ZPE': True}, **var)
                lab = cname + ('[%s]' % ','.join('%s=%s' % kv for kv in sorted(var.items())) if var else '')
                run_pair(run, I, rxn, lab, wname, tname, q, owner, fn, avail,
                         unit_variants(rkeys, thorough and not var.get('rev') and not var.get('act'), per_mass=False),
                         None, counter)
        # the same reaction without a transition state (the usual case for Chemkin and surface reactions, which give
        # the barrier a meaning of their own there): activation forms and the act option, forward and reverse
        rxn0, rs0, ps0, _ = reaction(I, repo, qual, nts=0, name='rxn0')
        pressure_default(*(rs0 + ps0))
        for wname, tname, q, owner, fn in ws:
            names = params(fn)[0]
            if not (wname.endswith('_act') or 'act' in names):
                continue
            variants = [{'rev': r} for r in (False, True)] if 'rev' in names else [{}]
            if 'act' in names:
                variants = [dict(v, act=True) for v in variants]
            for var in variants:
                avail = dict({'T': D.sym('T'), 'P': D.sym('P'), 'include_ZPE': True}, **var)
                if isinstance(getv(I, rxn0, tname, avail)[0], Raised):
                    continue        # no barrier is defined without a transition state (Reaction): nothing to compare
                n_nots += 1
                lab = '%s[no transition state,%s]' % (cname, ','.join('%s=%s' % kv for kv in sorted(var.items())))
                run_pair(run, I, rxn0, lab, wname, tname, q, owner, fn, avail, ['kJ/mol/K', 'eV/K'], None, counter)
        # temperature only: every option the wrapper has a default for (P, rev, act, include_ZPE, del_m ...) is left out
        # on both forms - the species then use their own pressure, 1 bar -, so a default of the wrapper that differs
        # from what its twin does when nothing is said shows. With and, for the barriers, without a transition state.
        for wname, tname, q, owner, fn in ws:
            names = params(fn)[0]
            variants = [{'state': 'reactants'}, {'state': 'TS'}] if 'state' in names else [{}]
            for r_, tag in ((rxn, ''), (rxn0, 'no transition state,')):
                if r_ is rxn0 and not (wname.endswith('_act') or 'act' in names):
                    continue
                for var in variants:
                    avail = dict({'T': D.sym('T')}, **var)
                    lab = '%s[%soptions left out%s]' % (cname, tag, ''.join(',%s=%s' % kv for kv in sorted(var.items())))
                    n_left += run_pair(run, I, r_, lab, wname, tname, q, owner, fn, avail, ['kJ/mol/K'], None, counter)
        # the same reaction with the optional arguments of its constructor given by the user (kinetic parameters: a
        # barrier, a pre-exponential factor, an exponent, a sticking coefficient; an id, a direction, notes; the
        # switches once as they are and once flipped): they are inputs of the rate expression and of the writers, a
        # thermodynamic getter with units stays the dimensionless one times R (T), whatever was given
        opts = ctor_options(repo, ci, D)
        givens = []
        if opts:
            plain = {k: v for k, (v, sw) in opts.items() if not sw}
            if plain:
                givens.append(('given ' + ','.join(sorted(plain)), plain))
            if any(sw for _, sw in opts.values()):
                givens.append(('given ' + ','.join('%s=%s' % (k, v) if sw else k for k, (v, sw) in sorted(opts.items())),
                               {k: v for k, (v, sw) in opts.items()}))
            if thorough and len(opts) > 1:
                givens += [('given %s only' % k, {k: v}) for k, (v, sw) in sorted(opts.items())]
        n_plain = 1 if opts and any(not sw for _, sw in opts.values()) else 0
        for i_, (tag, kw_) in enumerate(givens):
            rxu, rsu, psu, tsu = reaction(I, repo, qual, ctor=kw_)
            pressure_default(*(rsu + psu + tsu))
            n_given += 1
            for wname, tname, q, owner, fn in ws:
                names = params(fn)[0]
                if not thorough and i_ >= n_plain and not wname.endswith('_act'):
                    continue        # quick: the flipped switches (adsorption ...) through the barriers only
                variants = [{'state': 'reactants'}] if 'state' in names else [{}]
                if wname.endswith('_act') and 'rev' in names:
                    variants = [{'rev': False}, {'rev': True}]
                for var in variants:
                    avail = dict({'T': D.sym('T'), 'P': D.sym('P'), 'include_ZPE': True}, **var)
                    lab = '%s[%s%s]' % (cname, tag, ''.join(',%s=%s' % kv for kv in sorted(var.items())))
                    run_pair(run, I, rxu, lab, wname, tname, q, owner, fn, avail, ['kcal/mol/K'], None, counter)
        # the same reaction with a BEP relation standing for its transition state (the barrier is a linear function
        # of a descriptor of the reaction itself), both built by their constructors: every activation form, forward and
        # reverse. The relation is an object of another kind than a species - a getter that asks it directly instead
        # of going through the dimensionless form shows here. quick: the BEP class of the reaction's own module on
        # an enthalpy descriptor; thorough: both classes, and an electronic-energy descriptor of the reverse reaction
        own_bep = 'pmutt.omkm.reaction.BEP' if qual.startswith('pmutt.omkm') else 'pmutt.reaction.bep.BEP'
        beps = [(own_bep, 'delta_H')]
        if thorough:
            beps += [(own_bep, 'rev_delta_E')] + [(b_, 'delta_H') for b_ in ('pmutt.reaction.bep.BEP',
                                                                            'pmutt.omkm.reaction.BEP') if b_ != own_bep]
        for bq, desc in beps:
            rsb = [rxn_species(I, 'r%d' % i) for i in range(2)]
            psb = [rxn_species(I, 'p%d' % i) for i in range(2)]
            pressure_default(*(rsb + psb))
            bep = I.construct(repo.cls(bq), [], {'slope': D.sym('slope'), 'intercept': D.sym('intercept'),
                                                 'descriptor': desc, 'name': 'bep'}, name='bep')
            if isinstance(bep, Raised):
                raise Unsupported('BEP(...) raised %s' % bep.exc)
            rxb = make_reaction(I, repo, qual, rsb, [D.sym('nu_r0'), D.sym('nu_r1')], psb,
                                [D.sym('nu_p0'), D.sym('nu_p1')], ts=[bep], tstoich=[C(1)], name='rxb')
            for wname, tname, q, owner, fn in ws:
                if not wname.endswith('_act'):
                    continue
                for var in ([{'rev': False}, {'rev': True}] if 'rev' in params(fn)[0] else [{}]):
                    avail = dict({'T': D.sym('T'), 'P': D.sym('P')}, **var)
                    lab = '%s[transition state %s(%s)%s]' % (cname, 'omkm.BEP' if '.omkm.' in bq else 'BEP', desc,
                                                             ''.join(',%s=%s' % kv for kv in sorted(var.items())))
                    n_bepts += run_pair(run, I, rxb, lab, wname, tname, q, owner, fn, avail, ['kcal/mol/K'], None,
                                        counter)
        # an array of temperatures (the species answer element by element): element by element the same relation,
        # each energy times its own temperature. Forms whose dimensionless twin is not defined for an array (a
        # maximum over a list of numbers) have nothing to be compared with.
        rxa, rsa, psa, tsa = reaction(I, repo, qual, name='rxa')
        pressure_default(*(rsa + psa + tsa))
        array_answers(*(rsa + psa + tsa))
        arrT = ListV([D.sym('T0'), D.sym('T1')])
        arrT.is_array = True
        for wname, tname, q, owner, fn in ws:
            names = params(fn)[0]
            for var in ([{'state': 'reactants'}, {'state': 'TS'}] if 'state' in names else [{}]):
                avail = dict({'T': arrT, 'P': D.sym('P')}, **var)
                if not twin_evaluates(I, rxa, tname, avail):
                    continue
                lab = '%s[array T%s]' % (cname, ''.join(',%s=%s' % kv for kv in sorted(var.items())))
                n_arr += run_pair(run, I, rxa, lab, wname, tname, q, owner, fn, avail, ['kJ/mol/K'], None, counter)
    run.floor('reactions built with user-specified constructor options', n_given, 5)
    run.floor('reaction wrappers with every option left out', n_left, 90)
    run.floor('numeric options shared by a reaction wrapper and its twin', n_numopts, 3)
    run.floor('activation forms of reactions without a transition state', n_nots, 8)
    run.floor('activation forms of reactions whose transition state is a BEP relation', n_bepts, 48)
    run.floor('reaction wrappers asked with an array of temperatures', n_arr, 92)
    # ---- (e) BEP --------------------------------------------------------------------
    I = Interp(repo)
    D = I.D
    rx, rs_, ps_, ts_ = reaction(I, repo, 'pmutt.reaction.Reaction', name='rxn')
    pressure_default(*(rs_ + ps_ + ts_))
    for bq, btag in (('pmutt.reaction.bep.BEP', 'BEP'), ('pmutt.omkm.reaction.BEP', 'omkm.BEP')):
        for desc in ('delta_H', 'rev_delta_E', 'products_H'):
            if btag != 'BEP' and desc != 'delta_H':
                continue
            bep = I.construct(repo.cls(bq), [], {'slope': D.sym('slope'), 'intercept': D.sym('intercept'),
                                                 'descriptor': desc}, name='bep')
            if isinstance(bep, Raised):
                raise Unsupported('BEP(...) raised %s' % bep.exc)
            got = [w_ for w_ in wrappers(I, bep) if w_[0] == 'get_E_act']
            if not got:
                raise AnchorError('get_E_act / get_EoRT_act of %s not found' % bq)
            wname, tname, q, owner, fn = got[0]
            run.fn(owner.qual + '.get_E_act', owner.qual + '.get_EoRT_act')
            n_wrappers += 1 if desc == 'delta_H' else 0
            for rev in (False, True):
                avail = {'T': D.sym('T'), 'P': D.sym('P'), 'reaction': rx, 'rev': rev}
                run_pair(run, I, bep, '%s[%s,rev=%s]' % (btag, desc, rev), wname, tname, q, owner, fn, avail,
                         ['kcal/mol/K', 'kJ/mol/K', 'eV/K'], None, counter)
    # every class of the package that offers a getter with units has been asked
    missing = uncovered(repo, covered, ran)
    if missing:
        raise Unsupported('model class(es) with dimensional getters for which the rule has no constructor recipe: %s'
                          % ', '.join(missing))
    run.floor('model classes asked', len(covered), 27)
    run.floor('dimensional wrapper definitions', n_wrappers, 120)
    run.extra['wrapper_unit_pairs'] = counter[0]


P_ = 'pmutt/__init__.py'
N_ = 'pmutt/empirical/nasa.py'
S_ = 'pmutt/empirical/shomate.py'
R_ = 'pmutt/reaction/__init__.py'
SM_ = 'pmutt/statmech/__init__.py'
O_ = 'pmutt/omkm/reaction.py'
MUTANTS = [
    {'name': '_ModelBase.get_S multiplies by T', 'expect': ('TWIN.dim', '.get_S'),
     'edits': [(P_, 'return _force_pass_arguments(self.get_SoR, **kwargs) * R_adj', 'return _force_pass_arguments(self.get_SoR, **kwargs) * R_adj * kwargs.get(\'T\', 1.)')]},
    {'name': 'get_delta_F calls delta_GoRT', 'expect': ('TWIN.dim', 'get_delta_F'),
     'edits': [(R_, 'return self.get_delta_FoRT(rev=rev, T=T, act=act, **kwargs) * T * c.R(', 'return self.get_delta_GoRT(rev=rev, T=T, act=act, **kwargs) * T * c.R(')]},
    {'name': 'StatMech.get_U units not extended by /K', 'expect': ('', 'StatMech'),
     'edits': [(SM_, "        units = '{}/K'.format(units)\n        R_adj = _get_R_adj(units=units, elements=self.elements)\n        return self.get_UoRT(",
                "        R_adj = _get_R_adj(units=units + '/K' if False else units, elements=self.elements)\n        return self.get_UoRT(")]},
    {'name': 'Nasa.get_H drops kwargs', 'expect': ('TWIN.dim', 'Nasa.get_H'),
     'edits': [(N_, '''        return self.get_HoRT(T=T,
                             raise_error=raise_error,
                             raise_warning=raise_warning,
                             **kwargs) * T * R_adj''', '''        return self.get_HoRT(T=T,
                             raise_error=raise_error,
                             raise_warning=raise_warning) * T * R_adj''', 0, 2)]},
    {'name': 'Reaction.get_E_state forgets include_ZPE', 'expect': ('TWIN.dim', 'get_E_state'),
     'edits': [(R_, '''        return self.get_EoRT_state(state=state, T=T, include_ZPE=include_ZPE,
                                   **kwargs) \\''', '''        return self.get_EoRT_state(state=state, T=T,
                                   **kwargs) \\''')]},
    {'name': '_get_R_adj multiplies by molar mass', 'expect': ('TWIN.dim', ''),
     'edits': [(P_, "    R_adj = c.R(mol_units) / c.convert_unit(", "    R_adj = c.R(mol_units) * c.convert_unit(")]},
    {'name': 'get_G_act of Reaction multiplies T twice', 'expect': ('TWIN.dim', 'get_G_act'),
     'edits': [(R_, "        return self.get_GoRT_act(T=T, rev=rev, **kwargs)*T \\\n               *c.R('{}/K'.format(units))", "        return self.get_GoRT_act(T=T, rev=rev, **kwargs)*T*T \\\n               *c.R('{}/K'.format(units))", 0, 2)]},
    # ---- instances added after the white-box review ----
    {'name': 'StatMech.get_F does not hand on verbose', 'expect': ('TWIN.dim', 'StatMech.get_F'),
     'edits': [(SM_, "        return self.get_FoRT(verbose=verbose,\n", "        return self.get_FoRT(\n")]},
    {'name': '_ModelBase.get_G looks for the composition under another name', 'expect': ('FWD.raises', 'BEP.get_G'),
     'edits': [(P_, """        R_adj = _get_R_adj(units=units,
                           elements=getattr(self, 'elements', None))

        GoRT_kwargs = kwargs.copy()""", """        R_adj = _get_R_adj(units=units,
                           elements=getattr(self, 'element', None))

        GoRT_kwargs = kwargs.copy()""")]},
    {'name': 'ChemkinReaction.get_G_act is get_delta_G without a transition state',
     'expect': ('TWIN.dim', 'ChemkinReaction.get_G_act'),
     'edits': [(R_, "        return self.get_GoRT_act(T=T, rev=rev, **kwargs)*T \\\n               *c.R('{}/K'.format(units))",
                "        if self.transition_state is None:\n            return self.get_delta_G(units=units, T=T, rev=rev, **kwargs)\n"
                "        return self.get_GoRT_act(T=T, rev=rev, **kwargs)*T \\\n               *c.R('{}/K'.format(units))", 1, 2)]},
    {'name': 'SurfaceReaction.get_H_act is get_delta_H without a transition state',
     'expect': ('TWIN.dim', 'SurfaceReaction.get_H_act'),
     'edits': [('pmutt/omkm/reaction.py', "        return self.get_HoRT_act(rev=rev, T=T, **kwargs)*T*c.R(R_units)",
                "        if self.transition_state is None:\n            return self.get_delta_H(units=units, T=T, rev=rev, **kwargs)\n"
                "        return self.get_HoRT_act(rev=rev, T=T, **kwargs)*T*c.R(R_units)")]},
    {'name': 'Nasa.get_G: S_elements given means switched on', 'expect': ('TWIN.dim', 'Nasa.get_G'),
     'edits': [(N_, "                             S_elements=S_elements,\n                             **kwargs) * T * R_adj",
                "                             S_elements=S_elements is not None,\n                             **kwargs) * T * R_adj", 0, 2)]},
    {'name': 'Shomate.get_G: S_elements given means switched on', 'expect': ('TWIN.dim', 'Shomate.get_G'),
     'edits': [(S_, "                             S_elements=S_elements,\n                             **kwargs) * T * R_adj",
                "                             S_elements=S_elements is not None,\n                             **kwargs) * T * R_adj")]},
    {'name': '_get_R_adj: molar constant when there is no composition', 'expect': ('TWIN.permass', ''),
     'edits': [(P_, """        raise AttributeError(err_msg)

    mol_weight = get_molecular_weight(elements)  # g/mol""", """        return c.R(units.replace('/{}'.format(mass_unit), '/mol'))

    mol_weight = get_molecular_weight(elements)  # g/mol""")]},
    {'name': 'StatMech.get_S: molar constant when there is no composition', 'expect': ('TWIN.permass', 'StatMech.get_S'),
     'edits': [(SM_, "        R_adj = _get_R_adj(units=units, elements=self.elements)\n        return self.get_SoR(verbose=verbose,",
                "        R_adj = _get_R_adj(units=units, elements=self.elements) if self.elements is not None else c.R('J/mol/K')\n"
                "        return self.get_SoR(verbose=verbose,")]},
    {'name': 'Shomate.get_S: molar constant when there is no composition', 'expect': ('TWIN.permass', 'Shomate.get_S'),
     'edits': [(S_, "        R_adj = _get_R_adj(units=units, elements=self.elements)\n        return self.get_SoR(T=T,",
                "        R_adj = _get_R_adj(units=units, elements=self.elements) if self.elements is not None else c.R('J/mol/K')\n"
                "        return self.get_SoR(T=T,")]},
]
MUTANTS += [
    # ---- instances added after round 2 of the white-box review ----
    {'name': 'SurfaceReaction.get_H_act returns the user-specified Ea', 'expect': ('TWIN.dim', 'SurfaceReaction.get_H_act'),
     'edits': [(O_, "        R_units = '{}/K'.format(units)\n        return self.get_HoRT_act(rev=rev, T=T, **kwargs)*T*c.R(R_units)",
                "        if self.Ea is not None:\n            return c.convert_unit(self.Ea, initial='kcal/mol', final=units)\n"
                "        R_units = '{}/K'.format(units)\n        return self.get_HoRT_act(rev=rev, T=T, **kwargs)*T*c.R(R_units)")]},
    {'name': 'ChemkinReaction.get_G_act: no barrier for an adsorption', 'expect': ('TWIN.dim', 'ChemkinReaction.get_G_act'),
     'edits': [(R_, "        return self.get_GoRT_act(T=T, rev=rev, **kwargs)*T \\\n               *c.R('{}/K'.format(units))",
                "        if self.is_adsorption:\n            return 0.\n"
                "        return self.get_GoRT_act(T=T, rev=rev, **kwargs)*T \\\n               *c.R('{}/K'.format(units))", 1, 2)]},
    {'name': 'Nasa.get_Cp does not hand on raise_error/raise_warning', 'expect': ('FWD.raises', 'Nasa.get_Cp'),
     'edits': [(N_, '''        return self.get_CpoR(T=T,
                             raise_error=raise_error,
                             raise_warning=raise_warning,
                             **kwargs) * R_adj''', '''        return self.get_CpoR(T=T, **kwargs) * R_adj''', 0, 2)]},
    {'name': 'Shomate.get_H does not hand on raise_warning', 'expect': ('FWD.warns', 'Shomate.get_H'),
     'edits': [(S_, '''        return self.get_HoRT(T=T,
                             raise_error=raise_error,
                             raise_warning=raise_warning,
                             **kwargs) * T * R_adj''', '''        return self.get_HoRT(T=T,
                             raise_error=raise_error,
                             **kwargs) * T * R_adj''')]},
    {'name': 'StatMech.get_Cv does not hand on raise_error', 'expect': ('FWD.raises', 'StatMech.get_Cv'),
     'edits': [(SM_, "        return self.get_CvoR(verbose=verbose,\n                             raise_error=raise_error,\n",
                "        return self.get_CvoR(verbose=verbose,\n")]},
    {'name': 'SurfaceReaction.get_G_act: default pressure 1 atm', 'expect': ('TWIN.dim', 'SurfaceReaction.get_G_act'),
     'edits': [(O_, "    def get_G_act(self, units, T, P=1., rev=False, **kwargs):",
                "    def get_G_act(self, units, T, P=1.01325, rev=False, **kwargs):")]},
    {'name': 'Reaction.get_E_state: default include_ZPE=True', 'expect': ('TWIN.dim', 'get_E_state'),
     'edits': [(R_, "                    T=c.T0('K'),\n                    include_ZPE=False,", "                    T=c.T0('K'),\n                    include_ZPE=True,")]},
    {'name': 'Shomate.get_S: polynomial alone when asked in its own unit', 'expect': ('TWIN.dim', 'Shomate.get_S'),
     'edits': [(S_, "        R_adj = _get_R_adj(units=units, elements=self.elements)\n        return self.get_SoR(T=T,",
                "        if units == self.units and not S_elements:\n            t = np.array(T) / 1000.\n            a = self.a\n"
                "            return a[0]*np.log(t) + a[1]*t + a[2]*t**2/2. + a[3]*t**3/3. - a[4]/(2.*t**2) + a[6]\n"
                "        R_adj = _get_R_adj(units=units, elements=self.elements)\n        return self.get_SoR(T=T,")]},
    {'name': 'Nasa.get_Cp remembers the constant per element symbols', 'expect': ('TWIN.dim', 'Nasa.get_Cp'),
     'edits': [(N_, "    def get_Cp(self, T, units, raise_error=True, raise_warning=True, **kwargs):",
                "    def get_Cp(self, T, units, raise_error=True, raise_warning=True, _memo={}, **kwargs):", 0, 2),
               (N_, "        R_adj = _get_R_adj(units=units, elements=self.elements)\n",
                "        try:\n            R_adj = _memo[(units, tuple(self.elements or ()))]\n        except KeyError:\n"
                "            R_adj = _get_R_adj(units=units, elements=self.elements)\n"
                "            _memo[(units, tuple(self.elements or ()))] = R_adj\n", 0, 8)]},
    {'name': '_get_R_adj remembers the molar mass per element symbols', 'expect': ('TWIN.dim', 'StatMech'),
     'edits': [(P_, "def _get_R_adj(units, elements=None):", "def _get_R_adj(units, elements=None, _memo={}):"),
               (P_, "    mol_weight = get_molecular_weight(elements)  # g/mol\n",
                "    try:\n        mol_weight = _memo[tuple(elements)]\n    except KeyError:\n"
                "        mol_weight = _memo[tuple(elements)] = get_molecular_weight(elements)\n")]},
]
_FACTORY = ("def _make_state_getter(twin_name):\n"
            "    def getter(self, state, units, T=c.T0('K'), **kwargs):\n"
            "        return getattr(self, twin_name)(state=state, T=T%s) * c.R(units)\n"
            "    return getter\n\n\nclass Reaction(_pmuttBase):\n")
_FACTORY_EDITS = lambda kw: [
    (R_, "class Reaction(_pmuttBase):\n", _FACTORY % kw),
    (R_, "    def get_S_state(self, state, units, **kwargs):", "    def _get_S_state(self, state, units, **kwargs):"),
    (R_, "        return self.get_SoR_state(state=state, **kwargs) * c.R(units)\n",
     "        return self.get_SoR_state(state=state, **kwargs) * c.R(units)\n\n"
     "    get_S_state = _make_state_getter('get_SoR_state')\n")]
REF_ = 'pmutt/empirical/references.py'
MUTANTS += [
    # ---- instances added after round 3 of the white-box review ----
    {'name': 'Reaction.get_S_state made by a factory whose getter forgets **kwargs', 'expect': ('TWIN.dim', 'get_S_state'),
     'edits': _FACTORY_EDITS('')},
    {'name': 'SurfaceReaction.get_H_act asks a BEP transition state directly', 'expect': ('TWIN.dim', 'SurfaceReaction.get_H_act'),
     'edits': [(O_, "        R_units = '{}/K'.format(units)\n        return self.get_HoRT_act(rev=rev, T=T, **kwargs)*T*c.R(R_units)",
                "        for species in self.transition_state or []:\n            if isinstance(species, BEP):\n"
                "                return species.get_E_act(units=units, reaction=self, rev=rev, T=T, **kwargs)\n"
                "        R_units = '{}/K'.format(units)\n        return self.get_HoRT_act(rev=rev, T=T, **kwargs)*T*c.R(R_units)")]},
    {'name': 'Nasa.get_Cp holds the value outside the fitted range', 'expect': ('TWIN.dim', 'Nasa.get_Cp'),
     'edits': [(N_, "        R_adj = _get_R_adj(units=units, elements=self.elements)\n        return self.get_CpoR(T=T,",
                "        R_adj = _get_R_adj(units=units, elements=self.elements)\n"
                "        if _is_iterable(T):\n            T = np.array([min(max(T_i, self.T_low), self.T_high) for T_i in T])\n"
                "        else:\n            T = min(max(T, self.T_low), self.T_high)\n        return self.get_CpoR(T=T,", 0, 2)]},
    {'name': 'Nasa9.get_Cp answers 0 where no interval holds the temperature', 'expect': ('FWD.defined', 'Nasa9.get_Cp'),
     'edits': [(N_, """        return self.get_CpoR(T=T,
                             raise_error=raise_error,
                             raise_warning=raise_warning,
                             **kwargs) * R_adj""", """        try:
            return self.get_CpoR(T=T, raise_error=raise_error, raise_warning=raise_warning, **kwargs) * R_adj
        except ValueError:
            return 0.""", 1, 2)]},
    {'name': 'Reaction.get_delta_H hands out a python float', 'expect': ('FWD.raises', 'Reaction.get_delta_H'),
     'edits': [(R_, "        return self.get_delta_HoRT(rev=rev, T=T, act=act, **kwargs) * T * c.R(\n            '{}/K'.format(units))",
                "        return float(self.get_delta_HoRT(rev=rev, T=T, act=act, **kwargs) * T * c.R(\n            '{}/K'.format(units)))", 0, 2)]},
    {'name': 'ConstantMode.get_H converts the stored value directly', 'expect': ('', 'ConstantMode.get_H'),
     'edits': [(SM_, "        return self.G / c.R('eV/K') / T\n",
                "        return self.G / c.R('eV/K') / T\n\n    def get_H(self, units, **kwargs):\n"
                "        return c.convert_unit(self.H, initial='eV/molecule', final=units)\n")]},
    {'name': 'Reference.get_H: stored value at the reference temperature', 'expect': ('TWIN.dim', 'Reference.get_H'),
     'edits': [(REF_, "        self.T_ref = T_ref\n        self.HoRT_ref = HoRT_ref\n",
                "        self.T_ref = T_ref\n        self.HoRT_ref = HoRT_ref\n\n    def get_H(self, units, T=None, **kwargs):\n"
                "        return self.HoRT_ref * self.T_ref * c.R('{}/K'.format(units))\n")]},
    {'name': 'get_molecular_weight ignores the counts', 'expect': ('REF.molweight', 'get_molecular_weight'),
     'edits': [(P_, "        molecular_weight += c.atomic_weight[element] * coefficient",
                "        molecular_weight += c.atomic_weight[element]")]},
]
EQUIV = [
    {'name': 'default pressure of SurfaceReaction.get_G_act spelled c.P0',
     'edits': [(O_, "    def get_G_act(self, units, T, P=1., rev=False, **kwargs):",
                "    def get_G_act(self, units, T, P=c.P0('bar'), rev=False, **kwargs):")]},
    {'name': 'get_delta_Cv spelled with keyword order changed',
     'edits': [(R_, 'return self.get_delta_CvoR(rev=rev, act=act, **kwargs) * c.R(units)', 'return c.R(units) * self.get_delta_CvoR(act=act, rev=rev, **kwargs)')]},
    # ---- refactorings that round 3 of the white-box review saw rejected ----
    {'name': 'elements = None as a class attribute of _ModelBase, read as self.elements',
     'edits': [(P_, "    Inherits from :class:`~pmutt._pmuttBase`\"\"\"\n    def __init__(self):\n        pass\n",
                "    Inherits from :class:`~pmutt._pmuttBase`\"\"\"\n\n    elements = None\n\n    def __init__(self):\n        pass\n"),
               (P_, "        R_adj = _get_R_adj(units=units,\n                           elements=getattr(self, 'elements', None))\n"
                    "        return _force_pass_arguments(self.get_CvoR, **kwargs) * R_adj",
                "        R_adj = _get_R_adj(units=units, elements=self.elements)\n"
                "        return _force_pass_arguments(self.get_CvoR, **kwargs) * R_adj")]},
    {'name': 'Reaction.get_S_state made by a factory, keywords handed on', 'edits': _FACTORY_EDITS(', **kwargs')},
    {'name': 'ChemkinReaction.get_H_act clamps the enthalpies themselves (max(0, a R T, b R T))',
     'edits': [(R_, "        return self.get_HoRT_act(rev=rev, T=T,\n                                 **kwargs)*c.R('{}/K'.format(units))*T",
                "        act = self.transition_state is not None\n        R = c.R('{}/K'.format(units))\n"
                "        return np.max([0., super().get_delta_HoRT(rev=rev, act=act, T=T, **kwargs)*R*T,\n"
                "                       super().get_delta_HoRT(rev=rev, act=False, T=T, **kwargs)*R*T])")]},
]
