"""C08 - reaction quantities obey Hess's law, reversal symmetry and detailed balance."""
from fractions import Fraction as Fr

from ..nf import Rat, C
from ..source import Unsupported, AnchorError
from ..xlate import Interp, Obj, ListV, DictV, Raised
from .common import same, show, sub
from .rxnfix import reaction, state_sum, get_public

CLASSES = (('Reaction', 'pmutt.reaction.Reaction'),
           ('ChemkinReaction', 'pmutt.reaction.ChemkinReaction'),
           ('SurfaceReaction', 'pmutt.omkm.reaction.SurfaceReaction'))
QUANT = ('q', 'CvoR', 'CpoR', 'UoRT', 'HoRT', 'SoR', 'FoRT', 'GoRT', 'EoRT')
CLAMPED = {('ChemkinReaction', 'HoRT'), ('ChemkinReaction', 'GoRT'),
           ('SurfaceReaction', 'HoRT'), ('SurfaceReaction', 'GoRT')}
STATES = (('reactants', 'r'), ('products', 'p'), ('transition state', 't'), ('transition_state', 't'), ('TS', 't'))


def expected_state(I, rxn, which, method, kw):
    sp = get_public(I, rxn, which)
    nu = get_public(I, rxn, which + '_stoich')
    return state_sum(I, sp.items, nu.items, method, kw, prod=(method == 'get_q'))


def expected_delta(I, rxn, method, kw, rev, act):
    ini = 'products' if rev else 'reactants'
    fin = 'transition_state' if act else ('reactants' if rev else 'products')
    a = expected_state(I, rxn, ini, method, kw)
    b = expected_state(I, rxn, fin, method, kw)
    return b / a if method == 'get_q' else b - a


def check(run, repo):
    run.explanation = (
        'Reaction, ChemkinReaction and SurfaceReaction are interpreted abstractly with uninterpreted species '
        '(2 reactants, 2 products, 1 transition-state species; symbolic stoichiometric coefficients; every species '
        'getter an atom named by its keyword arguments). Decided as identities in those atoms: every *_state getter '
        'is the stoichiometry-weighted sum (product of powers for q) over the named state for all five state '
        'spellings; every get_delta_* for the four (rev, act) combinations is final minus initial (ratio for q); '
        'reversal flips the sign; forward minus reverse activation equals the reaction change; unclamped *_act '
        'getters equal delta(act=True); Keq = exp(-delta G/RT) and K_f*K_r = 1; a keyword block addressed to one '
        'species reaches only that species; caller-supplied dictionaries are unchanged after the call.')
    run.assumptions = ['species getters are arbitrary functions of the keyword arguments they accept '
                       '(uninterpreted atoms); _force_pass_arguments modelled by its documented contract']
    run.undecided = ['numerical values; species whose getters ignore their arguments']
    n = 0
    for cname, qual in CLASSES:
        ci = repo.cls(qual)
        I = Interp(repo)
        D = I.D
        T, P, P2 = D.sym('T'), D.sym('P'), D.sym('P2')
        rxn, rs, ps, ts = reaction(I, repo, qual)
        kw = {'T': T, 'P': P}
        for X in QUANT:
            m = 'get_' + X
            # 1. state getters
            owner, fn = repo.find_method(ci, 'get_%s_state' % X)
            run.fn('%s.get_%s_state' % (owner.qual, X))
            for st, which in STATES:
                got = I.call_method(rxn, 'get_%s_state' % X, [], dict(kw, state=st))
                # get_EoRT_state has include_ZPE=False as an explicit default which it forwards
                kwe = dict(kw, include_ZPE=False) if X == 'EoRT' else kw
                want = expected_state(I, rxn, {'r': 'reactants', 'p': 'products', 't': 'transition_state'}[which],
                                      m, kwe)
                run.check(same(got, want), 'REF.state', '%s.get_%s_state' % (cname, X), 'state:' + st,
                          'state quantity is not the stoichiometry-weighted %s over the %s: %s'
                          % ('product of powers' if X == 'q' else 'sum', st, show(got, 200)), owner.module, fn,
                          sample='%s.get_%s_state(%r) == sum nu_i x_i' % (cname, X, st) if st == 'TS' else None)
                n += 1
            # 2. delta getters
            owner, fn = repo.find_method(ci, 'get_delta_' + X)
            run.fn('%s.get_delta_%s' % (owner.qual, X))
            d = {}
            for rev in (False, True):
                for act in (False, True):
                    got = I.call_method(rxn, 'get_delta_' + X, [], dict(kw, rev=rev, act=act))
                    d[(rev, act)] = got
                    want = expected_delta(I, rxn, m, kw, rev, act)
                    run.check(same(got, want), 'REF.delta', '%s.get_delta_%s' % (cname, X),
                              'rev=%s act=%s' % (rev, act),
                              'change is not final minus initial (%s): %s'
                              % ('TS' if act else 'products/reactants', show(got, 200)), owner.module, fn)
                    n += 1
            # the flags as a caller may hold them after a comparison or a table lookup (numpy.bool_, 0/1): truthy
            # values that are not the singleton True select the same states
            for rev, act in ((0, 1), (1, 1), (1, 0)):
                got = I.call_method(rxn, 'get_delta_' + X, [], dict(kw, rev=C(rev), act=C(act)))
                run.check(same(got, d[(bool(rev), bool(act))]), 'REF.delta', '%s.get_delta_%s' % (cname, X),
                          'rev=%s act=%s (flags given as 0/1)' % (rev, act),
                          'with truthy flags that are not the singleton True the change is %s, with rev=%s act=%s it '
                          'is %s' % (show(got, 160), bool(rev), bool(act), show(d[(bool(rev), bool(act))], 160)),
                          owner.module, fn)
                n += 1
            if X == 'q':
                ok_rev = same(d[(True, False)] * d[(False, False)], C(1))
                ok_act = same(d[(False, True)] / d[(True, True)], d[(False, False)])
            else:
                ok_rev = same(I.binop('+', d[(True, False)], d[(False, False)]), C(0))
                ok_act = same(I.binop('-', d[(False, True)], d[(True, True)]), d[(False, False)])
            run.check(ok_rev, 'ALG.reversal', '%s.get_delta_%s' % (cname, X), 'reversal',
                      'reversing the direction does not flip the sign (invert the ratio)', owner.module, fn)
            run.check(ok_act, 'ALG.hess-act', '%s.get_delta_%s' % (cname, X), 'forward-reverse',
                      'forward minus reverse activation quantity is not the reaction change', owner.module, fn)
            n += 2
            # 3. *_act == delta(act=True) for the unclamped getters
            if X != 'EoRT' and (cname, X) not in CLAMPED:
                owner, fn = repo.find_method(ci, 'get_%s_act' % X)
                run.fn('%s.get_%s_act' % (owner.qual, X))
                for rev in (False, True):
                    got = I.call_method(rxn, 'get_%s_act' % X, [], dict(kw, rev=rev))
                    kw2 = dict(kw)
                    if X == 'q':
                        kw2['include_ZPE'] = False
                    want = expected_delta(I, rxn, m, kw2, rev, True)
                    run.check(same(got, want), 'REF.act', '%s.get_%s_act' % (cname, X), 'rev=%s' % rev,
                              'activation quantity is not transition state minus %s: %s'
                              % ('products' if rev else 'reactants', show(got, 200)), owner.module, fn)
                    n += 1
        # 3b. the same law for the values with units (J/mol): state value = sum nu_i * species value, change = final
        #     minus initial, under every option the getter accepts (zero-point energy for E)
        Rj = D.sym('kb') * D.sym('Na')
        for Xd, Xn, energy in (('E', 'EoRT', True), ('H', 'HoRT', True), ('G', 'GoRT', True), ('U', 'UoRT', True),
                               ('F', 'FoRT', True), ('S', 'SoR', False), ('Cp', 'CpoR', False), ('Cv', 'CvoR', False)):
            mname = 'get_%s_state' % Xd
            if repo.find_method(ci, mname, missing_ok=True) is None:
                continue
            owner, fn = repo.find_method(ci, mname)
            units = 'J/mol' if energy else 'J/mol/K'
            fac = Rj * T if energy else Rj
            for zpe in ((False, True) if Xd == 'E' else (None,)):
                opt = {} if zpe is None else {'include_ZPE': zpe}
                for st, which in (('reactants', 'reactants'), ('TS', 'transition_state')):
                    got = I.call_method(rxn, mname, [], dict(kw, state=st, units=units, **opt))
                    kwe = dict(kw, include_ZPE=bool(zpe)) if Xd == 'E' else kw
                    want = I.binop('*', expected_state(I, rxn, which, 'get_' + Xn, kwe), fac)
                    run.check(same(got, want), 'REF.state', '%s.%s' % (cname, mname),
                              'units state:%s%s' % (st, '' if zpe is None else ' include_ZPE=%s' % zpe),
                              'state quantity in %s is not the stoichiometry-weighted sum of the species values '
                              'under the same options: %s' % (units, show(got, 200)), owner.module, fn)
                    n += 1
                dname = 'get_delta_' + Xd
                if repo.find_method(ci, dname, missing_ok=True) is None:
                    continue
                owner, fn = repo.find_method(ci, dname)
                for rev, act in ((False, False), (True, True)):
                    got = I.call_method(rxn, dname, [], dict(kw, rev=rev, act=act, units=units, **opt))
                    kwe = dict(kw, include_ZPE=bool(zpe)) if Xd == 'E' else kw
                    want = I.binop('*', expected_delta(I, rxn, 'get_' + Xn, kwe, rev, act), fac)
                    run.check(same(got, want), 'REF.delta', '%s.%s' % (cname, dname),
                              'units rev=%s act=%s%s' % (rev, act, '' if zpe is None else ' include_ZPE=%s' % zpe),
                              'change in %s is not final minus initial under the same options: %s'
                              % (units, show(got, 200)), owner.module, fn)
                    n += 1
        # 4. equilibrium constant
        owner, fn = repo.find_method(ci, 'get_Keq')
        run.fn(owner.qual + '.get_Keq')
        Kf = I.call_method(rxn, 'get_Keq', [], dict(kw, rev=False))
        Kr = I.call_method(rxn, 'get_Keq', [], dict(kw, rev=True))
        dG = expected_delta(I, rxn, 'get_GoRT', kw, False, False)
        run.check(same(Kf, D.exp(-dG)), 'REF.Keq', cname + '.get_Keq', 'K=exp(-dG/RT)',
                  'equilibrium constant is %s, not exp(-delta G/RT)' % show(Kf, 200), owner.module, fn,
                  sample='%s.get_Keq == exp(-(G_products - G_reactants))' % cname)
        run.check(same(Kf * Kr, C(1)), 'ALG.detailed-balance', cname + '.get_Keq', 'Kf*Kr=1',
                  'K_forward * K_reverse = %s, not 1' % show(Kf * Kr, 200), owner.module, fn)
        # every (direction, activation) combination: the reverse activation constant is NOT the reciprocal of the
        # forward one (different initial states, same transition state)
        for rev_, act_ in ((False, True), (True, True), (True, False)):
            Ka = I.call_method(rxn, 'get_Keq', [], dict(kw, rev=rev_, act=act_))
            dGa = expected_delta(I, rxn, 'get_GoRT', kw, rev_, act_)
            run.check(same(Ka, D.exp(-dGa)), 'REF.Keq', cname + '.get_Keq', 'rev=%s act=%s' % (rev_, act_),
                      '%s equilibrium constant (rev=%s) is %s, not exp(-delta G/RT) of that direction'
                      % ('activation' if act_ else 'reaction', rev_, show(Ka, 200)), owner.module, fn)
        n += 5
        # 5. keyword routing + caller dictionaries untouched
        owner, fn = repo.find_method(ci, 'get_state_quantity')
        run.fn(owner.qual + '.get_state_quantity')
        block = DictV({'P': P2})
        foreign = DictV({'P': D.sym('P3'), 'T': D.sym('T3')})
        snap = (dict(block.d), dict(foreign.d))
        got = I.call_method(rxn, 'get_HoRT_state', [], {'state': 'reactants', 'T': T, 'P': P,
                                                        'r0_kwargs': block, 'zz_kwargs': foreign})
        nu = get_public(I, rxn, 'reactants_stoich').items
        h0 = rs[0].opaque_methods['get_HoRT'](I, rs[0], [], {'T': T, 'P': P2})
        h1 = rs[1].opaque_methods['get_HoRT'](I, rs[1], [], {'T': T, 'P': P})
        run.check(same(got, h0 * nu[0] + h1 * nu[1]), 'DATAFLOW.species-kwargs', cname + '.get_state_quantity',
                  'species block', 'conditions addressed to species r0 must change only r0\'s contribution: %s'
                  % show(got, 240), owner.module, fn,
                  sample='r0_kwargs={P:P2} -> r0 at P2, r1 at P')
        same_block = block.d.keys() == snap[0].keys() and all(block.d[k] is snap[0][k] for k in snap[0])
        same_foreign = foreign.d.keys() == snap[1].keys() and all(foreign.d[k] is snap[1][k] for k in snap[1])
        run.check(same_block and same_foreign, 'EFFECT.caller-dict', cname + '.get_state_quantity', 'nested blocks',
                  'a caller-supplied per-species dictionary was modified by the evaluation (now %s / %s)'
                  % (sorted(block.d), sorted(foreign.d)), owner.module, fn)
        for meth, extra in (('get_delta_GoRT', {}), ('get_Keq', {}), ('get_G_act', {'units': 'kJ/mol'})):
            blk = DictV({'P': P2})
            I.call_method(rxn, meth, [], dict({'T': T, 'P': P, 'p0_kwargs': blk}, **extra))
            run.check(list(blk.d) == ['P'] and blk.d['P'] is P2, 'EFFECT.caller-dict', '%s.%s' % (cname, meth),
                      'nested blocks', 'a caller-supplied per-species dictionary was modified', owner.module, fn)
        n += 5
    run.floor('C08 instances', n, 250)
    network(run, repo)


def network(run, repo):
    """pmutt.reaction.network keeps its own copy of get_state_quantity: it must agree (SIB)"""
    m = repo.modules.get('pmutt.reaction.network')
    if m is None:
        raise AnchorError('pmutt.reaction.network not found')
    fn = m.functions.get('get_state_quantity')
    if fn is None:
        raise AnchorError('pmutt.reaction.network.get_state_quantity not found')
    repo.consulted.add(m)
    run.fn('pmutt.reaction.network.get_state_quantity')
    I = Interp(repo)
    D = I.D
    T, P, P2 = D.sym('T'), D.sym('P'), D.sym('P2')
    rxn, rs, ps, ts = reaction(I, repo, 'pmutt.reaction.Reaction')
    nu = get_public(I, rxn, 'reactants_stoich')
    for meth in ('get_q', 'get_HoRT', 'get_GoRT'):
        got = I.call_function(m, fn, [], {'species': ListV(rs), 'stoich': nu, 'method_name': meth, 'T': T, 'P': P,
                                          'r1_kwargs': DictV({'P': P2})})
        want = C(1) if meth == 'get_q' else C(0)
        for sp, n_, p_ in zip(rs, nu.items, (P, P2)):
            x = sp.opaque_methods[meth](I, sp, [], {'T': T, 'P': p_})
            want = want * D.pow_sym(x, n_) if meth == 'get_q' else want + x * n_
        run.check(same(got, want), 'SIB.state', 'network.get_state_quantity', meth,
                  'the network copy of the state evaluation disagrees with Reaction.get_state_quantity: %s'
                  % show(got, 200), m, fn, sample='network.get_state_quantity(%s) == sum nu_i x_i' % meth)


R = 'pmutt/reaction/__init__.py'
MUTANTS = [
    {'name': 'the last expected argument of a callee is not looked up', 'expect': ('', ''),
     'edits': [('pmutt/__init__.py', "    args = fn_code.co_varnames[:arg_count]", "    args = fn_code.co_varnames[:arg_count - 1]")]},
    {'name': 'only the first expected argument is handed on', 'expect': ('', ''),
     'edits': [('pmutt/__init__.py', "        try:\n            expected_arg_val[arg] = kwargs[arg]\n        except KeyError:\n            continue", "        try:\n            expected_arg_val[arg] = kwargs[arg]\n        except KeyError:\n            continue\n        break")]},
    {'name': 'delta is initial - final', 'expect': ('REF.delta', 'Reaction.get_delta_'),
     'edits': [(R, '            return final_quantity - initial_quantity', '            return initial_quantity - final_quantity')]},
    {'name': 'q state multiplies by coeff instead of power', 'expect': ('REF.state', 'get_q_state'),
     'edits': [(R, '**specie_kwargs)**coeff', '**specie_kwargs)*coeff')]},
    {'name': '_get_states: act with rev goes to reactants', 'expect': ('', 'get_delta_'),
     'edits': [(R, "    if act:\n        final_state = 'transition state'", "    if act and not rev:\n        final_state = 'transition state'")]},
    {'name': 'species kwargs replaced by shared kwargs', 'expect': ('DATAFLOW.species-kwargs', 'get_state_quantity'),
     'edits': [(R, '                state_quantity += \\\n                    _force_pass_arguments(method, **specie_kwargs)*coeff',
                '                state_quantity += \\\n                    _force_pass_arguments(method, **kwargs)*coeff')]},
    {'name': 'get_delta_SoR forgets rev', 'expect': ('', 'get_delta_SoR'),
     'edits': [(R, "        initial_state, final_state = _get_states(rev=rev, act=act)\n        delta_SoR", "        initial_state, final_state = _get_states(rev=False, act=act)\n        delta_SoR")]},
    {'name': 'Keq without minus sign', 'expect': ('REF.Keq', 'get_Keq'),
     'edits': [(R, 'return np.exp(-self.get_delta_GoRT(rev=rev, act=act, **kwargs))', 'return np.exp(self.get_delta_GoRT(rev=rev, act=act, **kwargs))')]},
    {'name': 'get_FoRT_act uses delta G', 'expect': ('REF.act', 'get_FoRT_act'),
     'edits': [(R, 'return self.get_delta_FoRT(rev=rev, act=True, **kwargs)', 'return self.get_delta_GoRT(rev=rev, act=True, **kwargs)')]},
    {'name': '_get_specie_kwargs pops from the nested block', 'expect': ('EFFECT.caller-dict', ''),
     'edits': [('pmutt/__init__.py', '        specie_kwargs.update(specie_specific_kwargs)', "        specie_kwargs.update(specie_specific_kwargs)\n        specie_specific_kwargs.pop('P', None)")]},
]
EQUIV = [
    {'name': 'delta written as -(initial - final)',
     'edits': [(R, '            return final_quantity - initial_quantity', '            return -(initial_quantity - final_quantity)')]},
]
